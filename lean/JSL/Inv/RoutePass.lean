import JSL.Inv.RouteStep

/-!
# The batches the code builds meet the route guard; the full AGV invariant along every episode
-/

namespace JSL

variable {orc : Oracle} {inst : Instance}

/-- a timed transport transition either keeps an AGV waiting, or belongs to the AGV that produced
it and – if it is a pickup – carries that AGV's claimed job -/
theorem timedTransport_shape {s : State} (hS : SchedInv s) {t : TransportState} (ht : t ∈ s.transports)
    {tr : Transition} (h : timedTransport inst s t = .ok (some tr)) :
    tr.new = .t .waitingpickup ∨ (tr.comp = .t t.id ∧ (tr.new = .t .transit → tr.job = t.job)) := by
  unfold timedTransport at h
  cases hocc : t.occ with
  | none => simp [hocc] at h
  | dep b j tr' =>
    simp only [hocc] at h
    obtain ⟨res, _, h⟩ := except_bind_eq_ok h
    split at h
    · simp at h; subst h
      exact Or.inl (hS.depWaiting t ht b j tr' hocc)
    · simp at h
  | «at» o =>
    simp only [hocc] at h
    split at h
    · right
      cases hcr : agvTimedCreator t.st with
      | idleToPick =>
        simp only [hcr] at h
        unfold agvIdleToPickTransition at h
        obtain ⟨jid, hjid, h⟩ := except_bind_eq_ok h
        obtain ⟨j, hj, h⟩ := except_bind_eq_ok h
        obtain ⟨rdy, _, h⟩ := except_bind_eq_ok h
        simp at h
        cases hnx : idleToPickNext t.st rdy with
        | none => simp [hnx] at h
        | some ns =>
          simp [hnx] at h; subst h
          refine ⟨rfl, fun _ => ?_⟩
          have hjj := (getJob_ok hj).2
          unfold optE at hjid
          cases htj : t.job with
          | none => simp [htj] at hjid
          | some x => simp [htj] at hjid; subst hjid; simp [hjj]
      | pickupToDrop =>
        simp only [hcr] at h
        split at h
        · obtain ⟨js, _, h⟩ := except_bind_eq_ok h
          simp at h; subst h
          exact ⟨rfl, by simp⟩
        · simp at h
      | dropToIdle => simp [hcr] at h; subst h; exact ⟨rfl, by simp⟩
      | raises => simp [hcr] at h
      | none => simp [hcr] at h
    · simp at h

/-- pairwise shape of the transport part of a timed batch -/
theorem timedTransports_order {s : State} (hS : SchedInv s) : ∀ (ts : List TransportState), (∀ t ∈ ts, t ∈ s.transports) →
    (ts.map (·.id)).Nodup → ∀ r, ts.mapM (timedTransport inst s) = .ok r →
    (∀ tr ∈ r.filterMap id, tr.new = .t .waitingpickup ∨ ∃ t ∈ ts, tr.comp = .t t.id ∧ (tr.new = .t .transit → tr.job = t.job)) ∧
    (r.filterMap id).Pairwise (fun a b => b.new = .t .transit → a.comp = b.comp → a.new = .t .waitingpickup)
  | [], _, _, r, h => by simp [List.mapM_nil] at h; subst h; simp
  | t :: ts, hsub, hnd, r, h => by
    rw [List.mapM_cons] at h
    obtain ⟨x, hx, h⟩ := except_bind_eq_ok h
    obtain ⟨xs, hxs, h⟩ := except_bind_eq_ok h
    simp at h; subst h
    simp only [List.map_cons, List.nodup_cons, List.mem_map, not_exists, not_and] at hnd
    have ih := timedTransports_order hS ts (fun y hy => hsub y (by simp [hy])) hnd.2 xs hxs
    cases x with
    | none =>
      simp only [List.filterMap_cons, id]
      exact ⟨fun tr htr => by
        rcases ih.1 tr htr with e | ⟨t', ht', e⟩
        · exact Or.inl e
        · exact Or.inr ⟨t', by simp [ht'], e⟩, ih.2⟩
    | some tr0 =>
      simp only [List.filterMap_cons, id]
      have h0 := timedTransport_shape hS (hsub t (by simp)) hx
      constructor
      · intro tr htr
        rcases List.mem_cons.mp htr with rfl | htr
        · rcases h0 with e | e
          · exact Or.inl e
          · exact Or.inr ⟨t, by simp, e⟩
        · rcases ih.1 tr htr with e | ⟨t', ht', e⟩
          · exact Or.inl e
          · exact Or.inr ⟨t', by simp [ht'], e⟩
      · apply List.pairwise_cons.mpr
        refine ⟨?_, ih.2⟩
        intro b hb hbn hcomp
        rcases h0 with e | ⟨e, _⟩
        · exact e
        · exfalso
          rcases ih.1 b hb with eb | ⟨t', ht', ec, _⟩
          · rw [eb] at hbn; simp at hbn
          · rw [e, ec] at hcomp
            simp at hcomp
            exact hnd.1 t' ht' hcomp.symm

/-- a dispatch on offer is for a job that waits in no pre-buffer -/
theorem offers_not_in_pre (w : WF inst) {cfg : SMConfig} {s : State} (hI : StructInv inst s) (hS : SchedInv s)
    (hR : RouteInv inst s) {poss : List Transition} (hposs : possibleTransitions inst cfg s = .ok poss)
    (tr : Transition) (hp : tr ∈ poss) (hn : tr.new = .t .working) (x : Nat) (hx : tr.job = some x) :
    ∀ m ∈ s.machines, x ∉ m.pre.store := by
  have hs := hI.shape
  have hjn := hs.jobsNodup w
  unfold possibleTransitions at hposs
  obtain ⟨pj, _, hposs⟩ := except_bind_eq_ok hposs
  obtain ⟨pt, hpt, hposs⟩ := except_bind_eq_ok hposs
  obtain ⟨mt, hmt, hposs⟩ := except_bind_eq_ok hposs
  simp at hposs; subst hposs
  rcases List.mem_append.mp hp with h1 | h1
  · obtain ⟨j, _, e⟩ := (mapM_ok_mem hmt).2 tr h1
    cases hni : j.nextIdle? with
    | none => simp [hni] at e
    | some o => simp [hni] at e; subst e; simp at hn
  · unfold possibleTransportTransitions at hpt
    obtain ⟨ts, _, hpt⟩ := except_bind_eq_ok hpt
    obtain ⟨idle, hidle, hpt⟩ := except_bind_eq_ok hpt
    simp only at hpt
    obtain ⟨lonely, hlonely, hpt⟩ := except_bind_eq_ok hpt
    simp at hpt; subst hpt
    simp only [List.mem_flatMap, List.mem_map] at h1
    obtain ⟨t, _, j, hjl, rfl⟩ := h1
    simp at hx; subst hx
    -- j is running, or idle and transportable
    have hjmem : j ∈ s.jobs.filter (·.running) ++ idle := by
      unfold earlyFilter at hlonely
      by_cases he : cfg.allowEarly = true
      · rw [if_pos he] at hlonely
        injection hlonely with h'
        rw [← h'] at hjl
        exact (List.mem_filter.mp hjl).1
      · rw [if_neg he] at hlonely
        exact (List.mem_filter.mp (filterE_ok hlonely j hjl).1).1
    intro m hm hin
    have hst : j.id ∈ storeAt s m.pre.id := by rw [(pre_storeAt w hs hm).1]; exact hin
    rcases List.mem_append.mp hjmem with hrun | hidl
    · obtain ⟨hj, hr⟩ := List.mem_filter.mp hrun
      unfold JobState.running at hr
      obtain ⟨o, ho, hst'⟩ := List.any_eq_true.mp hr
      obtain ⟨m2, hm2, _, _, hstore⟩ := hS.procOnBusy j hj o ho (by simpa using hst')
      have h2 : j.id ∈ storeAt s m2.buffer.id := by rw [(pre_storeAt w hs hm2).2, hstore]; simp
      have := unique_store hI.cons hjn h2 hst
      exact (internal_ne_pre_post hs w hm2 hm).1 this
    · obtain ⟨hjf, htp⟩ := filterE_ok hidle j hidl
      have hj := (List.mem_filter.mp hjf).1
      obtain ⟨op', e1, e2⟩ := hR.preNext m hm j.id hin j hj rfl
      have hloc : j.loc = m.pre.id := job_of_store hI.cons hj hst hjn
      unfold transportable at htp
      simp only [bind, Except.bind, pure, Except.pure] at htp
      split at htp
      · simp at htp
      · split at htp
        · -- all operations done, yet one is idle
          rename_i hall
          have hmem := List.mem_of_find?_eq_some e1
          have hidle' : op'.st = .idle := by simpa using List.find?_some e1
          unfold JobState.allDone at hall
          have := List.all_eq_true.mp hall op' hmem
          rw [hidle'] at this; simp at this
        · simp only [e1] at htp
          cases hgm : getMachine s.machines op'.machine with
          | error e => simp [hgm] at htp
          | ok m3 =>
            simp only [hgm] at htp
            have hm3 := getMachine_ok hgm
            have : m3 = m := eq_of_mem_of_key_eq (key := fun (y : MachineState) => y.id) (hs.machNodup w) hm3.1 hm
              (by rw [hm3.2, e2])
            subst this
            unfold jobAtMachine at htp
            simp only [bind, Except.bind, pure, Except.pure] at htp
            cases hnn : j.nextNotDone with
            | error e => simp [hnn] at htp
            | ok o2 => simp [hnn, hloc] at htp


/-- the timed batch followed by dispatches that are on offer meets the route guard -/
theorem timed_route (w : WF inst) {s : State} (hI : StructInv inst s) (hS : SchedInv s) {tt tele : List Transition}
    (htt : timedTransitions inst s = .ok tt)
    (htele : ∀ tr ∈ tele, tr.new = .t .working ∧ ∀ x, tr.job = some x → ∀ m ∈ s.machines, x ∉ m.pre.store) :
    RouteGS s (tt ++ tele) := by
  have hs := hI.shape
  have hnoD := timed_no_dispatch hS htt
  unfold timedTransitions at htt
  obtain ⟨a, ha, htt⟩ := except_bind_eq_ok htt
  obtain ⟨b, hb, htt⟩ := except_bind_eq_ok htt
  simp at htt; subst htt
  unfold timedMachineTransitions at ha
  unfold timedTransportTransitions at hb
  cases hra : s.machines.mapM (timedMachine inst s.time) with
  | error e => simp [hra] at ha
  | ok ra =>
    simp [hra] at ha; subst ha
    cases hrb : s.transports.mapM (timedTransport inst s) with
    | error e => simp [hrb] at hb
    | ok rb =>
      simp [hrb] at hb; subst hb
      have hM : ∀ tr ∈ ra.filterMap id, ∃ ns mid, tr.new = .m ns ∧ tr.comp = .m mid := by
        intro tr htr
        obtain ⟨x, hx, e⟩ := List.mem_filterMap.mp htr
        simp at e; subst e
        obtain ⟨m, hm, e⟩ := (mapM_ok_mem hra).2 _ hx
        obtain ⟨⟨m', _, hc, hcase⟩, _⟩ := timedMachine_spec (inst := inst) (s := s) hm e
        rcases hcase with ⟨ns, _, hn, _⟩ | ⟨_, hn, _⟩
        · exact ⟨ns, m'.id, hn, hc⟩
        · exact ⟨.setup, m'.id, hn, hc⟩
      have hT := timedTransports_order (inst := inst) hS s.transports (fun t ht => ht) (hs.trNodup w) rb hrb
      have hTcomp : ∀ tr ∈ rb.filterMap id, ∃ ns, tr.new = .t ns := by
        intro tr htr
        have := (timedTransports_spec (inst := inst) hS s.transports (fun t ht => ht) rb hrb tr htr).1
        exact this
      constructor
      · intro tr htr hn x hx
        rcases List.mem_append.mp htr with h | h
        · exact absurd hn (hnoD tr h)
        · exact (htele tr h).2 x hx
      · intro tr htr hn t ht hc
        rcases List.mem_append.mp htr with h | h
        · rcases List.mem_append.mp h with h1 | h1
          · obtain ⟨ns, _, e, _⟩ := hM tr h1; rw [e] at hn; simp at hn
          · rcases hT.1 tr h1 with e | ⟨tg, htg, ec, ej⟩
            · rw [e] at hn; simp at hn
            · have : tg = t := eq_of_mem_of_key_eq (key := fun (y : TransportState) => y.id) (hs.trNodup w) htg ht (by
                rw [ec] at hc; simpa using hc)
              subst this
              exact ej hn
        · rw [(htele tr h).1] at hn; simp at hn
      · rw [List.append_assoc]
        apply List.pairwise_append.mpr
        refine ⟨?_, ?_, ?_⟩
        · apply List.pairwise_of_forall_mem_list
          intro a _ b hb hn
          obtain ⟨ns, _, e, _⟩ := hM b hb; rw [e] at hn; simp at hn
        · apply List.pairwise_append.mpr
          refine ⟨hT.2, ?_, ?_⟩
          · apply List.pairwise_of_forall_mem_list
            intro a _ b hb hn
            rw [(htele b hb).1] at hn; simp at hn
          · intro a _ b hb hn
            rw [(htele b hb).1] at hn; simp at hn
        · intro a ha b hb hn hc
          obtain ⟨_, mid, _, eca⟩ := hM a ha
          rcases List.mem_append.mp hb with h | h
          · rcases hT.1 b h with e | ⟨tg, _, ec, _⟩
            · rw [e] at hn; simp at hn
            · rw [eca, ec] at hc; simp at hc
          · rw [(htele b h).1] at hn; simp at hn

/-- what the middleware (and the teleport filter) submit: nothing, or transitions currently on offer -/
def AdmOffer (inst : Instance) (cfg : SMConfig) (s : State) (a : Action) : Prop :=
  a.transitions = [] ∨ ∃ poss, possibleTransitions inst cfg s = .ok poss ∧ ∃ tr ∈ poss, a.transitions = [tr]

/-- **The full AGV pass.** -/
def FullPass (orc : Oracle) (inst : Instance) (cfg : SMConfig) (w : WF inst) : Pass orc inst cfg where
  P := AgvFull inst
  GS := FullGS
  Adm := AdmOffer inst cfg
  tail := fun h => ⟨h.claim.tail, h.route.tail⟩
  step := fun hI hS hP hv hsafe _ hgs ha => applyTransition_full w hI hS hP hv hsafe hgs ha
  advance := fun _ _ hP _ _ => ⟨⟨hP.agv.empty, hP.agv.holds, hP.agv.unique, hP.agv.claimed⟩,
    ⟨hP.route.transitOwn, hP.route.route, hP.route.preUnclaimed, hP.route.preNext, hP.route.delivered⟩⟩
  timed := fun {s tt poss tele r} hI hS hP htt hposs htele => by
    refine ⟨timed_claim w hI hS htt hposs htele, timed_route w hI hS htt ?_⟩
    intro tr htr
    have hn := filterTeleport_shape hposs htele tr htr
    refine ⟨hn, fun x hx => ?_⟩
    unfold filterTeleport at htele
    obtain ⟨l, hl, htele⟩ := except_bind_eq_ok htele
    simp at htele; subst htele
    have hp := (filterE_ok hl tr (mem_teleportGreedy _ _ _ htr)).1
    exact offers_not_in_pre w hI hS hP.route hposs tr hp hn x hx
  timedOnly := fun hI hS _ htt => by
    refine ⟨claimGS_of_no_dispatch (timed_no_dispatch hS htt), ?_⟩
    simpa using timed_route w hI hS (tele := []) htt (by simp)
  action := fun {s a} hI hS hP hadm => by
    rcases hadm with e | ⟨poss, hposs, tr, hp, e⟩
    · rw [e, sortedByTransport_nil]
      exact ⟨⟨fun _ h => (by cases h), List.Pairwise.nil⟩, fun _ h => (by cases h), fun _ h => (by cases h), List.Pairwise.nil⟩
    · refine ⟨claimGS_of_offer hposs (Or.inr ⟨tr, hp, e⟩), ?_⟩
      rw [e, sortedByTransport_single]
      have hsh := offers_offerShaped hposs tr hp
      refine ⟨?_, ?_, List.pairwise_singleton _ _⟩
      · intro t ht hn x hx
        simp at ht; subst ht
        exact offers_not_in_pre w hI hS hP.route hposs t hp hn x hx
      · intro t ht hn
        simp at ht; subst ht
        rcases hsh with e' | e' <;> rw [e'] at hn <;> simp at hn

theorem AgvFull.of_time {s : State} {t : Int} (h : AgvFull inst { s with time := t }) : AgvFull inst s :=
  ⟨⟨h.agv.empty, h.agv.holds, h.agv.unique, h.agv.claimed⟩,
   ⟨h.route.transitOwn, h.route.route, h.route.preUnclaimed, h.route.preNext, h.route.delivered⟩⟩

theorem AgvFull.of_rest {s : State} (h : restB s = true) (hp : placedB inst s = true) : AgvFull inst s := by
  refine ⟨AgvInv.of_rest h, ?_⟩
  simp only [restB, Bool.and_eq_true, List.all_eq_true, beq_iff_eq, List.isEmpty_iff, Option.isNone_iff_eq_none] at h
  obtain ⟨_, ht⟩ := h
  simp only [placedB, Bool.and_eq_true, List.all_eq_true, List.isEmpty_iff] at hp
  obtain ⟨hpre, hout⟩ := hp
  constructor
  · intro t ht' hst; rw [(ht t ht').1.1.1] at hst; cases hst
  · intro t ht' x hx; rw [(ht t ht').1.1.2] at hx; cases hx
  · intro m hm x hx; rw [hpre m hm] at hx; cases hx
  · intro m hm x hx; rw [hpre m hm] at hx; cases hx
  · intro j hj hloc
    have := hout j hj
    have hc : (outputIds inst).contains j.loc = true := List.contains_iff_mem.mpr hloc
    rw [hc] at this; simp at this


/-- executions in which every action is empty or one transition currently on offer – exactly what
the environment's middleware submits -/
inductive OccursF (orc : Oracle) (inst : Instance) (cfg : SMConfig) (s0 : State) : State → Prop
  | init : OccursF orc inst cfg s0 s0
  | result {s res r a r' mic fuel} : OccursF orc inst cfg s0 s → Admissible a → AdmOffer inst cfg s a →
      smStep orc inst cfg fuel s r a = .ok (res, r', mic) → res.done = false → OccursF orc inst cfg s0 res.state
  | sub {s res r a r' mic fuel σ} : OccursF orc inst cfg s0 s → Admissible a → AdmOffer inst cfg s a →
      smStep orc inst cfg fuel s r a = .ok (res, r', mic) → σ ∈ res.subStates → OccursF orc inst cfg s0 σ
  | micro {s res r a r' mic fuel σ} : OccursF orc inst cfg s0 s → Admissible a → AdmOffer inst cfg s a →
      smStep orc inst cfg fuel s r a = .ok (res, r', mic) → σ ∈ mic → OccursF orc inst cfg s0 σ

theorem AdmOffer.claim {cfg : SMConfig} {s : State} {a : Action} (h : AdmOffer inst cfg s a) :
    ClaimGS s (sortedByTransport a.transitions) := by
  rcases h with e | ⟨poss, hposs, tr, hp, e⟩
  · rw [e, sortedByTransport_nil]; exact ⟨fun _ h => (by cases h), List.Pairwise.nil⟩
  · exact claimGS_of_offer hposs (Or.inr ⟨tr, hp, e⟩)

theorem OccursF.toC {cfg : SMConfig} {s0 σ : State} (h : OccursF orc inst cfg s0 σ) : OccursC orc inst cfg s0 σ := by
  induction h with
  | init => exact .init
  | result _ ha hc hs hnd ih => exact .result ih ha hc.claim hs hnd
  | sub _ ha hc hs hσ ih => exact .sub ih ha hc.claim hs hσ
  | micro _ ha hc hs hσ ih => exact .micro ih ha hc.claim hs hσ

theorem occursF_full {cfg : SMConfig} {s0 σ : State} (hst : Start orc inst s0) (h : OccursF orc inst cfg s0 σ) :
    AgvFull inst σ := by
  obtain ⟨w, _⟩ := initOKB_sound hst.init
  have nn := nonnegB_sound hst.samples hst.nonneg
  induction h with
  | init => exact AgvFull.of_rest hst.rest hst.placed
  | result hprev ha hc hstep hnd ih =>
    obtain ⟨_, hI, hS⟩ := occursA_inv hst hprev.toC.toA
    exact ((FullPass orc inst cfg w).smStep w nn hI hS ih ha hc hstep).2.2.2 hnd
  | sub hprev ha hc hstep hσ ih =>
    obtain ⟨_, hI, hS⟩ := occursA_inv hst hprev.toC.toA
    exact ((FullPass orc inst cfg w).smStep w nn hI hS ih ha hc hstep).2.1 _ hσ
  | micro hprev ha hc hstep hσ ih =>
    obtain ⟨_, hI, hS⟩ := occursA_inv hst hprev.toC.toA
    exact ((FullPass orc inst cfg w).smStep w nn hI hS ih ha hc hstep).1 _ hσ

theorem final_full {cfg : SMConfig} {s0 s : State} (hst : Start orc inst s0) (h : OccursF orc inst cfg s0 s)
    {a : Action} (ha : Admissible a) (hc : AdmOffer inst cfg s a) {fuel : Nat} {r r' : Rng}
    {res : SMResult} {mic : List State} (hstep : smStep orc inst cfg fuel s r a = .ok (res, r', mic)) :
    AgvFull inst res.state := by
  obtain ⟨w, hI, hS⟩ := occursA_inv hst h.toC.toA
  have nn := nonnegB_sound hst.samples hst.nonneg
  obtain ⟨t, ht⟩ := ((FullPass orc inst cfg w).smStep w nn hI hS (occursF_full hst h) ha hc hstep).2.2.1
  exact AgvFull.of_time ht

end JSL
