import JSL.Inv.RoutePass

/-!
# What one applied transition does to the buffer contents

Every handler either leaves every store as it is, or takes one job out of one buffer and appends it
at the back of another one (`MovedS`).  `StoreEff` lists the five cases together with the shape of
the transition that causes them; `applyTransition_store` proves that every successful
`applyTransition` is one of them.
-/

namespace JSL

variable {orc : Oracle} {inst : Instance}

/-- job `x` left buffer `a` and was appended at the back of buffer `b`; nothing else changed -/
structure MovedS (s s' : State) (x a b : Nat) : Prop where
  ne : a ≠ b
  was : x ∈ storeAt s a
  storeA : storeAt s' a = (storeAt s a).filter (· != x)
  storeB : storeAt s' b = storeAt s b ++ [x]
  storeO : ∀ i, i ≠ a → i ≠ b → storeAt s' i = storeAt s i

/-- the effect of one applied transition on the stores -/
inductive StoreEff (s s' : State) (tr : Transition) : Prop
  /-- SETUP→WORKING, WORKING→OUTAGE, dispatch, waiting, AGV release: nothing moves -/
  | same : tr.new ≠ .m .setup → tr.new ≠ .t .transit → (∀ i, storeAt s' i = storeAt s i) → StoreEff s s' tr
  /-- IDLE→SETUP: the named job leaves the pre-buffer for the machine -/
  | start (m : MachineState) (x : Nat) : m ∈ s.machines → tr.comp = .m m.id → tr.new = .m .setup → m.st = .idle →
      tr.job = some x → x ∈ m.pre.store → MovedS s s' x m.pre.id m.buffer.id → StoreEff s s' tr
  /-- OUTAGE→IDLE: the finished job leaves the machine for the post-buffer -/
  | finish (m : MachineState) (x : Nat) : m ∈ s.machines → tr.comp = .m m.id → tr.new = .m .idle →
      x ∈ m.buffer.store → MovedS s s' x m.buffer.id m.post.id → StoreEff s s' tr
  /-- →TRANSIT: the named job leaves the buffer it is located in for the AGV -/
  | pickup (t : TransportState) (x a : Nat) : t ∈ s.transports → tr.comp = .t t.id → tr.new = .t .transit →
      tr.job = some x → MovedS s s' x a t.buffer.id → StoreEff s s' tr
  /-- TRANSIT→OUTAGE: the carried job leaves the AGV for a pre-buffer or a stand-alone buffer -/
  | deliver (t : TransportState) (x b : Nat) : t ∈ s.transports → tr.comp = .t t.id → tr.new = .t .outage →
      tr.job = some x → MovedS s s' x t.buffer.id b → StoreEff s s' tr

/-! ## the stores after the replace-by-id operations (job records do not matter) -/

theorem storeAt_jobs_irrelevant (s : State) (js : List JobState) (i : Nat) :
    storeAt { s with jobs := js } i = storeAt s i := rfl

theorem storeAt_job_machine {s : State} (hs : Shape inst s) (w : WF inst) {m m' : MachineState}
    (hm : m ∈ s.machines) (hk : mKey m' = mKey m) (J : JobState) (i : Nat) :
    storeAt ((s.replaceJob J).replaceMachine m') i =
      if i = m.pre.id then m'.pre.store else if i = m.buffer.id then m'.buffer.store
      else if i = m.post.id then m'.post.store else storeAt s i :=
  storeAt_replaceMachine hs w hm hk i

theorem store_pre {s : State} (hs : Shape inst s) (w : WF inst) {m : MachineState} (hm : m ∈ s.machines) :
    storeAt s m.pre.id = m.pre.store := storeAt_of_mem (hs.bufNodup w) (mem_allBufs_of_machine hm).1
theorem store_buf {s : State} (hs : Shape inst s) (w : WF inst) {m : MachineState} (hm : m ∈ s.machines) :
    storeAt s m.buffer.id = m.buffer.store := storeAt_of_mem (hs.bufNodup w) (mem_allBufs_of_machine hm).2.1
theorem store_post {s : State} (hs : Shape inst s) (w : WF inst) {m : MachineState} (hm : m ∈ s.machines) :
    storeAt s m.post.id = m.post.store := storeAt_of_mem (hs.bufNodup w) (mem_allBufs_of_machine hm).2.2
theorem store_tr {s : State} (hs : Shape inst s) (w : WF inst) {t : TransportState} (ht : t ∈ s.transports) :
    storeAt s t.buffer.id = t.buffer.store := storeAt_of_mem (hs.bufNodup w) (mem_allBufs_of_transport ht)
theorem store_sb {s : State} (hs : Shape inst s) (w : WF inst) {b : BufState} (hb : b ∈ s.buffers) :
    storeAt s b.id = b.store := storeAt_of_mem (hs.bufNodup w) (mem_allBufs_of_buffer hb)

/-! ## the moving handlers -/

theorem idleToSetup_moved (w : WF inst) {s s' : State} {r r' : Rng} {tr : Transition} {m : MachineState}
    (hI : StructInv inst s) (hm : m ∈ s.machines)
    (h : handleMachineIdleToSetup orc inst s r tr m = .ok (s', r')) :
    ∃ x, tr.job = some x ∧ x ∈ m.pre.store ∧ MovedS s s' x m.pre.id m.buffer.id := by
  obtain ⟨j, op, oc, mc, sd, bss1, bss2, hj, htj, hjin, _, _, _, _, _, _, _, _, rfl⟩ := idleToSetup_spec h
  have hs := hI.shape
  have hne := machine_buf_ids_ne hs w hm
  have hmk : mKey (m.toSetup j.id bss1 bss2 (s.time + sd) oc.tool) = mKey m := by simp [mKey, MachineState.toSetup]
  refine ⟨j.id, htj, hjin, hne.1, by rw [store_pre hs w hm]; exact hjin, ?_, ?_, ?_⟩
  · rw [storeAt_job_machine hs w hm hmk]; simp [store_pre hs w hm, MachineState.toSetup]
  · rw [storeAt_job_machine hs w hm hmk]; simp [hne.1.symm, store_buf hs w hm, MachineState.toSetup]
  · intro i hia hib
    rw [storeAt_job_machine hs w hm hmk]
    simp only [hia, hib, if_false]
    split
    · rename_i h3; rw [h3]; exact (store_post hs w hm).symm
    · rfl

theorem outageToIdle_moved (w : WF inst) {s s' : State} {r r' : Rng} {m : MachineState}
    (hI : StructInv inst s) (hm : m ∈ s.machines)
    (h : handleMachineOutageToIdle inst s r m = .ok (s', r')) :
    ∃ x, x ∈ m.buffer.store ∧ MovedS s s' x m.buffer.id m.post.id := by
  obtain ⟨j, op, mc, rest, bss1, bss2, hst, _, _, _, _, _, _, rfl⟩ := outageToIdle_spec h
  have hs := hI.shape
  have hne := machine_buf_ids_ne hs w hm
  have hmk : mKey (m.toIdle j.id bss1 bss2) = mKey m := by simp [mKey, MachineState.toIdle]
  have hin : j.id ∈ m.buffer.store := by rw [hst]; simp
  refine ⟨j.id, hin, hne.2.2, by rw [store_buf hs w hm]; exact hin, ?_, ?_, ?_⟩
  · rw [storeAt_job_machine hs w hm hmk]; simp [store_buf hs w hm, MachineState.toIdle, hne.1.symm]
  · rw [storeAt_job_machine hs w hm hmk]
    simp [hne.2.1.symm, hne.2.2.symm, store_post hs w hm, MachineState.toIdle]
  · intro i hia hib
    rw [storeAt_job_machine hs w hm hmk]
    simp only [hia, hib, if_false]
    split
    · rename_i h3; rw [h3]; simp [MachineState.toIdle, store_pre hs w hm]
    · rfl

theorem pickupToTransit_moved (w : WF inst) {s s' : State} {r r' : Rng} {tr : Transition} {t : TransportState}
    (hI : StructInv inst s) (ht : t ∈ s.transports)
    (h : handleAgvPickupToTransit orc inst s r tr t = .ok (s', r')) :
    ∃ x a, tr.job = some x ∧ MovedS s s' x a t.buffer.id := by
  obtain ⟨j, src, dst, tt, bss1, bss2, hj, htj, _, _, _, hcase⟩ := pickupToTransit_spec h
  have hs := hI.shape
  have hparts := ids_parts hs w
  have htb := store_tr hs w ht
  have htk : tKey (t.toTransit (s.time + tt) j.id bss2) = tKey t := by simp [tKey, TransportState.toTransit]
  rcases hcase with ⟨fb, _, _, hfb, _, hin, rfl⟩ | ⟨mid, ms, bs, ms', _, _, hms, _, hbs, hin, hms', rfl⟩
  · have hfs := store_sb hs w hfb
    have hs1 := hs.replaceBuffer w hfb (b' := fb.without j.id bss1) rfl
    have hne : fb.id ≠ t.buffer.id := hparts.2.1 fb hfb t ht
    have e : ∀ i, storeAt (((s.replaceBuffer (fb.without j.id bss1)).replaceJob (j.at t.buffer.id)).replaceTransport
        (t.toTransit (s.time + tt) j.id bss2)) i =
        if i = t.buffer.id then t.buffer.store ++ [j.id] else
        if i = fb.id then fb.store.filter (· != j.id) else storeAt s i := by
      intro i
      show storeAt ((s.replaceBuffer (fb.without j.id bss1)).replaceTransport
        (t.toTransit (s.time + tt) j.id bss2)) i = _
      have := storeAt_replaceTransport hs1 w (s := s.replaceBuffer _) ht htk i
      rw [storeAt_replaceBuffer hs w hfb (b' := fb.without j.id bss1) rfl] at this
      simpa [TransportState.toTransit] using this
    refine ⟨j.id, fb.id, htj, hne, by rw [hfs]; exact hin, ?_, ?_, ?_⟩
    · rw [e, if_neg hne, if_pos rfl, hfs]
    · rw [e, if_pos rfl, htb]
    · intro i hia hib; rw [e, if_neg hib, if_neg hia]
  · obtain ⟨_, hbwhich⟩ := bufOfMachine_ok hbs
    have hmb := mem_allBufs_of_machine hms
    have hne3 := machine_buf_ids_ne hs w hms
    have hbmem : bs ∈ allBufStates s := by rcases hbwhich with rfl | rfl | rfl <;> simp [hmb]
    have hbst : storeAt s bs.id = bs.store := storeAt_of_mem (hs.bufNodup w) hbmem
    have hmk : mKey ms' = mKey ms := by
      unfold replaceBufInMachine at hms'
      rcases hbwhich with rfl | rfl | rfl
      · simp at hms'; subst hms'; simp [mKey]
      · simp [hne3.1.symm] at hms'; subst hms'; simp [mKey]
      · simp [hne3.2.1.symm, hne3.2.2.symm] at hms'; subst hms'; simp [mKey]
    have hstores : ∀ i, storeAt (s.replaceMachine ms') i =
        if i = bs.id then bs.store.filter (· != j.id) else storeAt s i := by
      intro i
      rw [storeAt_replaceMachine hs w hms hmk]
      unfold replaceBufInMachine at hms'
      have hp := store_pre hs w hms
      have hb := store_buf hs w hms
      have hq := store_post hs w hms
      rcases hbwhich with rfl | rfl | rfl
      · simp at hms'; subst hms'
        by_cases h1 : i = ms.pre.id
        · simp [h1]
        · simp only [h1, if_false]
          split
          · rename_i h2; rw [h2]; exact hb.symm
          · split
            · rename_i h2; rw [h2]; exact hq.symm
            · rfl
      · simp [hne3.1.symm] at hms'; subst hms'
        by_cases h1 : i = ms.pre.id
        · simp [h1, hne3.1, hp]
        · simp only [h1, if_false]
          by_cases h2 : i = ms.buffer.id
          · simp [h2]
          · simp only [h2, if_false]
            split
            · rename_i h3; rw [h3]; exact hq.symm
            · rfl
      · simp [hne3.2.1.symm, hne3.2.2.symm] at hms'; subst hms'
        by_cases h1 : i = ms.pre.id
        · simp [h1, hne3.2.1, hp]
        · simp only [h1, if_false]
          by_cases h2 : i = ms.buffer.id
          · simp [h2, hne3.2.2, hb]
          · simp only [h2, if_false]
            by_cases h3 : i = ms.post.id
            · simp [h3]
            · simp [h3]
    have hs1 := hs.replaceMachine w hms hmk
    have hne : bs.id ≠ t.buffer.id := by
      have := hparts.2.2 ms hms t ht
      rcases hbwhich with rfl | rfl | rfl
      · exact this.1
      · exact this.2.1
      · exact this.2.2
    have e : ∀ i, storeAt (((s.replaceMachine ms').replaceJob (j.at t.buffer.id)).replaceTransport
        (t.toTransit (s.time + tt) j.id bss2)) i =
        if i = t.buffer.id then t.buffer.store ++ [j.id] else
        if i = bs.id then bs.store.filter (· != j.id) else storeAt s i := by
      intro i
      show storeAt ((s.replaceMachine ms').replaceTransport (t.toTransit (s.time + tt) j.id bss2)) i = _
      have := storeAt_replaceTransport hs1 w (s := s.replaceMachine _) ht htk i
      rw [hstores] at this
      simpa [TransportState.toTransit] using this
    refine ⟨j.id, bs.id, htj, hne, by rw [hbst]; exact hin, ?_, ?_, ?_⟩
    · rw [e, if_neg hne, if_pos rfl, hbst]
    · rw [e, if_pos rfl, htb]
    · intro i hia hib; rw [e, if_neg hib, if_neg hia]

theorem transitToOutage_moved (w : WF inst) {s s' : State} {r r' : Rng} {tr : Transition} {t : TransportState}
    (hI : StructInv inst s) (ht : t ∈ s.transports)
    (h : handleAgvTransitToOutage orc inst s r tr t = .ok (s', r')) :
    ∃ x b, tr.job = some x ∧ MovedS s s' x t.buffer.id b := by
  obtain ⟨j, cur, pick, drop, tc, outs, bss1, bss2, hj, htj, _, hin, _, _, _, hcase⟩ := transitToOutage_spec h
  have hs := hI.shape
  have hparts := ids_parts hs w
  have htb := store_tr hs w ht
  have htk : tKey (t.toOutage j.id bss1 outs (s.time + occupiedFor outs) drop) = tKey t := by
    simp [tKey, TransportState.toOutage]
  have hs1 := hs.replaceTransport w ht htk
  have e0 : ∀ k, storeAt (s.replaceTransport (t.toOutage j.id bss1 outs (s.time + occupiedFor outs) drop)) k =
      if k = t.buffer.id then t.buffer.store.filter (· != j.id) else storeAt s k := by
    intro k
    rw [storeAt_replaceTransport hs w ht htk]
    simp [TransportState.toOutage]
  rcases hcase with ⟨mid, ms, _, hms, _, _, rfl⟩ | ⟨bid, b, _, hb, _, _, rfl⟩
  · have hne3 := machine_buf_ids_ne hs w hms
    have hmk : mKey (ms.withPre j.id bss2) = mKey ms := by simp [mKey, MachineState.withPre]
    have h2 := hparts.2.2 ms hms t ht
    have hne : t.buffer.id ≠ ms.pre.id := h2.1.symm
    have e : ∀ i, storeAt (((s.replaceJob (j.at ms.pre.id)).replaceTransport
        (t.toOutage j.id bss1 outs (s.time + occupiedFor outs) drop)).replaceMachine (ms.withPre j.id bss2)) i =
        if i = ms.pre.id then ms.pre.store ++ [j.id] else
        if i = t.buffer.id then t.buffer.store.filter (· != j.id) else storeAt s i := by
      intro i
      show storeAt ((s.replaceTransport (t.toOutage j.id bss1 outs (s.time + occupiedFor outs) drop)).replaceMachine
        (ms.withPre j.id bss2)) i = _
      have := storeAt_replaceMachine hs1 w (s := s.replaceTransport _) hms hmk i
      rw [e0] at this
      refine Eq.trans this ?_
      by_cases h1 : i = ms.pre.id
      · simp [h1, MachineState.withPre]
      · rw [if_neg h1, if_neg h1]
        by_cases h3 : i = ms.buffer.id
        · rw [if_pos h3, if_neg (by rw [h3]; exact h2.2.1), h3, store_buf hs w hms]; rfl
        · rw [if_neg h3]
          by_cases h4 : i = ms.post.id
          · rw [if_pos h4, if_neg (by rw [h4]; exact h2.2.2), h4, store_post hs w hms]; rfl
          · rw [if_neg h4]
    refine ⟨j.id, ms.pre.id, htj, hne, by rw [htb]; exact hin, ?_, ?_, ?_⟩
    · rw [e, if_neg hne, if_pos rfl, htb]
    · rw [e, if_pos rfl, store_pre hs w hms]
    · intro i hia hib; rw [e, if_neg hib, if_neg hia]
  · have hne : t.buffer.id ≠ b.id := (hparts.2.1 b hb t ht).symm
    have e : ∀ i, storeAt (((s.replaceJob (j.at b.id)).replaceTransport
        (t.toOutage j.id bss1 outs (s.time + occupiedFor outs) drop)).replaceBuffer (b.withBack j.id bss2)) i =
        if i = b.id then b.store ++ [j.id] else
        if i = t.buffer.id then t.buffer.store.filter (· != j.id) else storeAt s i := by
      intro i
      show storeAt ((s.replaceTransport (t.toOutage j.id bss1 outs (s.time + occupiedFor outs) drop)).replaceBuffer
        (b.withBack j.id bss2)) i = _
      have := storeAt_replaceBuffer hs1 w (s := s.replaceTransport _) hb (b' := b.withBack j.id bss2) rfl i
      rw [e0] at this
      simpa using this
    refine ⟨j.id, b.id, htj, hne, by rw [htb]; exact hin, ?_, ?_, ?_⟩
    · rw [e, if_neg hne, if_pos rfl, htb]
    · rw [e, if_pos rfl, store_sb hs w hb]
    · intro i hia hib; rw [e, if_neg hib, if_neg hia]

/-! ## every applied transition -/

/-- **The store effect of one applied transition.** -/
theorem applyTransition_store (w : WF inst) {s s' : State} {r r' : Rng} {tr : Transition}
    (hI : StructInv inst s) (h : applyTransition orc inst s r tr = .ok (s', r')) : StoreEff s s' tr := by
  have hs := hI.shape
  unfold applyTransition at h
  cases hc : tr.comp with
  | m mid =>
    simp only [hc] at h
    obtain ⟨m0, hm0, h⟩ := except_bind_eq_ok h
    unfold handleMachineTransition at h
    obtain ⟨m, hm, h⟩ := except_bind_eq_ok h
    rw [hm0] at hm; simp at hm; subst hm
    have hmem := getMachine_ok hm0
    have hcomp : tr.comp = Comp.m m0.id := by rw [hc, hmem.2]
    obtain ⟨hd, hh, h⟩ := except_bind_eq_ok h
    unfold machineHandlerOf at hh
    cases hn : tr.new with
    | t ns => simp [hn] at hh
    | m ns =>
      simp only [hn] at hh
      cases hmh : machineHandler m0.st ns with
      | none => simp [hmh] at hh
      | some hd' =>
        simp [hmh] at hh; subst hh
        cases hd' with
        | idleToSetup =>
          have hst := machineHandler_idleToSetup hmh
          obtain ⟨x, hx, hin, hmv⟩ := idleToSetup_moved w hI hmem.1 h
          exact .start m0 x hmem.1 hcomp (by rw [hn, hst.2]) hst.1 hx hin hmv
        | setupToWorking =>
          have hst := machineHandler_setupToWorking hmh
          obtain ⟨j, op, oc, d, _, _, _, _, _, _, _, _, rfl⟩ := setupToWorking_spec h
          refine .same (by rw [hn, hst.2]; simp) (by rw [hn]; simp) ?_
          intro i
          show storeAt (s.replaceMachine (m0.toWorking (s.time + d))) i = _
          exact storeAt_replaceMachine_same hs w hmem.1 (m' := m0.toWorking (s.time + d))
            (by simp [mKey, MachineState.toWorking]) rfl rfl rfl i
        | workingToOutage =>
          have hst := machineHandler_workingToOutage hmh
          obtain ⟨mc, outs, j, op, _, _, _, _, _, _, rfl⟩ := workingToOutage_spec h
          refine .same (by rw [hn, hst.2]; simp) (by rw [hn]; simp) ?_
          intro i
          show storeAt (s.replaceMachine (m0.toOutage outs (s.time + occupiedFor outs))) i = _
          exact storeAt_replaceMachine_same hs w hmem.1 (m' := m0.toOutage outs (s.time + occupiedFor outs))
            (by simp [mKey, MachineState.toOutage]) rfl rfl rfl i
        | outageToIdle =>
          have hst := machineHandler_outageToIdle hmh
          obtain ⟨x, hin, hmv⟩ := outageToIdle_moved w hI hmem.1 h
          exact .finish m0 x hmem.1 hcomp (by rw [hn, hst.2]) hin hmv
  | t tid =>
    simp only [hc] at h
    obtain ⟨t0, ht0, h⟩ := except_bind_eq_ok h
    unfold handleTransportTransition at h
    obtain ⟨t, ht, h⟩ := except_bind_eq_ok h
    rw [ht0] at ht; simp at ht; subst ht
    have hmem := getTransport_ok ht0
    have hcomp : tr.comp = Comp.t t0.id := by rw [hc, hmem.2]
    obtain ⟨tc, _, h⟩ := except_bind_eq_ok h
    split at h
    · simp at h
    · obtain ⟨hd, hh, h⟩ := except_bind_eq_ok h
      unfold agvHandlerOf at hh
      cases hn : tr.new with
      | m ns => simp [hn] at hh
      | t ns =>
        simp only [hn] at hh
        cases hah : agvHandler t0.st ns with
        | none => simp [hah] at hh
        | some hd' =>
          simp [hah] at hh; subst hh
          cases hd' with
          | idleToWorking =>
            have hst := agvHandler_idleToWorking hah
            obtain ⟨_, _, _, _, _, _, _, _, _, _, _, _, _, _, _, rfl⟩ := idleToWorking_spec h
            exact .same (by rw [hn]; simp) (by rw [hn, hst.2]; simp)
              (storeAt_replaceTransport_same hs w hmem.1 (by simp [tKey, TransportState.toPickup]) rfl)
          | pickupToWaitingpickup =>
            have hst := agvHandler_pickupToWaiting hah
            obtain ⟨occ, _, _, _, rfl⟩ := pickupToWaiting_spec h
            exact .same (by rw [hn]; simp) (by rw [hn, hst.1]; simp)
              (storeAt_replaceTransport_same hs w hmem.1 (by simp [tKey, TransportState.toWaiting]) rfl)
          | waitingPickupToWaitingPickup =>
            have hst := agvHandler_waitingToWaiting hah
            obtain ⟨occ, _, _, rfl⟩ := waitingToWaiting_spec h
            exact .same (by rw [hn]; simp) (by rw [hn, hst.1]; simp)
              (storeAt_replaceTransport_same hs w hmem.1 (by simp [tKey, TransportState.toWaiting]) rfl)
          | outageToIdle =>
            have hst := agvHandler_outageToIdle hah
            obtain ⟨_, rfl⟩ := agvOutageToIdle_spec h
            exact .same (by rw [hn]; simp) (by rw [hn, hst.2]; simp)
              (storeAt_replaceTransport_same hs w hmem.1 (by simp [tKey, TransportState.toIdle]) rfl)
          | pickupToTransit =>
            have hst := agvHandler_pickupToTransit hah
            obtain ⟨x, a, hx, hmv⟩ := pickupToTransit_moved w hI hmem.1 h
            exact .pickup t0 x a hmem.1 hcomp (by rw [hn, hst.1]) hx hmv
          | transitToOutage =>
            have hst := agvHandler_transitToOutage hah
            obtain ⟨x, b, hx, hmv⟩ := transitToOutage_moved w hI hmem.1 h
            exact .deliver t0 x b hmem.1 hcomp (by rw [hn, hst.1]) hx hmv
  | b bid =>
    simp only [hc] at h
    obtain ⟨_, _, h⟩ := except_bind_eq_ok h
    simp at h

end JSL
