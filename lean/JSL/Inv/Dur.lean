import JSL.Inv.Effect

/-!
# Durations: the third invariant

Every completed operation with a deterministic configured duration `d` lasted at least `d` –
exactly `d` when its machine has no outage configured – and the same holds for the end scheduled
for an operation in progress on a WORKING / OUTAGE machine.
-/

namespace JSL

variable {orc : Oracle} {inst : Instance}

/-- `d` is the configured deterministic duration of the operation this record belongs to -/
def detDur (inst : Instance) (o : OpState) (d : Int) : Prop :=
  ∃ oc ∈ inst.jobs.flatMap (·.ops), oc.job = o.job ∧ oc.idx = o.idx ∧ oc.dur = .det d

def noOutages (inst : Instance) (mid : Nat) : Prop := ∀ mc ∈ inst.machines, mc.id = mid → mc.outages = []

def DurOK (inst : Instance) (o : OpState) : Prop :=
  ∀ d, detDur inst o d → ∃ a b, o.start = some a ∧ o.stop = some b ∧ a + d ≤ b ∧ (noOutages inst o.machine → b = a + d)

structure DurInv (inst : Instance) (s : State) : Prop where
  done : ∀ j ∈ s.jobs, ∀ o ∈ j.ops, o.st = .done → DurOK inst o
  running : ∀ j ∈ s.jobs, ∀ o ∈ j.ops, o.st = .processing → ∀ m ∈ s.machines, m.id = o.machine →
    (m.st = .working ∨ m.st = .outage) → DurOK inst o

/-- what the remaining transitions of a batch may assume: a machine transition into OUTAGE or IDLE
is due, and no earlier transition of the batch belongs to the same machine -/
structure DueGS (s : State) (L : List Transition) : Prop where
  due : ∀ tr ∈ L, ∀ mid, tr.comp = .m mid → (tr.new = .m .outage ∨ tr.new = .m .idle) →
    ∀ m ∈ s.machines, m.id = mid → dueAt m.occ s.time = true
  once : L.Pairwise (fun a b => ∀ mid, b.comp = .m mid → (b.new = .m .outage ∨ b.new = .m .idle) → a.comp ≠ .m mid)

theorem DueGS.tail {s : State} {tr : Transition} {R : List Transition} (h : DueGS s (tr :: R)) : DueGS s R :=
  ⟨fun t ht => h.due t (by simp [ht]), (List.pairwise_cons.mp h.once).2⟩

/-- the common shape of the four machine handlers -/
theorem dur_step (w : WF inst) {s s' : State} (hI : StructInv inst s) (hP : DurInv inst s)
    {j J' : JobState} {m0 M' : MachineState} {rec : OpState} (hj : j ∈ s.jobs) (hm0 : m0 ∈ s.machines)
    (hJid : J'.id = j.id) (hJops : J'.ops = (j.replaceOp rec).ops) (hMid : M'.id = m0.id)
    (hjobs : s'.jobs = (s.replaceJob J').jobs) (hmach : s'.machines = (s.replaceMachine M').machines)
    (hrecm : rec.machine = m0.id)
    (hrecd : rec.st = .done → DurOK inst rec)
    (hrecp : rec.st = .processing → (M'.st = .working ∨ M'.st = .outage) → DurOK inst rec)
    (hother : ∀ o ∈ j.ops, ¬ (o.job = rec.job ∧ o.idx = rec.idx) → o.st = .processing →
      (M'.st = .working ∨ M'.st = .outage) → False)
    (hforeign : ∀ j1 ∈ s.jobs, j1.id ≠ j.id → ∀ o ∈ j1.ops, o.st = .processing → o.machine = m0.id →
      (M'.st = .working ∨ M'.st = .outage) → False) :
    DurInv inst s' := by
  have hjn := hI.shape.jobsNodup w
  have hmn := hI.shape.machNodup w
  constructor
  · intro j1 hj1 o ho hst
    rw [hjobs] at hj1
    rcases (mem_replaceJob hjn hj hJid j1).mp hj1 with rfl | ⟨hj0, _⟩
    · rw [hJops] at ho
      rcases mem_replaceOp.mp ho with ⟨rfl, _⟩ | ⟨ho', _⟩
      · exact hrecd hst
      · exact hP.done j hj o ho' hst
    · exact hP.done j1 hj0 o ho hst
  · intro j1 hj1 o ho hst m1 hm1 hid hmst
    rw [hjobs] at hj1
    rw [hmach] at hm1
    rcases (mem_replaceMachine hmn hm0 hMid m1).mp hm1 with rfl | ⟨hm1', hne⟩
    · rcases (mem_replaceJob hjn hj hJid j1).mp hj1 with rfl | ⟨hj0, hjne⟩
      · rw [hJops] at ho
        rcases mem_replaceOp.mp ho with ⟨rfl, _⟩ | ⟨ho', hk⟩
        · exact hrecp hst hmst
        · exact (hother o ho' hk hst hmst).elim
      · exact (hforeign j1 hj0 hjne o ho hst (by rw [← hid, hMid]) hmst).elim
    · rcases (mem_replaceJob hjn hj hJid j1).mp hj1 with rfl | ⟨hj0, _⟩
      · rw [hJops] at ho
        rcases mem_replaceOp.mp ho with ⟨rfl, _⟩ | ⟨ho', _⟩
        · exact absurd (by rw [hid, hrecm]) hne
        · exact hP.running j hj o ho' hst m1 hm1' hid hmst
      · exact hP.running j1 hj0 o ho hst m1 hm1' hid hmst

/-- a job other than the one a busy machine holds has no operation running on that machine -/
theorem foreign_not_on {s : State} (w : WF inst) (hI : StructInv inst s) (hS : SchedInv s) {m0 : MachineState}
    (hm0 : m0 ∈ s.machines) {j : JobState} (hjin : j.id ∈ m0.buffer.store) {j1 : JobState} (hj1 : j1 ∈ s.jobs)
    (hne : j1.id ≠ j.id) {o : OpState} (ho : o ∈ j1.ops) (hst : o.st = .processing) (hom : o.machine = m0.id) : False := by
  obtain ⟨m, hm, e1, _, e3⟩ := hS.procOnBusy j1 hj1 o ho hst
  have : m = m0 := eq_of_mem_of_key_eq (key := fun (y : MachineState) => y.id) (hI.shape.machNodup w) hm hm0 (by rw [e1, hom])
  subst this
  rw [e3] at hjin
  simp at hjin
  exact hne hjin.symm

/-- the running record of the job a busy machine holds is the only running record of that job -/
theorem only_running {s : State} (hS : SchedInv s) {j : JobState} (hj : j ∈ s.jobs) {op : OpState}
    (hop : j.processing? = some op) {o : OpState} (ho : o ∈ j.ops) (hst : o.st = .processing) : o = op := by
  obtain ⟨_, _, hl, _, hpst⟩ := processing?_split' hop
  exact OpsOK_one_processing _ _ (hS.ops j hj) o ho op (by rw [hl]; simp) hst hpst

theorem detDur_congr {o o' : OpState} (h1 : o'.job = o.job) (h2 : o'.idx = o.idx) {d : Int} :
    detDur inst o' d ↔ detDur inst o d := by
  unfold detDur; rw [h1, h2]


theorem updRead_det {c : TimeCfg} {d : Int} (r : Rng) (h : c = .det d) : (c.updRead orc r).1 = d := by
  subst h; rfl

/-- **one transition keeps the duration invariant** and the due-guard of the rest of the batch -/
theorem applyTransition_dur (w : WF inst) (nn : NonNeg orc inst) {s s' : State} {r r' : Rng} {tr : Transition}
    {R : List Transition} (hI : StructInv inst s) (hS : SchedInv s) (hP : DurInv inst s)
    (hsafe : Safe s (tr :: R)) (hgs : DueGS s (tr :: R))
    (h : applyTransition orc inst s r tr = .ok (s', r')) : DurInv inst s' ∧ DueGS s' R := by
  have hs := hI.shape
  have htime := applyTransition_time h
  have hg := hsafe.guard
  have h0 := h
  -- the guard of the rest
  have hrest : DueGS s' R := by
    refine ⟨?_, (List.pairwise_cons.mp hgs.once).2⟩
    intro t ht mid hc hn m' hm' hid
    have hne : tr.comp ≠ .m mid := (List.pairwise_cons.mp hgs.once).1 t ht mid hc hn
    rw [htime]
    cases hc0 : tr.comp with
    | m mid0 =>
      have := (machine_effect w hI hc0 h0).1 m' hm' (by intro e; apply hne; rw [hc0, ← e, hid])
      exact hgs.due t (by simp [ht]) mid hc hn m' this hid
    | t tid =>
      obtain ⟨m, hm, e1, _, e3⟩ := (agv_effect w hI hc0 h0).1 m' hm'
      rw [← e3]
      exact hgs.due t (by simp [ht]) mid hc hn m hm (by rw [e1, hid])
    | b bid =>
      unfold applyTransition at h0
      simp only [hc0] at h0
      obtain ⟨_, _, h0⟩ := except_bind_eq_ok h0
      simp at h0
  refine ⟨?_, hrest⟩
  unfold applyTransition at h
  cases hc : tr.comp with
  | t tid =>
    obtain ⟨hm, hj⟩ := agv_effect w hI hc h0
    constructor
    · intro j1 hj1 o ho hst
      obtain ⟨j, hj0, _, e⟩ := hj j1 hj1
      exact hP.done j hj0 o (by rw [e]; exact ho) hst
    · intro j1 hj1 o ho hst m1 hm1 hid hmst
      obtain ⟨j, hj0, _, e⟩ := hj j1 hj1
      obtain ⟨m, hm0, e1, e2, _⟩ := hm m1 hm1
      exact hP.running j hj0 o (by rw [e]; exact ho) hst m hm0 (by rw [e1, hid]) (by rw [e2]; exact hmst)
  | b bid =>
    simp only [hc] at h
    obtain ⟨_, _, h⟩ := except_bind_eq_ok h
    simp at h
  | m mid =>
    simp only [hc] at h
    obtain ⟨m0, hm0, h⟩ := except_bind_eq_ok h
    unfold handleMachineTransition at h
    obtain ⟨m, hm, h⟩ := except_bind_eq_ok h
    rw [hm0] at hm; simp at hm; subst hm
    have hmem := getMachine_ok hm0
    obtain ⟨hd, hh, h⟩ := except_bind_eq_ok h
    unfold machineHandlerOf at hh
    cases hn : tr.new with
    | t ns => simp [hn] at hh
    | m ns =>
      simp only [hn] at hh
      cases hmh : machineHandler m0.st ns with
      | none => simp [hmh] at hh
      | some hd' =>
        simp [hmh] at hh; subst hh
        cases hd' with
        | idleToSetup =>
          obtain ⟨j, op, oc, mc, sd, b1, b2, hj, _, _, _, _, _, _, _, _, _, _, rfl⟩ := idleToSetup_spec h
          exact dur_step w hI hP (rec := opRec oc s.time (s.time + sd) m0.id) hj hmem.1 (by simp) (by simp)
            (by simp [MachineState.toSetup]) rfl rfl rfl (by simp [opRec])
            (by intro _ h'; simp [MachineState.toSetup] at h')
            (by intro _ _ _ _ h'; simp [MachineState.toSetup] at h')
            (by intro _ _ _ _ _ _ _ h'; simp [MachineState.toSetup] at h')
        | setupToWorking =>
          have hst0 := (machineHandler_setupToWorking hmh).1
          obtain ⟨j, op, oc, d, hj, _, hjin, hnn, hoc, hocj, hoci, hd, rfl⟩ := setupToWorking_spec h
          have hbusy : m0.st ≠ .idle := by rw [hst0]; simp
          obtain ⟨_, op0, hp0, _, _, _⟩ := busy_job hI hS w hmem.1 hbusy hj hjin
          have hop0 : op0 = op := by
            have := nextNotDone_of_processing (hS.ops j hj) hp0
            rw [hnn] at this; simpa using this.symm
          subst hop0
          refine dur_step w hI hP (rec := opRec oc s.time (s.time + d) m0.id) hj hmem.1 (by simp) (by simp)
            (by simp [MachineState.toWorking]) rfl rfl rfl (by simp [opRec]) ?_ ?_ ?_
          · intro _ _ d' ⟨oc', hoc', e1, e2, e3⟩
            have : oc' = oc := opCfg_unique w hoc' hoc (by simpa [opRec] using e1) (by simpa [opRec] using e2)
            subst this
            have hd' : d = d' := by
              have := congrArg Prod.fst hd; simp only at this; rw [this, updRead_det r e3]
            subst hd'
            exact ⟨s.time, s.time + d, rfl, rfl, Int.le_refl _, fun _ => rfl⟩
          · intro o ho hk hst _
            have := only_running hS hj hp0 ho hst
            subst this
            exact hk ⟨by simp [opRec, hocj], by simp [opRec, hoci]⟩
          · intro j1 hj1 hne o ho hst hom _
            exact foreign_not_on w hI hS hmem.1 hjin hj1 hne ho hst hom
        | workingToOutage =>
          have hst0 := (machineHandler_workingToOutage hmh)
          obtain ⟨mc, outs, j, op, hmc, hmcid, hnew, hj, htj, hp, rfl⟩ := workingToOutage_spec h
          have hbusy : m0.st ≠ .idle := by rw [hst0.1]; simp
          have hjin : j.id ∈ m0.buffer.store := hg.ownJob mid hc (by rw [hn, hst0.2]) m0 hmem.1 hmem.2 j.id htj
          obtain ⟨_, op0, hp0, hmach0, hstop0, hne0⟩ := busy_job hI hS w hmem.1 hbusy hj hjin
          have : op0 = op := by rw [hp] at hp0; simpa using hp0.symm
          subst this
          obtain ⟨l1, l2, hl, _, hpst⟩ := processing?_split' hp
          have hopmem : op0 ∈ j.ops := by rw [hl]; simp
          have hdue := hgs.due tr (by simp) mid hc (Or.inl (by rw [hn, hst0.2])) m0 hmem.1 hmem.2
          have hocc := occupiedFor_new_nonneg nn.orc (fun o ho => nn.mout mc hmc o ho) hnew
          refine dur_step w hI hP (rec := { op0 with stop := some (s.time + occupiedFor outs) })
            (J' := j.replaceOp { op0 with stop := some (s.time + occupiedFor outs) })
            (M' := m0.toOutage outs (s.time + occupiedFor outs)) hj hmem.1 rfl rfl
            (by simp [MachineState.toOutage]) rfl rfl hmach0 (by simp [hpst]) ?_ ?_ ?_
          · intro _ _ d' hdd
            have hdd' : detDur inst op0 d' := (detDur_congr (by simp) (by simp)).mp hdd
            obtain ⟨a, b, h1, h2, h3, h4⟩ := hP.running j hj op0 hopmem hpst m0 hmem.1 hmach0.symm (Or.inl hst0.1) d' hdd'
            obtain ⟨_, b', _, hb', _, _, hnb⟩ := (OpsOK_mem _ _ (hS.ops j hj) op0 hopmem).2.1 hpst
            rw [h2] at hb'; simp at hb'; subst hb'
            have hbn : b ≤ s.time := by
              rw [← hstop0, h2] at hdue; simpa [dueAt] using hdue
            refine ⟨a, s.time + occupiedFor outs, h1, rfl, by omega, ?_⟩
            intro hno
            have hno' : mc.outages = [] := hno mc hmc (by rw [hmcid, hmach0])
            rw [hno'] at hnew
            simp [newOutageStates] at hnew
            obtain ⟨rfl, _⟩ := hnew
            have := h4 (by simpa using hno)
            simp [occupiedFor, activeDurations]
            omega
          · intro o ho hk hst _
            have := only_running hS hj hp ho hst
            subst this
            exact hk ⟨rfl, rfl⟩
          · intro j1 hj1 hne o ho hst hom _
            exact foreign_not_on w hI hS hmem.1 hjin hj1 hne ho hst hom
        | outageToIdle =>
          have hst0 := (machineHandler_outageToIdle hmh)
          obtain ⟨j, op, mc, rest, b1, b2, hstore, hj, hp, _, _, _, _, rfl⟩ := outageToIdle_spec h
          have hbusy : m0.st ≠ .idle := by rw [hst0.1]; simp
          have hjin : j.id ∈ m0.buffer.store := by rw [hstore]; simp
          obtain ⟨_, op0, hp0, hmach0, hstop0, hne0⟩ := busy_job hI hS w hmem.1 hbusy hj hjin
          have : op0 = op := by rw [hp] at hp0; simpa using hp0.symm
          subst this
          obtain ⟨l1, l2, hl, _, hpst⟩ := processing?_split' hp
          have hopmem : op0 ∈ j.ops := by rw [hl]; simp
          have hdue := hgs.due tr (by simp) mid hc (Or.inr (by rw [hn, hst0.2])) m0 hmem.1 hmem.2
          refine dur_step w hI hP (rec := { op0 with stop := some s.time, st := .done }) hj hmem.1 (by simp) (by simp)
            (by simp [MachineState.toIdle]) rfl rfl hmach0 ?_ (by intro h'; simp at h') ?_ ?_
          · intro _ d' hdd
            have hdd' : detDur inst op0 d' := (detDur_congr (by simp) (by simp)).mp hdd
            obtain ⟨a, b, h1, h2, h3, h4⟩ := hP.running j hj op0 hopmem hpst m0 hmem.1 hmach0.symm (Or.inr hst0.1) d' hdd'
            obtain ⟨_, b', _, hb', _, _, hnb⟩ := (OpsOK_mem _ _ (hS.ops j hj) op0 hopmem).2.1 hpst
            rw [h2] at hb'; simp at hb'; subst hb'
            have hbn : b ≤ s.time := by
              rw [← hstop0, h2] at hdue; simpa [dueAt] using hdue
            refine ⟨a, s.time, h1, rfl, by omega, ?_⟩
            intro hno
            have := h4 (by simpa using hno)
            omega
          · intro _ _ _ _ h'; simp [MachineState.toIdle] at h'
          · intro _ _ _ _ _ _ _ h'; simp [MachineState.toIdle] at h'


/-- a timed machine transition into a phase other than SETUP is only created when due -/
theorem timedMachine_due {now : Int} {m : MachineState} {tr : Transition}
    (h : timedMachine inst now m = .ok (some tr)) :
    tr.comp = .m m.id ∧ (tr.new ≠ .m .setup → dueAt m.occ now = true) := by
  unfold timedMachine at h
  split at h
  · rename_i ns hns
    split at hns
    · rename_i hd
      split at h
      · simp at h; subst h; exact ⟨rfl, fun _ => hd⟩
      · simp at h
    · simp at hns
  · split at h
    · unfold machineSetupTransition at h
      split at h
      · obtain ⟨pc, _, h⟩ := except_bind_eq_ok h
        cases hn : nextJobFromBuffer m.pre pc with
        | none => simp [hn] at h
        | some j => simp [hn] at h; subst h; exact ⟨rfl, fun hne => absurd rfl hne⟩
      · simp at h
    · simp at h

/-- the timed batch (followed by AGV dispatches) meets the due-guard -/
theorem timed_due (w : WF inst) {s : State} (hI : StructInv inst s) (hS : SchedInv s) {tt tele : List Transition}
    (htt : timedTransitions inst s = .ok tt) (htele : ∀ tr ∈ tele, tr.new = .t .working) : DueGS s (tt ++ tele) := by
  have hs := hI.shape
  unfold timedTransitions at htt
  obtain ⟨a, ha, htt⟩ := except_bind_eq_ok htt
  obtain ⟨b, hb, htt⟩ := except_bind_eq_ok htt
  simp at htt; subst htt
  unfold timedMachineTransitions at ha
  unfold timedTransportTransitions at hb
  cases hra : s.machines.mapM (timedMachine inst s.time) with
  | error e => simp [hra] at ha
  | ok ra =>
    simp [hra] at ha; subst ha
    cases hrb : s.transports.mapM (timedTransport inst s) with
    | error e => simp [hrb] at hb
    | ok rb =>
      simp [hrb] at hb; subst hb
      have hA := timedMachines_spec (inst := inst) s.machines (fun m hm => hm) (hs.machNodup w) ra hra
      have hmem := mapM_ok_mem hra
      have hB := timedTransports_spec (inst := inst) hS s.transports (fun t ht => ht) rb hrb
      have hT : ∀ tr ∈ rb.filterMap id ++ tele, ¬ (tr.new = .m .outage ∨ tr.new = .m .idle) := by
        intro tr htr hn
        have : IsT tr := by
          rcases List.mem_append.mp htr with h | h
          · exact (hB tr h).1
          · exact ⟨_, htele tr h⟩
        obtain ⟨ns, e⟩ := this
        rw [e] at hn; simp at hn
      rw [List.append_assoc]
      constructor
      · intro tr htr mid hc hn m1 hm1 hid
        rcases List.mem_append.mp htr with h | h
        · obtain ⟨x, hx, e⟩ := List.mem_filterMap.mp h
          simp at e; subst e
          obtain ⟨m, hm, e⟩ := hmem.2 _ hx
          have hd := timedMachine_due e
          have : m = m1 := by
            apply eq_of_mem_of_key_eq (key := fun (y : MachineState) => y.id) (hs.machNodup w) hm hm1
            rw [hc] at hd; simp at hd; rw [hid]; exact hd.1.symm
          subst this
          apply hd.2
          rcases hn with hn | hn <;> rw [hn] <;> simp
        · exact absurd hn (hT tr h)
      · apply List.pairwise_append.mpr
        refine ⟨?_, ?_, ?_⟩
        · exact hA.2.imp (fun {a b} hab mid hc _ => by rw [← hc]; exact hab)
        · apply List.pairwise_of_forall_mem_list
          intro a _ b hb mid _ hn
          exact absurd hn (hT b hb)
        · intro a _ b hb mid _ hn
          exact absurd hn (hT b hb)

/-- **The duration pass.** -/
def DurPass (orc : Oracle) (inst : Instance) (cfg : SMConfig) (w : WF inst) (nn : NonNeg orc inst) : Pass orc inst cfg where
  P := DurInv inst
  GS := DueGS
  Adm := fun _ a => ∀ tr ∈ a.transitions, OfferShaped tr
  tail := fun h => h.tail
  step := fun hI hS hP _ hsafe _ hgs ha => applyTransition_dur w nn hI hS hP hsafe hgs ha
  advance := fun _ _ hP _ _ => ⟨hP.done, hP.running⟩
  timed := fun hI hS _ htt hposs htele => timed_due w hI hS htt (filterTeleport_shape hposs htele)
  timedOnly := fun hI hS _ htt => by simpa using timed_due w hI hS (tele := []) htt (by simp)
  action := fun {s a} _ _ _ hadm => by
    have hsh : ∀ tr ∈ sortedByTransport a.transitions, ¬ (tr.new = .m .outage ∨ tr.new = .m .idle) := by
      intro tr htr hn
      rcases hadm tr (mem_sortedByTransport htr) with e | e <;> rw [e] at hn <;> simp at hn
    refine ⟨fun tr htr mid _ hn => absurd hn (hsh tr htr), ?_⟩
    apply List.pairwise_of_forall_mem_list
    intro a _ b hb mid _ hn
    exact absurd hn (hsh b hb)


theorem DurInv.of_time {s : State} {t : Int} (h : DurInv inst { s with time := t }) : DurInv inst s :=
  ⟨h.done, h.running⟩

/-- at rest nothing has started: the duration invariant holds vacuously -/
theorem DurInv.of_rest {s : State} (h : restB s = true) : DurInv inst s := by
  simp only [restB, Bool.and_eq_true, List.all_eq_true, beq_iff_eq] at h
  obtain ⟨⟨_, hj⟩, _⟩ := h
  constructor
  · intro j hj' o ho hst
    rw [hj j hj' o ho] at hst; cases hst
  · intro j hj' o ho hst
    rw [hj j hj' o ho] at hst; cases hst

end JSL
