import JSL.Inv.SchedStep

/-! The time machines `force_jump_to_event` / `jump_to_event` move time to an instant that is not
before now and not after any pending end – exactly the earliest pending end when something is
pending, one unit ahead when nothing is. -/

namespace JSL

variable {inst : Instance}

theorem mapM_ok_mem {α β} {f : α → Except Err β} : ∀ {l : List α} {r : List β}, l.mapM f = .ok r →
    (∀ x ∈ l, ∃ y ∈ r, f x = .ok y) ∧ (∀ y ∈ r, ∃ x ∈ l, f x = .ok y)
  | [], r, h => by simp [List.mapM_nil] at h; subst h; simp
  | a :: as, r, h => by
    rw [List.mapM_cons] at h
    obtain ⟨b, hb, h⟩ := except_bind_eq_ok h
    obtain ⟨bs, hbs, h⟩ := except_bind_eq_ok h
    simp at h; subst h
    have ih := mapM_ok_mem hbs
    constructor
    · intro x hx
      rcases List.mem_cons.mp hx with rfl | hx
      · exact ⟨b, by simp, hb⟩
      · obtain ⟨y, hy, e⟩ := ih.1 x hx; exact ⟨y, by simp [hy], e⟩
    · intro y hy
      rcases List.mem_cons.mp hy with rfl | hy
      · exact ⟨a, by simp, hb⟩
      · obtain ⟨x, hx, e⟩ := ih.2 y hy; exact ⟨x, by simp [hx], e⟩

theorem foldl_min_le (ds : List Int) : ∀ (d : Int), ds.foldl min d ≤ d := by
  induction ds with
  | nil => intro d; exact Int.le_refl d
  | cons x xs ih => intro d; simp only [List.foldl_cons]; exact Int.le_trans (ih _) (Int.min_le_left d x)

theorem foldl_min_le_mem (ds : List Int) : ∀ (d x : Int), x ∈ ds → ds.foldl min d ≤ x := by
  induction ds with
  | nil => intro d x hx; cases hx
  | cons y ys ih =>
    intro d x hx
    simp only [List.foldl_cons]
    rcases List.mem_cons.mp hx with rfl | hx
    · exact Int.le_trans (foldl_min_le ys _) (Int.min_le_right d x)
    · exact ih _ x hx

theorem foldl_min_mem (ds : List Int) : ∀ (d : Int), ds.foldl min d = d ∨ ds.foldl min d ∈ ds := by
  induction ds with
  | nil => intro d; left; rfl
  | cons y ys ih =>
    intro d
    simp only [List.foldl_cons]
    rcases ih (min d y) with h | h
    · rw [h]
      rcases Int.le_total d y with hle | hle
      · left; rw [Int.min_eq_left hle]
      · right; rw [Int.min_eq_right hle]; simp
    · right; exact List.mem_cons_of_mem _ h

theorem minList_spec {l : List Int} {m : Int} (h : minList l = some m) : m ∈ l ∧ ∀ x ∈ l, m ≤ x := by
  cases l with
  | nil => simp [minList] at h
  | cons a as =>
    simp [minList] at h; subst h
    constructor
    · rcases foldl_min_mem as a with h | h
      · rw [h]; simp
      · simp [h]
    · intro x hx
      rcases List.mem_cons.mp hx with rfl | hx
      · exact foldl_min_le as _
      · exact foldl_min_le_mem as _ x hx

theorem minList_none {l : List Int} (h : minList l = none) : l = [] := by
  cases l with
  | nil => rfl
  | cons a as => simp [minList] at h

/-- `force_jump_to_event` -/
theorem forceJump_spec {s : State} (hS : SchedInv s) {t : Int} (h : forceJump s = .ok t) :
    s.time ≤ t ∧ PendingGe s t ∧
      ((∃ j ∈ s.jobs, ∃ o ∈ j.ops, o.st = .processing ∧ o.stop = some t) ∨
       (∃ x ∈ s.transports, x.st ≠ .idle ∧ x.occ = .at t) ∨
       ((∀ j ∈ s.jobs, ∀ o ∈ j.ops, o.st ≠ .processing) ∧ (∀ x ∈ s.transports, x.st ≠ .idle → ∀ o, x.occ ≠ .at o) ∧
          t = s.time + 1)) := by
  unfold forceJump at h
  obtain ⟨pe, hpe, h⟩ := except_bind_eq_ok h
  obtain ⟨te, hte, h⟩ := except_bind_eq_ok h
  have hp := mapM_ok_mem hpe
  have ht := mapM_ok_mem hte
  -- every processing end is in `pe` and is ≥ now; every element of `pe` is such an end
  have pe_in : ∀ j ∈ s.jobs, ∀ o ∈ j.ops, o.st = .processing → ∀ b, o.stop = some b → b ∈ pe := by
    intro j hj o ho hst b hb
    obtain ⟨y, hy, e⟩ := hp.1 o (by
      simp only [List.mem_filter, List.mem_flatMap]
      exact ⟨⟨j, hj, ho⟩, by simp [hst]⟩)
    rw [hb] at e; simp at e; subst e; exact hy
  have pe_from : ∀ b ∈ pe, ∃ j ∈ s.jobs, ∃ o ∈ j.ops, o.st = .processing ∧ o.stop = some b := by
    intro b hb
    obtain ⟨o, ho, e⟩ := hp.2 b hb
    simp only [List.mem_filter, List.mem_flatMap] at ho
    obtain ⟨⟨j, hj, hoj⟩, hst⟩ := ho
    cases hs : o.stop with
    | none => simp [hs] at e
    | some c => simp [hs] at e; subst e; exact ⟨j, hj, o, hoj, by simpa using hst, hs⟩
  have pe_ge : ∀ b ∈ pe, s.time ≤ b := by
    intro b hb
    obtain ⟨j, hj, o, ho, hst, hs⟩ := pe_from b hb
    obtain ⟨_, c, _, hc, _, _, hle⟩ := (OpsOK_mem _ _ (hS.ops j hj) o ho).2.1 hst
    rw [hs] at hc; simp at hc; subst hc; exact hle
  have te_in : ∀ x ∈ s.transports, x.st ≠ .idle → ∀ o, x.occ = .at o → o ∈ te := by
    intro x hx hst o ho
    obtain ⟨y, hy, e⟩ := ht.1 x (by
      simp only [List.mem_filter]
      exact ⟨hx, by simp [hst, ho]⟩)
    rw [ho] at e; simp at e; subst e; exact hy
  have te_from : ∀ o ∈ te, ∃ x ∈ s.transports, x.st ≠ .idle ∧ x.occ = .at o := by
    intro o ho
    obtain ⟨x, hx, e⟩ := ht.2 o ho
    simp only [List.mem_filter] at hx
    cases hocc : x.occ with
    | none => simp [hocc] at e
    | dep a b c => simp [hocc] at e
    | «at» c =>
      simp [hocc] at e; subst e
      have h2 := hx.2
      simp only [Bool.and_eq_true, bne_iff_ne, ne_eq] at h2
      exact ⟨x, hx.1, h2.1, hocc⟩
    all_goals skip
  have te_ge : ∀ o ∈ te, s.time ≤ o := by
    intro o ho
    obtain ⟨x, hx, hst, hocc⟩ := te_from o ho
    exact hS.agvPending x hx hst o hocc
  cases hm1 : minList pe with
  | none =>
    have hpe0 := minList_none hm1
    cases hm2 : minList te with
    | none =>
      have hte0 := minList_none hm2
      simp [hm1, hm2] at h; subst h
      refine ⟨by omega, ⟨?_, ?_⟩, Or.inr (Or.inr ⟨?_, ?_, rfl⟩)⟩
      · intro j hj o ho hst b hb; have := pe_in j hj o ho hst b hb; rw [hpe0] at this; cases this
      · intro x hx hst o ho; have := te_in x hx hst o ho; rw [hte0] at this; cases this
      · intro j hj o ho hst
        obtain ⟨_, c, _, hc, _⟩ := (OpsOK_mem _ _ (hS.ops j hj) o ho).2.1 hst
        have := pe_in j hj o ho hst c hc; rw [hpe0] at this; cases this
      · intro x hx hst o ho; have := te_in x hx hst o ho; rw [hte0] at this; cases this
    | some b =>
      simp [hm1, hm2] at h; subst h
      have hb := minList_spec hm2
      refine ⟨te_ge _ hb.1, ⟨?_, ?_⟩, Or.inr (Or.inl ?_)⟩
      · intro j hj o ho hst c hc; have := pe_in j hj o ho hst c hc; rw [hpe0] at this; cases this
      · intro x hx hst o ho; exact hb.2 o (te_in x hx hst o ho)
      · obtain ⟨x, hx, h1, h2⟩ := te_from _ hb.1; exact ⟨x, hx, h1, h2⟩
  | some a =>
    have ha := minList_spec hm1
    cases hm2 : minList te with
    | none =>
      have hte0 := minList_none hm2
      simp [hm1, hm2] at h; subst h
      refine ⟨pe_ge _ ha.1, ⟨?_, ?_⟩, Or.inl ?_⟩
      · intro j hj o ho hst c hc; exact ha.2 c (pe_in j hj o ho hst c hc)
      · intro x hx hst o ho; have := te_in x hx hst o ho; rw [hte0] at this; cases this
      · exact pe_from _ ha.1
    | some b =>
      have hb := minList_spec hm2
      simp [hm1, hm2] at h; subst h
      refine ⟨?_, ⟨?_, ?_⟩, ?_⟩
      · have := pe_ge _ ha.1; have := te_ge _ hb.1; omega
      · intro j hj o ho hst c hc; have := ha.2 c (pe_in j hj o ho hst c hc); omega
      · intro x hx hst o ho; have := hb.2 o (te_in x hx hst o ho); omega
      · rcases Int.le_total a b with hle | hle
        · left; rw [Int.min_eq_left hle]; exact pe_from _ ha.1
        · right; left; rw [Int.min_eq_right hle]
          obtain ⟨x, hx, h1, h2⟩ := te_from _ hb.1; exact ⟨x, hx, h1, h2⟩

/-- what the invariant says about "now": nothing pending lies before it -/
theorem SchedInv.pendingNow {s : State} (hS : SchedInv s) : PendingGe s s.time := by
  constructor
  · intro j hj o ho hst b hb
    obtain ⟨_, c, _, hc, _, _, hle⟩ := (OpsOK_mem _ _ (hS.ops j hj) o ho).2.1 hst
    rw [hb] at hc; simp at hc; subst hc; exact hle
  · exact hS.agvPending

/-- the two time machines the environment and the middleware use -/
theorem runTimeMachine_spec {cfg : SMConfig} {s : State} (hS : SchedInv s) {tm : TimeMachine} {t : Int}
    (htm : tm ≠ .jumpByOne) (h : runTimeMachine inst cfg s tm = .ok t) : s.time ≤ t ∧ PendingGe s t := by
  cases tm with
  | jumpByOne => exact absurd rfl htm
  | forceJump => simp [runTimeMachine] at h; exact ⟨(forceJump_spec hS h).1, (forceJump_spec hS h).2.1⟩
  | jumpToEvent =>
    simp only [runTimeMachine, jumpToEvent] at h
    obtain ⟨n, _, h⟩ := except_bind_eq_ok h
    split at h
    · simp at h; subst h; exact ⟨Int.le_refl _, hS.pendingNow⟩
    · exact ⟨(forceJump_spec hS h).1, (forceJump_spec hS h).2.1⟩

theorem jumpToEvent_spec {cfg : SMConfig} {s : State} (hS : SchedInv s) {t : Int}
    (h : jumpToEvent inst cfg s = .ok t) : s.time ≤ t ∧ PendingGe s t :=
  runTimeMachine_spec (tm := .jumpToEvent) hS (by simp) (by simpa [runTimeMachine] using h)

end JSL
