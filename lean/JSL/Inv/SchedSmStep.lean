import JSL.Inv.TimedBatch

/-!
# The schedule invariant along `state.step` for admissible actions
-/

namespace JSL

variable {orc : Oracle} {inst : Instance}

theorem mem_teleportGreedy : ∀ (n : Nat) (l : List Transition) (x : Transition), x ∈ teleportGreedy n l → x ∈ l
  | 0, _, _, h => by simp [teleportGreedy] at h
  | n + 1, [], _, h => by simp [teleportGreedy] at h
  | n + 1, t :: ts, x, h => by
    simp only [teleportGreedy] at h
    rcases List.mem_cons.mp h with rfl | h
    · simp
    · have := mem_teleportGreedy n _ x h
      exact List.mem_cons_of_mem _ (List.mem_filter.mp this).1

/-- every offer is a machine → SETUP or an AGV → WORKING transition -/
theorem possibleTransitions_shape {cfg : SMConfig} {s : State} {poss : List Transition}
    (h : possibleTransitions inst cfg s = .ok poss) :
    ∀ tr ∈ poss, (∃ mid, tr.comp = .m mid ∧ tr.new = .m .setup) ∨ (∃ tid, tr.comp = .t tid ∧ tr.new = .t .working) := by
  unfold possibleTransitions at h
  obtain ⟨pj, _, h⟩ := except_bind_eq_ok h
  obtain ⟨pt, hpt, h⟩ := except_bind_eq_ok h
  obtain ⟨mt, hmt, h⟩ := except_bind_eq_ok h
  simp at h; subst h
  intro tr htr
  rcases List.mem_append.mp htr with h | h
  · left
    obtain ⟨j, _, e⟩ := (mapM_ok_mem hmt).2 tr h
    cases hn : j.nextIdle? with
    | none => simp [hn] at e
    | some o => simp [hn] at e; subst e; exact ⟨_, rfl, rfl⟩
  · right
    unfold possibleTransportTransitions at hpt
    obtain ⟨ts, _, hpt⟩ := except_bind_eq_ok hpt
    obtain ⟨idle, _, hpt⟩ := except_bind_eq_ok hpt
    simp only at hpt
    obtain ⟨lonely, _, hpt⟩ := except_bind_eq_ok hpt
    simp at hpt; subst hpt
    simp only [List.mem_flatMap, List.mem_map] at h
    obtain ⟨t, _, j, _, rfl⟩ := h
    exact ⟨_, rfl, rfl⟩

theorem offers_offerShaped {cfg : SMConfig} {s : State} {poss : List Transition}
    (h : possibleTransitions inst cfg s = .ok poss) : ∀ tr ∈ poss, OfferShaped tr := by
  intro tr htr
  rcases possibleTransitions_shape h tr htr with ⟨_, _, e⟩ | ⟨_, _, e⟩
  · exact Or.inl e
  · exact Or.inr e

/-- the teleports are AGV dispatches taken from the offers -/
theorem filterTeleport_shape {cfg : SMConfig} {s : State} {r : Rng} {poss tele : List Transition}
    (hp : possibleTransitions inst cfg s = .ok poss) (h : filterTeleport orc inst r s poss = .ok tele) :
    ∀ tr ∈ tele, tr.new = .t .working := by
  unfold filterTeleport at h
  obtain ⟨l, hl, h⟩ := except_bind_eq_ok h
  simp at h; subst h
  intro tr htr
  have hmem := mem_teleportGreedy _ _ _ htr
  have hf := filterE_ok hl tr hmem
  obtain ⟨tt, _, hcond⟩ := except_bind_eq_ok hf.2
  simp at hcond
  rcases possibleTransitions_shape hp tr hf.1 with ⟨mid, hc, _⟩ | ⟨_, _, e⟩
  · rw [hc] at hcond; simp at hcond
  · exact e

/-- an action the environment, the middleware or an agent using offered transitions may submit -/
structure Admissible (a : Action) : Prop where
  shaped : ∀ tr ∈ a.transitions, OfferShaped tr
  tm : a.tm ≠ .jumpByOne

theorem mem_sortedByTransport {l : List Transition} {x : Transition} (h : x ∈ sortedByTransport l) : x ∈ l := by
  unfold sortedByTransport at h
  rcases List.mem_append.mp h with h | h <;> exact (List.mem_filter.mp h).1

/-- the `while timed_transitions` loop keeps the schedule invariant when every batch it
processes is the timed batch of the state it starts from (plus teleports in the first one) -/
theorem timedLoop_sched (w : WF inst) (nn : NonNeg orc inst) {cfg : SMConfig} :
    ∀ (fuel : Nat) (tt : List Transition) (s : State) (r : Rng) (subs mic : List State) (out : LoopOut),
      StructInv inst s → SchedInv s → Safe s tt → Fresh tt →
      (∀ σ ∈ subs, SchedInv σ) → (∀ σ ∈ mic, SchedInv σ) →
      timedLoop orc inst cfg fuel tt s r subs mic = .ok out →
      SchedInv out.state ∧ (∀ σ ∈ out.subs, SchedInv σ) ∧ (∀ σ ∈ out.micro, SchedInv σ) := by
  intro fuel
  induction fuel with
  | zero =>
    intro tt s r subs mic out _ hS _ _ hsub hmic h
    cases tt with
    | nil => simp [timedLoop] at h; subst h; exact ⟨hS, hsub, hmic⟩
    | cons a as => simp [timedLoop] at h
  | succ n ih =>
    intro tt s r subs mic out hI hS hsafe hfresh hsub hmic h
    cases tt with
    | nil => simp [timedLoop] at h; subst h; exact ⟨hS, hsub, hmic⟩
    | cons a as =>
      simp only [timedLoop] at h
      obtain ⟨o, ho, h⟩ := except_bind_eq_ok h
      have hp := processTransitions_sched w nn _ _ _ _ hI hS hsafe hfresh ho
      have hpI := processTransitions_struct w _ _ _ _ hI ho
      have hmic' : ∀ σ ∈ mic ++ o.micro, SchedInv σ := by
        intro σ hσ
        rcases List.mem_append.mp hσ with hσ | hσ
        · exact hmic σ hσ
        · exact hp.2 σ hσ
      split at h
      · simp at h; subst h; exact ⟨hp.1, hsub, hmic'⟩
      · obtain ⟨t, ht, h⟩ := except_bind_eq_ok h
        obtain ⟨tt', htt', h⟩ := except_bind_eq_ok h
        have hadv := jumpToEvent_spec hp.1 ht
        have hS' := hp.1.advance hadv.1 hadv.2
        have hI' := hpI.1.time t
        have hsf := timed_batch_safe w (tele := []) hI' hS' htt' (by simp)
        simp only [List.append_nil] at hsf
        apply ih _ _ _ _ _ _ hI' hS' hsf.1 hsf.2 _ hmic' h
        intro σ hσ
        rcases List.mem_append.mp hσ with hσ | hσ
        · exact hsub σ hσ
        · simp at hσ; subst hσ; exact hS'

/-- **`state.step` keeps the schedule invariant** for every admissible action: in the post-state
of every applied transition, in every sub-state, and in the returned state (before the final
makespan stamp when the shop is done). -/
theorem smStep_sched (w : WF inst) (nn : NonNeg orc inst) {cfg : SMConfig} {fuel : Nat} {s0 : State} {r : Rng}
    {a : Action} {res : SMResult} {r' : Rng} {mic : List State} (hI : StructInv inst s0) (hS : SchedInv s0)
    (ha : Admissible a) (h : smStep orc inst cfg fuel s0 r a = .ok (res, r', mic)) :
    (∀ σ ∈ mic, SchedInv σ) ∧ (∀ σ ∈ res.subStates, SchedInv σ) ∧
      (∃ t, SchedInv { res.state with time := t }) ∧ (res.done = false → SchedInv res.state) := by
  unfold smStep at h
  obtain ⟨p, hp, h⟩ := except_bind_eq_ok h
  have hsf := offerShaped_safe (s := s0) (L := sortedByTransport a.transitions)
    (fun tr htr => ha.shaped tr (mem_sortedByTransport htr))
  have hp' := processTransitions_sched w nn _ _ _ _ hI hS hsf.1 hsf.2 hp
  have hpI := processTransitions_struct w _ _ _ _ hI hp
  split at h
  · simp at h
    obtain ⟨rfl, _, rfl⟩ := h
    exact ⟨hp'.2, by simpa using hp'.1, ⟨s0.time, hS⟩, fun _ => hS⟩
  · simp only at h
    obtain ⟨t, ht, h⟩ := except_bind_eq_ok h
    obtain ⟨timed, htimed, h⟩ := except_bind_eq_ok h
    obtain ⟨poss, hposs, h⟩ := except_bind_eq_ok h
    obtain ⟨tele, htele, h⟩ := except_bind_eq_ok h
    obtain ⟨out, hout, h⟩ := except_bind_eq_ok h
    have hadv := runTimeMachine_spec hp'.1 ha.tm ht
    have hS1 := hp'.1.advance hadv.1 hadv.2
    have hI1 := hpI.1.time t
    have hbatch := timed_batch_safe w hI1 hS1 htimed (filterTeleport_shape hposs htele)
    have hl := timedLoop_sched w nn _ _ _ _ _ _ _ hI1 hS1 hbatch.1 hbatch.2 (by simpa using hp'.1) hp'.2 hout
    split at h
    · simp at h
      obtain ⟨rfl, _, rfl⟩ := h
      exact ⟨hl.2.2, hl.2.1, ⟨s0.time, hS⟩, fun _ => hS⟩
    · split at h
      · obtain ⟨e, _, h⟩ := except_bind_eq_ok h
        simp at h
        obtain ⟨rfl, _, rfl⟩ := h
        refine ⟨hl.2.2, fun σ hσ => hl.2.1 σ ((List.dropLast_sublist _).subset hσ), ⟨out.state.time, ?_⟩, by simp⟩
        cases e <;> exact hl.1
      · obtain ⟨poss', _, h⟩ := except_bind_eq_ok h
        simp at h
        obtain ⟨rfl, _, rfl⟩ := h
        exact ⟨hl.2.2, fun σ hσ => hl.2.1 σ ((List.dropLast_sublist _).subset hσ), ⟨out.state.time, hl.1⟩, fun _ => hl.1⟩

end JSL
