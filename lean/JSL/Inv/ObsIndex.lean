import JSL.Model.Obs
import Mathlib.Algebra.Order.Field.Rat
import Mathlib.Tactic.FieldSimp

/-!
# C15 — observations faithfully encode the state and identify the pending offer

* positions vs. numbers: the factory sorts jobs and machines by their numeric id and then uses
  list positions as job / machine numbers.  `ix_positions_are_numbers`: for jobs (machines)
  numbered 0 … n-1 position k holds number k, so every per-job / per-machine array is indexed by
  number, whatever the internal order (`ix_job_running_by_number`, …).
  `ix_string_order_misindexes_eleven`: sorted by id string – what the code did before the repair
  "fix: sort jobs and machines by numeric id" – position 2 of eleven holds number 10;
* the offer encoding is injective over the offers of one instance (`ix_offer_injective`, exact
  rationals; float32 rounding is checked per instance on the implementation side);
* the observation is a function of the state and the head offer (`ix_offer_depends_on_head`).
-/

namespace JSL

theorem sortById_perm {α} (id : α → Nat) (l : List α) : (sortById id l).Perm l :=
  List.mergeSort_perm _ _

theorem sortById_sorted {α} (id : α → Nat) (l : List α) :
    (sortById id l).Pairwise (fun a b => id a ≤ id b) := by
  have := List.pairwise_mergeSort (le := fun (a b : α) => decide (id a ≤ id b))
    (fun a b c h1 h2 => by simp at *; omega) (fun a b => by simp; omega) l
  exact this.imp (fun h => by simpa using h)

/-- **Positions are numbers**: for jobs (machines) numbered 0 … n-1 in whatever internal order,
position `k` of the list the factory builds its arrays from holds number `k`. -/
theorem ix_positions_are_numbers {α} (id : α → Nat) (l : List α) (n : Nat)
    (hids : (l.map id).Perm (List.range n)) : (sortById id l).map id = List.range n := by
  have hnd : (l.map id).Nodup := hids.nodup_iff.mpr List.nodup_range
  have hp := sortById_perm id l
  have hnd' : ((sortById id l).map id).Nodup := (hp.map id).nodup_iff.mpr hnd
  have h1 : ((sortById id l).map id).Pairwise (· < ·) := by
    rw [List.pairwise_map]
    have hne : (sortById id l).Pairwise (fun a b => id a ≠ id b) := by
      rw [List.nodup_iff_pairwise_ne, List.pairwise_map] at hnd'
      exact hnd'
    exact ((sortById_sorted id l).and hne).imp (fun ⟨h1, h2⟩ => by omega)
  have h2 : (List.range n).Pairwise (· < ·) := List.pairwise_lt_range
  have hperm : ((sortById id l).map id).Perm (List.range n) := (hp.map id).trans hids
  exact List.Perm.eq_of_pairwise (le := (· < ·)) (fun a b _ _ h1 h2 => by omega) h1 h2 hperm

/-- position `k` of the sorted list holds the element numbered `k` -/
theorem sorted_getElem {α} (id : α → Nat) (l : List α) (n : Nat)
    (hids : (l.map id).Perm (List.range n)) (k : Nat) (hk : k < n) :
    ∃ a ∈ l, id a = k ∧ (sortById id l)[k]? = some a := by
  have h := ix_positions_are_numbers id l n hids
  have hlen : (sortById id l).length = n := by
    have := congrArg List.length h; simpa using this
  have hk' : k < (sortById id l).length := by omega
  refine ⟨(sortById id l)[k], (sortById_perm id l).subset (List.getElem_mem hk'), ?_, by simp [hk']⟩
  have := congrArg (fun x => x[k]?) h
  simp only [List.getElem?_map, List.getElem?_range hk] at this
  simpa [hk'] using this

/-- the `job_running` array is indexed by job number -/
theorem ix_job_running_by_number (nm : Nat) (tmax : Int) (s : State) (obs : SimpleObs)
    (h : simpleObs nm tmax s = .ok obs) (n : Nat)
    (hids : (s.jobs.map (·.id)).Perm (List.range n)) (k : Nat) (hk : k < n) :
    ∃ j ∈ s.jobs, j.id = k ∧ obs.jobRunning[k]? = some j.running := by
  obtain ⟨j, hj, hid, hget⟩ := sorted_getElem (fun (x : JobState) => x.id) s.jobs n hids k hk
  refine ⟨j, hj, hid, ?_⟩
  unfold simpleObs at h
  simp only [bind, Except.bind, pure, Except.pure] at h
  repeat' split at h
  all_goals first
    | (simp at h; done)
    | (simp only [Except.ok.injEq] at h; subst h; simp [List.getElem?_map, hget])

/-- the `machine_running` array is indexed by machine number -/
theorem ix_machine_running_by_number (nm : Nat) (tmax : Int) (s : State) (obs : SimpleObs)
    (h : simpleObs nm tmax s = .ok obs) (n : Nat)
    (hids : (s.machines.map (·.id)).Perm (List.range n)) (k : Nat) (hk : k < n) :
    ∃ m ∈ s.machines, m.id = k ∧ obs.machineRunning[k]? = some (m.st == .working) := by
  obtain ⟨m, hm, hid, hget⟩ := sorted_getElem (fun (x : MachineState) => x.id) s.machines n hids k hk
  refine ⟨m, hm, hid, ?_⟩
  unfold simpleObs at h
  simp only [bind, Except.bind, pure, Except.pure] at h
  repeat' split at h
  all_goals first
    | (simp at h; done)
    | (simp only [Except.ok.injEq] at h; subst h; simp [List.getElem?_map, hget])

/-- the `machine_progression` array is indexed by machine number and counts the finished
operations of that machine -/
theorem ix_machine_progression_by_number (nm : Nat) (tmax : Int) (s : State) (obs : SimpleObs)
    (h : simpleObs nm tmax s = .ok obs) (n : Nat)
    (hids : (s.machines.map (·.id)).Perm (List.range n)) (k : Nat) (hk : k < n) :
    obs.machineProgression[k]? =
      some (((sortById (·.id) s.jobs).flatMap (·.ops)).filter fun o => o.machine == k && o.st == .done).length := by
  obtain ⟨m, hm, hid, hget⟩ := sorted_getElem (fun (x : MachineState) => x.id) s.machines n hids k hk
  unfold simpleObs at h
  simp only [bind, Except.bind, pure, Except.pure] at h
  repeat' split at h
  all_goals first
    | (simp at h; done)
    | (simp only [Except.ok.injEq] at h; subst h; simp [List.getElem?_map, hget, hid])


theorem idStrLe_trans (a b c : Nat) (h1 : idStrLe a b = true) (h2 : idStrLe b c = true) : idStrLe a c = true := by
  simp only [idStrLe, decide_eq_true_eq] at *
  exact String.le_trans h1 h2

theorem idStrLe_total (a b : Nat) : (idStrLe a b || idStrLe b a) = true := by
  simp only [idStrLe, Bool.or_eq_true, decide_eq_true_eq]
  exact String.le_total _ _

theorem idStrLe_antisymm11 : ∀ a b : Fin 11, idStrLe a.val b.val = true → idStrLe b.val a.val = true → a = b := by decide

/-- **Regression: why the sort key matters.**  Sorted by id *string* – as the factory did before
the repair – number 10 comes third among eleven, so position 2 of every per-job array described
job 10 and positions 3 … 10 described jobs 2 … 9. -/
theorem ix_string_order_misindexes_eleven :
    sortByIdStr (fun (x : Nat) => x) (List.range 11) = [0, 1, 10, 2, 3, 4, 5, 6, 7, 8, 9] := by
  have hperm : (sortByIdStr (fun (x : Nat) => x) (List.range 11)).Perm (List.range 11) := List.mergeSort_perm _ _
  have hsorted : (sortByIdStr (fun (x : Nat) => x) (List.range 11)).Pairwise (fun a b => idStrLe a b = true) := by
    have := List.pairwise_mergeSort (le := fun (a b : Nat) => idStrLe a b)
      (fun a b c h1 h2 => idStrLe_trans a b c h1 h2) (fun a b => idStrLe_total a b) (List.range 11)
    exact this
  apply List.Perm.eq_of_pairwise (le := fun a b => idStrLe a b = true)
  · intro a b ha hb h1 h2
    have ha' : a < 11 := List.mem_range.mp (hperm.subset ha)
    have hb' : b < 11 := by simp at hb; omega
    have := idStrLe_antisymm11 ⟨a, ha'⟩ ⟨b, hb'⟩ h1 h2
    exact congrArg Fin.val this
  · exact hsorted
  · decide
  · exact hperm.trans (by decide)

/-! ### the offer encoding -/

theorem idxOf_inj {l : List Comp} {a b : Comp} {i : Nat} (ha : l.idxOf? a = some i) (hb : l.idxOf? b = some i) : a = b := by
  induction l generalizing i with
  | nil => simp [List.idxOf?] at ha
  | cons x xs ih =>
    simp only [List.idxOf?, List.findIdx?_cons] at ha hb
    by_cases hxa : (x == a) = true
    · by_cases hxb : (x == b) = true
      · rw [← (beq_iff_eq.mp hxa), ← (beq_iff_eq.mp hxb)]
      · simp [hxa, hxb] at ha hb
        subst ha
        cases h : List.findIdx? (fun y => y == b) xs <;> simp [h] at hb
    · by_cases hxb : (x == b) = true
      · simp [hxa, hxb] at ha hb
        subst hb
        cases h : List.findIdx? (fun y => y == a) xs <;> simp [h] at ha
      · simp only [hxa, hxb] at ha hb
        cases h1 : List.findIdx? (fun y => y == a) xs with
        | none => simp [h1] at ha
        | some i1 =>
          cases h2 : List.findIdx? (fun y => y == b) xs with
          | none => simp [h2] at hb
          | some i2 =>
            simp [h1] at ha; simp [h2] at hb
            have : i1 = i2 := by omega
            subst this
            exact ih (i := i1) (by simpa [List.idxOf?] using h1) (by simpa [List.idxOf?] using h2)

/-- **The encoding of the pending offer is injective**: two results of one instance whose head
offers are encoded alike have the same head offer component and job (exact arithmetic). -/
theorem ix_offer_injective (inst : Instance) (n : Nat) (res res' : SMResult) (tr tr' : Transition)
    (rest rest' : List Transition) (hp : res.possible = tr :: rest) (hp' : res'.possible = tr' :: rest')
    (hj : ∀ j, tr.job = some j → j < n) (hj' : ∀ j, tr'.job = some j → j < n)
    (code : Rat × Rat × Rat)
    (h : currentTransition inst n res false = .ok code) (h' : currentTransition inst n res' false = .ok code) :
    tr.comp = tr'.comp ∧ tr.job = tr'.job := by
  unfold currentTransition at h h'
  simp only [hp, hp', Bool.false_eq_true, if_false, bind, Except.bind, pure, Except.pure] at h h'
  by_cases hn : n = 0
  · simp [hn] at h
  · simp only [hn, if_false] at h h'
    cases hi : (inst.machines.map (fun m => Comp.m m.id) ++ inst.transports.map (fun t => Comp.t t.id)).idxOf? tr.comp with
    | none => simp [hi] at h
    | some i =>
      cases hi' : (inst.machines.map (fun m => Comp.m m.id) ++ inst.transports.map (fun t => Comp.t t.id)).idxOf? tr'.comp with
      | none => simp [hi'] at h'
      | some i' =>
        simp only [hi, hi', Except.ok.injEq] at h h'
        rw [← h'] at h
        simp only [Prod.mk.injEq] at h
        obtain ⟨h1, h2, _⟩ := h
        have hlen : ((inst.machines.map (fun m => Comp.m m.id) ++ inst.transports.map (fun t => Comp.t t.id)).length : Rat) ≠ 0 := by
          have := (List.idxOf?_eq_some_iff.mp hi).1
          have h0 : (inst.machines.map (fun m => Comp.m m.id) ++ inst.transports.map (fun t => Comp.t t.id)).length ≠ 0 := by
            simp only [List.length_append, List.length_map] at this ⊢; omega
          exact_mod_cast h0
        have hnq : (n : Rat) ≠ 0 := by exact_mod_cast hn
        have hii : i = i' := by
          have := (div_left_inj' hlen).mp h1
          exact_mod_cast this
        subst hii
        refine ⟨idxOf_inj hi hi', ?_⟩
        have hjj := (div_left_inj' hnq).mp h2
        have hjj' : (match tr.job with | some j => j | none => n) = (match tr'.job with | some j => j | none => n) := by
          exact_mod_cast hjj
        cases e1 : tr.job with
        | none =>
          cases e2 : tr'.job with
          | none => rfl
          | some j2 => simp [e1, e2] at hjj'; have := hj' j2 e2; omega
        | some j1 =>
          cases e2 : tr'.job with
          | none => simp [e1, e2] at hjj'; have := hj j1 e1; omega
          | some j2 => simp [e1, e2] at hjj'; rw [hjj']

/-- the encoded offer depends only on the head of the offer list (and the done flag) -/
theorem ix_offer_depends_on_head (inst : Instance) (n : Nat) (res res' : SMResult) (d : Bool)
    (h : res.possible.head? = res'.possible.head?) :
    currentTransition inst n res d = currentTransition inst n res' d := by
  unfold currentTransition
  cases hp : res.possible with
  | nil => cases hp' : res'.possible with
    | nil => rfl
    | cons a as => rw [hp, hp'] at h; simp at h
  | cons a as => cases hp' : res'.possible with
    | nil => rw [hp, hp'] at h; simp at h
    | cons b bs => rw [hp, hp'] at h; simp at h; subst h; rfl

end JSL
