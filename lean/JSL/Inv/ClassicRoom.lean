import JSL.Inv.ClassicDefs

/-!
# Capacities never block in a classic instance

A buffer that does not hold job `x` holds fewer jobs than the shop has, so a buffer whose capacity
is at least the number of jobs takes `x`.
-/

namespace JSL

variable {inst : Instance}

theorem nodup_subset_length {l : List Nat} : ∀ {L : List Nat}, l.Nodup → (∀ a ∈ l, a ∈ L) → l.length ≤ L.length := by
  induction l with
  | nil => intro L _ _; simp
  | cons a l ih =>
    intro L hnd hsub
    have ha : a ∈ L := hsub a (by simp)
    have hnd' := List.nodup_cons.mp hnd
    have : l.length ≤ (L.erase a).length := by
      apply ih hnd'.2
      intro b hb
      have hne : b ≠ a := fun e => hnd'.1 (e ▸ hb)
      exact (List.mem_erase_of_ne hne).mpr (hsub b (by simp [hb]))
    rw [List.length_erase_of_mem ha] at this
    have hpos : 0 < L.length := List.length_pos_of_mem ha
    simp only [List.length_cons]
    omega

/-- a buffer of the state that does not hold the job `x` of the shop holds fewer jobs than the instance has -/
theorem store_room (w : WF inst) {s : State} (hI : StructInv inst s) {b : BufState} (hb : b ∈ allBufStates s)
    {x : Nat} (hx : ∃ j ∈ s.jobs, j.id = x) (hnot : x ∉ b.store) : (b.store.length : Int) < (inst.jobs.length : Int) := by
  have hst : storeAt s b.id = b.store := storeAt_of_mem (hI.shape.bufNodup w) hb
  have hnd : b.store.Nodup := by rw [← hst]; exact hI.cons.nodup b.id
  have hsub : ∀ a ∈ x :: b.store, a ∈ s.jobs.map (·.id) := by
    intro a ha
    rcases List.mem_cons.mp ha with rfl | ha
    · obtain ⟨j, hj, e⟩ := hx; exact List.mem_map.mpr ⟨j, hj, e⟩
    · have := hI.cons.stored b.id a (by rw [hst]; exact ha)
      rw [← locs_fst]
      exact List.mem_map.mpr ⟨(a, b.id), this, rfl⟩
  have hlen := nodup_subset_length (List.nodup_cons.mpr ⟨hnot, hnd⟩) hsub
  have hjl : (s.jobs.map (·.id)).length = inst.jobs.length := by rw [hI.shape.jobIds]; simp
  simp only [List.length_cons] at hlen
  omega

end JSL
