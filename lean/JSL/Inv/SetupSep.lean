import JSL.Inv.EnvReach
import JSL.Inv.SetupPass

/-!
# C09: consecutive operations on one machine are separated by the setup time

The setup invariant (`SetupInv`, `Inv/SetupDefs.lean`) at the level of the environment: it holds in
every state an episode exposes.  From it:

* `setup_separates` – two finished operations `a`, `b` of one machine, `a` before `b`, nothing of
  that machine in between, and a constant entry `d` of the machine's setup matrix at
  `(tool a, tool b)` – from-tool first –: `b` started at `a.stop + d` or later;
* `setup_separates_running` – the same for the operation in progress on a WORKING / OUTAGE machine
  and the last finished operation of that machine;
* `setup_interval` – while a machine is in SETUP, the record of the accepted operation spans
  exactly the constant entry `(tool of the last finished operation, tool of the accepted one)` and
  the machine is occupied until its end;
* `mounted_busy`, `mounted_idle` – the mounted tool is the tool of the operation held / of the
  last finished operation.
-/

namespace JSL

variable {orc : Oracle} {inst : Instance}

/-! ## every exposed state -/

/-- what is known about a result the environment holds, as far as setup is concerned -/
structure ResSetup (inst : Instance) (res : SMResult) : Prop where
  state : SetupInv inst res.state
  subs : ∀ σ ∈ res.subStates, SetupInv inst σ

theorem smStep_resSetup {cfg : SMConfig} {s0 s : State} (hst : Start orc inst s0) (h : OccursA orc inst cfg s0 s)
    {a : Action} (ha : Admissible a) {fuel : Nat} {r r' : Rng} {res : SMResult} {mic : List State}
    (hstep : smStep orc inst cfg fuel s r a = .ok (res, r', mic)) :
    ResSetup inst res ∧ ∀ σ ∈ mic, SetupInv inst σ :=
  ⟨⟨final_setup hst h ha hstep, fun _ hσ => occursA_setup hst (OccursA.sub h ha hstep hσ)⟩,
   fun _ hσ => occursA_setup hst (OccursA.micro h ha hstep hσ)⟩

theorem envReset_setup {ec : EnvCfg} {s0 : State} (hst : Start orc inst s0) {r : Rng} {e : EnvState} {mic : List State}
    (h : envReset orc inst ec s0 r = .ok (e, mic)) : ResSetup inst e.res ∧ ∀ σ ∈ mic, SetupInv inst σ := by
  unfold envReset mwReset at h
  obtain ⟨⟨res, mw, r', mic'⟩, h1, h⟩ := except_bind_eq_ok h
  obtain ⟨⟨res', r'', mic''⟩, h2, h1⟩ := except_bind_eq_ok h1
  simp at h1 h
  obtain ⟨rfl, rfl, rfl, rfl⟩ := h1
  obtain ⟨rfl, rfl⟩ := h
  exact smStep_resSetup hst OccursA.init admissible_noOp h2

theorem envStep_setup {ec : EnvCfg} {st : RewardStatic} {s0 : State} (hst : Start orc inst s0) {e : EnvState}
    (hi : ResInv orc inst ec.sm s0 e.res) (hq : ResSetup inst e.res) {a : AgentAct} {out : StepOut}
    (h : envStep orc inst ec st e a = .ok out) : ResSetup inst out.env.res ∧ ∀ σ ∈ out.micro, SetupInv inst σ := by
  unfold envStep at h
  split at h
  · simp at h
  · obtain ⟨⟨res', mw, r, mic⟩, hm, h⟩ := except_bind_eq_ok h
    simp only at h
    obtain ⟨⟨rew, cnt⟩, _, h⟩ := except_bind_eq_ok h
    simp at h; subst h
    have key : ResSetup inst res' ∧ ∀ σ ∈ mic, SetupInv inst σ := by
      rcases mwStep_cases hm with ⟨o, o', rest, _, hp, e1, e2, _, _, _, e6, _⟩ | ⟨act, hsub, hk, hs⟩
      · simp only at e1 e2 e6
        refine ⟨⟨by rw [e1]; exact hq.state, by rw [e2]; exact hq.subs⟩, ?_⟩
        rw [e6]; intro σ hσ; cases hσ
      · have hne : e.res.possible ≠ [] := by
          rcases hk with ⟨_, _, _, h⟩ | ⟨_, _, _, h⟩
          · exact h
          · intro h0; rw [h0] at h; simp at h
        have hl := hi.live hne
        have ha : Admissible act := by
          refine ⟨fun tr htr => hl.2 tr ?_, ?_⟩
          · have := hsub tr htr
            cases hp : e.res.possible with
            | nil => rw [hp] at this; simp at this
            | cons x xs => rw [hp] at this; simp at this; rw [this]; simp
          · rcases hk with ⟨_, h, _⟩ | ⟨_, h, _⟩ <;> rw [h] <;> simp
        exact smStep_resSetup hst hl.1 ha hs
    by_cases hsuc : res'.success = true
    · simp only [hsuc, if_true]; exact key
    · simp only [hsuc]
      exact ⟨hq, key.2⟩

theorem envReach_setup {ec : EnvCfg} {st : RewardStatic} {s0 : State} (hst : Start orc inst s0) {e : EnvState}
    (h : EnvReach orc inst ec st s0 e) : ResSetup inst e.res := by
  induction h with
  | reset h => exact (envReset_setup hst h).1
  | step he h ih => exact (envStep_setup hst (envReach_inv hst he) ih h).1

/-- **Every exposed state satisfies the setup invariant.** -/
theorem exposed_setup {ec : EnvCfg} {st : RewardStatic} {s0 σ : State} (hst : Start orc inst s0)
    (h : Exposed orc inst ec st s0 σ) : SetupInv inst σ := by
  cases h with
  | state he => exact (envReach_setup hst he).state
  | sub he hσ => exact (envReach_setup hst he).subs σ hσ
  | resetMicro hr hσ => exact (envReset_setup hst hr).2 σ hσ
  | micro he hs hσ => exact (envStep_setup hst (envReach_inv hst he) (envReach_setup hst he) hs).2 σ hσ

/-! ## reading the invariant -/

/-- `p` is the finished record on machine `mid` after whose end no other finished record of that
machine starts -/
def LastDoneOn (s : State) (mid : Nat) (p : OpState) : Prop :=
  DoneOn (recs s) mid p ∧ ∀ c, DoneOn (recs s) mid c → c ≠ p → tS c < tE p

/-- a witness that is the last record or lies after it is the last record -/
theorem LastDoneOn.pick {s : State} {mid : Nat} {p : OpState} (hl : LastDoneOn s mid p) {Φ : OpState → Prop}
    (h : ∃ q, DoneOn (recs s) mid q ∧ NotBefore p q ∧ Φ q) : Φ p := by
  obtain ⟨q, hq, hnb, hΦ⟩ := h
  by_cases e : q = p
  · rw [← e]; exact hΦ
  · rcases hnb with e' | hle
    · exact absurd e' e
    · have := hl.2 q hq e
      omega

theorem tS_of {o : OpState} {x : Int} (h : o.start = some x) : tS o = x := by simp [tS, h]
theorem tE_of {o : OpState} {x : Int} (h : o.stop = some x) : tE o = x := by simp [tE, h]

/-- **Consecutive operations on one machine are separated by the setup time**, and the matrix is
read from-tool → to-tool.  In every state an episode exposes: `a` and `b` are finished operations
of one machine, `a` ended no later than `b` started (`a` is before `b`; one of the two has positive
length, which rules out the tie of two operations of length zero at one instant), no third
finished operation of that machine lies between them, and the machine's setup matrix has the
constant `d` at `(tool of a, tool of b)`.  Then `b` started at `a.stop + d` or later. -/
theorem setup_separates {ec : EnvCfg} {st : RewardStatic} {s0 σ : State} (hst : Start orc inst s0)
    (h : Exposed orc inst ec st s0 σ)
    {ja jb : JobState} (hja : ja ∈ σ.jobs) (hjb : jb ∈ σ.jobs) {a b : OpState} (ha : a ∈ ja.ops) (hb : b ∈ jb.ops)
    (hda : a.st = .done) (hdb : b.st = .done) (hm : a.machine = b.machine)
    {sa ea sb eb : Int} (hsa : a.start = some sa) (hea : a.stop = some ea) (hsb : b.start = some sb) (heb : b.stop = some eb)
    (hab : ea ≤ sb) (hpos : sa < ea ∨ sb < eb)
    (hnone : ∀ jc ∈ σ.jobs, ∀ c ∈ jc.ops, c.st = .done → c.machine = b.machine → c ≠ a → c ≠ b →
      ∀ sc ec', c.start = some sc → c.stop = some ec' → ¬ (ea ≤ sc ∧ ec' ≤ sb))
    {mc : MachineCfg} (hmc : mc ∈ inst.machines) (hmcid : mc.id = b.machine)
    {ta tb : Nat} (hta : toolOf inst a = some ta) (htb : toolOf inst b = some tb)
    {d : Int} (hd : mc.setup.lookup (ta, tb) = some (.det d)) : ea + d ≤ sb := by
  obtain ⟨_, _, t, hS⟩ := exposed_inv hst h
  have hP := exposed_setup hst h
  have haR : a ∈ recs σ := mem_recs.mpr ⟨ja, hja, ha⟩
  have hbR : b ∈ recs σ := mem_recs.mpr ⟨jb, hjb, hb⟩
  have hta' := done_times (s := { σ with time := t }) hS haR hda
  have htb' := done_times (s := { σ with time := t }) hS hbR hdb
  have e1 := tS_of hsa; have e2 := tE_of hea; have e3 := tS_of hsb; have e4 := tE_of heb
  have hne : a ≠ b := by
    intro e; subst e
    omega
  rcases hP.chain b a hbR haR hdb hda hm hne with h1 | ⟨p, hp, hpb, hnb, hsep⟩
  · omega
  · by_cases hpa : p = a
    · subst hpa
      have := hsep.2 d ⟨mc, hmc, hmcid, ta, tb, hta, htb, hd⟩
      omega
    · exfalso
      rcases hnb with e | hle
      · exact hpa e
      · obtain ⟨jc, hjc, hpc⟩ := mem_recs.mp hp.mem
        have htp := done_times (s := { σ with time := t }) hS hp.mem hp.st
        refine hnone jc hjc p hpc hp.st hp.mach hpa hpb (tS p) (tE p) htp.1 htp.2.1 ⟨by omega, ?_⟩
        have := hsep.1
        omega

/-- the operation in progress on a WORKING / OUTAGE machine started at least the constant setup
time after the last finished operation of that machine ended -/
theorem setup_separates_running {ec : EnvCfg} {st : RewardStatic} {s0 σ : State} (hst : Start orc inst s0)
    (h : Exposed orc inst ec st s0 σ) {m : MachineState} (hm : m ∈ σ.machines) (hms : m.st = .working ∨ m.st = .outage)
    {b p : OpState} (hb : ProcOn (recs σ) m.id b) (hp : LastDoneOn σ m.id p) :
    tE p ≤ tS b ∧ ∀ d, detSetup inst m.id p b d → tE p + d ≤ tS b :=
  hp.pick (Φ := fun q => Sep inst m.id q b) (((exposed_setup hst h).mach m hm).work hms b hb p hp.1)

/-- **During SETUP** the record of the accepted operation spans exactly the constant entry of the
machine's matrix at `(tool of the last finished operation, tool of the accepted operation)`, and the
machine is occupied until the end of that interval. -/
theorem setup_interval {ec : EnvCfg} {st : RewardStatic} {s0 σ : State} (hst : Start orc inst s0)
    (h : Exposed orc inst ec st s0 σ) {m : MachineState} (hm : m ∈ σ.machines) (hms : m.st = .setup)
    {b p : OpState} (hb : ProcOn (recs σ) m.id b) (hp : LastDoneOn σ m.id p) {d : Int} (hd : detSetup inst m.id p b d) :
    tE p ≤ tS b ∧ b.start = some (tS b) ∧ b.stop = some (tS b + d) ∧ m.occ = some (tS b + d) := by
  obtain ⟨w, hI, t, hS⟩ := exposed_inv hst h
  have hex : SetupExact inst m.id p b :=
    hp.pick (Φ := fun q => SetupExact inst m.id q b) (((exposed_setup hst h).mach m hm).setup hms b hb p hp.1)
  have htb := proc_times (s := { σ with time := t }) hS hb.mem hb.st
  have hE := hex.2 d hd
  have hbusy : m.st ≠ .idle := by rw [hms]; simp
  obtain ⟨j, hj, _, op, hop, hopm, hops, _⟩ := hS.busyHolds m hm hbusy
  obtain ⟨_, _, hl, _, hpst⟩ := processing?_split' hop
  have hopR : op ∈ recs σ := mem_recs.mpr ⟨j, hj, by rw [hl]; simp⟩
  have : op = b := proc_unique (s := { σ with time := t }) w (hI.time t) hS hopR hb.mem (by rw [hopm, hb.mach]) hpst hb.st
  subst this
  refine ⟨hex.1, htb.1, by rw [← hE]; exact htb.2.1, by rw [← hops, ← hE]; exact htb.2.1⟩

/-- a busy machine has mounted the tool of the operation it holds -/
theorem mounted_busy {ec : EnvCfg} {st : RewardStatic} {s0 σ : State} (hst : Start orc inst s0)
    (h : Exposed orc inst ec st s0 σ) {m : MachineState} (hm : m ∈ σ.machines) (hms : m.st ≠ .idle)
    {b : OpState} (hb : ProcOn (recs σ) m.id b) : toolOf inst b = some m.tool :=
  ((exposed_setup hst h).mach m hm).mounted hms b hb

/-- an idle machine has mounted the tool of the last operation it finished -/
theorem mounted_idle {ec : EnvCfg} {st : RewardStatic} {s0 σ : State} (hst : Start orc inst s0)
    (h : Exposed orc inst ec st s0 σ) {m : MachineState} (hm : m ∈ σ.machines) (hms : m.st = .idle)
    {p : OpState} (hp : LastDoneOn σ m.id p) : toolOf inst p = some m.tool :=
  hp.pick (Φ := fun q => toolOf inst q = some m.tool) (((exposed_setup hst h).mach m hm).mountedIdle hms p hp.1)

end JSL
