import JSL.Inv.TotalPass
import JSL.Inv.TotalApply
import JSL.Inv.TotalQueryA
import JSL.Inv.TotalQueryB

/-!
# `process_state_transitions`, the timed loop and `state.step` do not raise

For an instance of the class (`TotClass`), from a state with the invariants (`StructInv`, `SchedInv`,
`TotP`) and a batch that meets the guards (`Safe`, `Fresh`, `TotGS`):

* `process_totalT` – the batch is worked off without an exception, and no transition fails validation;
* `loop_totalT`    – the `while timed_transitions` loop returns (never "failed"), or runs out of fuel
                    (the model of a loop that does not end);
* `smStep_totalT`  – `state.step` with an admissible action returns a *successful* result, or runs
                    out of fuel.
-/

namespace JSL

variable {orc : Oracle} {inst : Instance}

theorem process_totalT (w : WF inst) (nn : NonNeg orc inst) (C : TotClass inst) (cfg : SMConfig) :
    ∀ (L : List Transition) (s : State) (r : Rng), StructInv inst s → SchedInv s → TotP inst s → Safe s L → Fresh L →
      TotGS inst s L → ∃ o, processTransitions orc inst L s r = .ok o ∧ o.nerr = 0 := by
  intro L
  induction L with
  | nil => intro s r _ _ _ _ _ _; exact ⟨⟨s, r, 0, []⟩, rfl, rfl⟩
  | cons tr L ih =>
    intro s r hI hS hP hsafe hfresh hgs
    have hV := hP.inv hI hS
    have haim := hgs.aim tr (by simp)
    have hv := valid_true w hV haim (hgs.mvalid tr (by simp))
    obtain ⟨s1, r1, ha⟩ := applies_total w C hV haim (fun hn x hx => hgs.full.claim.free tr (by simp) hn x hx) hv orc r
    have hI1 := applyTransition_struct w hI hv ha
    have hS1 := applyTransition_sched w nn hI hS hv hsafe.guard ha
    have hfr := applyTransition_frame w hI hS hsafe.guard ha
    have hP1 := (TotPass orc inst cfg w nn C).step hI hS hP hv hsafe hfresh hgs ha
    obtain ⟨o1, ho1, hn1⟩ := ih s1 r1 hI1 hS1 hP1.1 (hsafe.step hfresh hfr) (List.pairwise_cons.mp hfresh).2 hP1.2
    refine ⟨{ o1 with micro := s1 :: o1.micro }, ?_, hn1⟩
    simp only [processTransitions, hv, ha, ho1, except_bind_ok, if_true, except_pure]

theorem jumpToEvent_totalT (w : WF inst) (C : TotClass inst) {s : State} (hV : TotInv inst s) (cfg : SMConfig) :
    ∃ t, jumpToEvent inst cfg s = .ok t := by
  obtain ⟨n, hn⟩ := numPossibleEvents_totalT w C hV cfg
  unfold jumpToEvent
  simp only [hn, except_bind_ok]
  split
  · exact ⟨_, rfl⟩
  · exact forceJump_totalT hV.sched hV.shape

theorem runTimeMachine_total (w : WF inst) (C : TotClass inst) {s : State} (hV : TotInv inst s) (cfg : SMConfig)
    (tm : TimeMachine) : ∃ t, runTimeMachine inst cfg s tm = .ok t := by
  cases tm with
  | jumpByOne => exact ⟨_, rfl⟩
  | jumpToEvent => exact jumpToEvent_totalT w C hV cfg
  | forceJump => exact forceJump_totalT hV.sched hV.shape

/-- the outcome of the timed loop: returns not failed, in a state with the invariants – or out of fuel -/
def LoopGood (inst : Instance) (x : Except Err LoopOut) : Prop :=
  (∃ out, x = .ok out ∧ out.failed = false ∧ StructInv inst out.state ∧ SchedInv out.state ∧ TotP inst out.state) ∨
    x = .error .outOfFuel

theorem loop_totalT (w : WF inst) (nn : NonNeg orc inst) (C : TotClass inst) (cfg : SMConfig) :
    ∀ (fuel : Nat) (tt : List Transition) (s : State) (r : Rng) (subs mic : List State),
      StructInv inst s → SchedInv s → TotP inst s → Safe s tt → Fresh tt → TotGS inst s tt →
      LoopGood inst (timedLoop orc inst cfg fuel tt s r subs mic) := by
  intro fuel
  induction fuel with
  | zero =>
    intro tt s r subs mic hI hS hP _ _ _
    cases tt with
    | nil => exact Or.inl ⟨_, rfl, rfl, hI, hS, hP⟩
    | cons a as => exact Or.inr rfl
  | succ n ih =>
    intro tt s r subs mic hI hS hP hsafe hfresh hgs
    cases tt with
    | nil => exact Or.inl ⟨_, rfl, rfl, hI, hS, hP⟩
    | cons a as =>
      let ps := TotPass orc inst cfg w nn C
      obtain ⟨o, ho, hn⟩ := process_totalT w nn C cfg (a :: as) s r hI hS hP hsafe hfresh hgs
      have hp := processTransitions_sched w nn _ _ _ _ hI hS hsafe hfresh ho
      have hpI := processTransitions_struct w _ _ _ _ hI ho
      have hpP := ps.process w nn _ _ _ _ hI hS hP hsafe hfresh hgs ho
      have hVo : TotInv inst o.state := TotP.inv hpP.1 hpI.1 hp.1
      obtain ⟨t, ht⟩ := jumpToEvent_totalT w C hVo cfg
      have hadv := jumpToEvent_spec hp.1 ht
      have hS' := hp.1.advance hadv.1 hadv.2
      have hI' := hpI.1.time t
      have hP' := ps.advance hpI.1 hp.1 hpP.1 hadv.1 hadv.2
      obtain ⟨tt', htt'⟩ := timedTransitions_totalT w (TotP.inv hP' hI' hS')
      have hsf := timed_batch_safe w (tele := []) hI' hS' htt' (by simp)
      simp only [List.append_nil] at hsf
      have hrec := ih tt' { o.state with time := t } o.rng (subs ++ [{ o.state with time := t }]) (mic ++ o.micro)
        hI' hS' hP' hsf.1 hsf.2 (ps.timedOnly hI' hS' hP' htt')
      have e : timedLoop orc inst cfg (n + 1) (a :: as) s r subs mic =
          timedLoop orc inst cfg n tt' { o.state with time := t } o.rng (subs ++ [{ o.state with time := t }])
            (mic ++ o.micro) := by
        simp only [timedLoop, ho, except_bind_ok, hn, ht, htt']
        simp
      rw [e]
      exact hrec

/-- the outcome of `state.step`: a successful result – or out of fuel -/
def StepGood (x : Except Err (SMResult × Rng × List State)) : Prop :=
  (∃ res r' mic, x = .ok (res, r', mic) ∧ res.success = true) ∨ x = .error .outOfFuel

/-- **`state.step` does not raise** (and does not fail) for an instance of the class -/
theorem smStep_totalT (w : WF inst) (nn : NonNeg orc inst) (C : TotClass inst) {cfg : SMConfig} {fuel : Nat}
    {s0 : State} {r : Rng} {a : Action} (hI : StructInv inst s0) (hS : SchedInv s0) (hP : TotP inst s0)
    (ha : Admissible a) (hadm : AdmOffer inst cfg s0 a) : StepGood (smStep orc inst cfg fuel s0 r a) := by
  let ps := TotPass orc inst cfg w nn C
  have hsf := offerShaped_safe (s := s0) (L := sortedByTransport a.transitions)
    (fun tr htr => ha.shaped tr (mem_sortedByTransport htr))
  have hgs0 := ps.action hI hS hP hadm
  obtain ⟨p, hp, hn⟩ := process_totalT w nn C cfg _ s0 r hI hS hP hsf.1 hsf.2 hgs0
  have hp' := processTransitions_sched w nn _ _ _ _ hI hS hsf.1 hsf.2 hp
  have hpI := processTransitions_struct w _ _ _ _ hI hp
  have hpP := ps.process w nn _ _ _ _ hI hS hP hsf.1 hsf.2 hgs0 hp
  have hVp : TotInv inst p.state := TotP.inv hpP.1 hpI.1 hp'.1
  obtain ⟨t, ht⟩ := runTimeMachine_total w C hVp cfg a.tm
  have hadv := runTimeMachine_spec hp'.1 ha.tm ht
  have hS1 := hp'.1.advance hadv.1 hadv.2
  have hI1 := hpI.1.time t
  have hP1 := ps.advance hpI.1 hp'.1 hpP.1 hadv.1 hadv.2
  have hV1 : TotInv inst { p.state with time := t } := TotP.inv hP1 hI1 hS1
  obtain ⟨timed, htimed⟩ := timedTransitions_totalT w hV1
  obtain ⟨poss, hposs⟩ := possibleTransitions_totalT w C hV1 cfg
  obtain ⟨tele, htele⟩ := filterTeleport_totalT w C hV1 hposs orc p.rng
  have hbatch := timed_batch_safe w hI1 hS1 htimed (filterTeleport_shape hposs htele)
  have hloop := loop_totalT w nn C cfg fuel (timed ++ tele) { p.state with time := t } p.rng [p.state] p.micro
    hI1 hS1 hP1 hbatch.1 hbatch.2 (ps.timed hI1 hS1 hP1 htimed hposs htele)
  unfold smStep
  simp only [hp, except_bind_ok, hn, ht, htimed, hposs, htele]
  rcases hloop with ⟨out, hout, hnf, hIo, hSo, hPo⟩ | herr
  · simp only [hout, except_bind_ok, hnf]
    by_cases hd : isDone inst out.state = true
    · obtain ⟨e, he⟩ := lastDoneEnd_totalT hSo
      left
      simp [hd, he]
    · obtain ⟨poss', hposs'⟩ := possibleTransitions_totalT w C (TotP.inv hPo hIo hSo) cfg
      left
      simp [hd, hposs']
  · right
    simp [herr]

end JSL
