import JSL.Inv.MachineSteps
import JSL.Inv.SpecAgv

/-!
# Structural invariants are preserved by the AGV handlers
-/

namespace JSL

variable {orc : Oracle} {inst : Instance}

/-- replacing a transport by one with the same keys and buffer content: nothing moves -/
theorem replaceTransport_same_struct (w : WF inst) {s : State} (hI : StructInv inst s) {t t' : TransportState}
    (ht : t ∈ s.transports) (hk : tKey t' = tKey t) (hst : t'.buffer.store = t.buffer.store) :
    StructInv inst (s.replaceTransport t') := by
  have hsame : Same s (s.replaceTransport t') := {
    store := storeAt_replaceTransport_same hI.shape w ht hk hst
    locs := rfl }
  exact ⟨hI.shape.replaceTransport w ht hk, hsame.conserved hI.cons, hsame.cap hI.cap⟩

theorem idleToWorking_struct (w : WF inst) {s s' : State} {r r' : Rng} {tr : Transition} {t : TransportState}
    (hI : StructInv inst s) (ht : t ∈ s.transports)
    (h : handleAgvIdleToWorking orc inst s r tr t = .ok (s', r')) : StructInv inst s' := by
  obtain ⟨j, cur, target, src, bc, c, _, _, _, _, _, _, _, _, _, rfl⟩ := idleToWorking_spec h
  exact replaceTransport_same_struct w hI ht (by simp [tKey, TransportState.toPickup]) rfl

theorem pickupToWaiting_struct (w : WF inst) {s s' : State} {r r' : Rng} {tr : Transition} {t : TransportState}
    (hI : StructInv inst s) (ht : t ∈ s.transports)
    (h : handleAgvPickupToWaiting inst s r tr t = .ok (s', r')) : StructInv inst s' := by
  obtain ⟨occ, _, _, _, rfl⟩ := pickupToWaiting_spec h
  exact replaceTransport_same_struct w hI ht (by simp [tKey, TransportState.toWaiting]) rfl

theorem waitingToWaiting_struct (w : WF inst) {s s' : State} {r r' : Rng} {tr : Transition} {t : TransportState}
    (hI : StructInv inst s) (ht : t ∈ s.transports)
    (h : handleAgvWaitingToWaiting inst s r tr t = .ok (s', r')) : StructInv inst s' := by
  obtain ⟨occ, _, _, rfl⟩ := waitingToWaiting_spec h
  exact replaceTransport_same_struct w hI ht (by simp [tKey, TransportState.toWaiting]) rfl

theorem agvOutageToIdle_struct (w : WF inst) {s s' : State} {r r' : Rng} {t : TransportState}
    (hI : StructInv inst s) (ht : t ∈ s.transports)
    (h : handleAgvOutageToIdle s r t = .ok (s', r')) : StructInv inst s' := by
  obtain ⟨_, rfl⟩ := agvOutageToIdle_spec h
  exact replaceTransport_same_struct w hI ht (by simp [tKey, TransportState.toIdle]) rfl

theorem at_jKey (j : JobState) (l : Nat) : jKey (j.at l) = jKey j := rfl

theorem mem_allBufCfgs_of_transport {tc : TransportCfg} (h : tc ∈ inst.transports) : tc.buf ∈ allBufCfgs inst := by
  simp only [allBufCfgs, List.mem_append, List.mem_map]
  exact Or.inr ⟨tc, h, rfl⟩

theorem room_of_id (w : WF inst) {i : Nat} {n : Int} (h : ∃ c ∈ allBufCfgs inst, c.id = i ∧ n < c.cap) :
    ∀ c ∈ allBufCfgs inst, c.id = i → n < c.cap := by
  obtain ⟨c0, hc0, hid0, hn⟩ := h
  intro c hc hid
  have : c = c0 := eq_of_mem_of_key_eq (key := fun (y : BufCfg) => y.id) w.bufNodup hc hc0 (by rw [hid, hid0])
  rw [this]; exact hn

theorem pickupToTransit_struct (w : WF inst) {s s' : State} {r r' : Rng} {tr : Transition} {t : TransportState}
    (hI : StructInv inst s) (ht : t ∈ s.transports)
    (h : handleAgvPickupToTransit orc inst s r tr t = .ok (s', r')) : StructInv inst s' := by
  obtain ⟨j, src, dst, tt, bss1, bss2, hj, htj, _, _, hroom, hcase⟩ := pickupToTransit_spec h
  have hs := hI.shape
  have hparts := ids_parts hs w
  have htb : storeAt s t.buffer.id = t.buffer.store := storeAt_of_mem (hs.bufNodup w) (mem_allBufs_of_transport ht)
  have htk : tKey (t.toTransit (s.time + tt) j.id bss2) = tKey t := by simp [tKey, TransportState.toTransit]
  rcases hcase with ⟨fb, _, _, hfb, hfid, hin, rfl⟩ | ⟨mid, ms, bs, ms', _, _, hms, _, hbs, hin, hms', rfl⟩
  · -- from a standalone buffer
    have hfs : storeAt s fb.id = fb.store := storeAt_of_mem (hs.bufNodup w) (mem_allBufs_of_buffer hfb)
    have hs1 := hs.replaceBuffer w hfb (b' := fb.without j.id bss1) rfl
    have hs2 := hs1.replaceJob w (s := s.replaceBuffer _) hj (at_jKey j t.buffer.id)
    have hs3 := hs2.replaceTransport w (s := (s.replaceBuffer _).replaceJob _) ht htk
    have hne : fb.id ≠ t.buffer.id := hparts.2.1 fb hfb t ht
    have hmv : Moved s _ j.id fb.id t.buffer.id := {
      ne := hne
      was := hI.cons.stored _ _ (by rw [hfs]; exact hin)
      storeA := by
        rw [storeAt_replaceTransport hs2 w (s := (s.replaceBuffer _).replaceJob _) ht htk, if_neg hne,
          storeAt_replaceJob, storeAt_replaceBuffer hs w hfb (b' := fb.without j.id bss1) rfl]
        simp [hfs]
      storeB := by
        rw [storeAt_replaceTransport hs2 w (s := (s.replaceBuffer _).replaceJob _) ht htk]
        simp [TransportState.toTransit, htb]
      storeO := by
        intro i hia hib
        rw [storeAt_replaceTransport hs2 w (s := (s.replaceBuffer _).replaceJob _) ht htk, if_neg hib,
          storeAt_replaceJob, storeAt_replaceBuffer hs w hfb (b' := fb.without j.id bss1) rfl, if_neg hia]
      locs := by simp [locs_replaceJob] }
    refine ⟨hs3, hmv.conserved (hs.jobsNodup w) hI.cons, hmv.cap ?_ hI.cap⟩
    rw [htb]; exact room_of_id w hroom
  · -- from a machine buffer
    obtain ⟨hbid, hbwhich⟩ := bufOfMachine_ok hbs
    have hmb := mem_allBufs_of_machine hms
    have hne3 := machine_buf_ids_ne hs w hms
    have hbmem : bs ∈ allBufStates s := by rcases hbwhich with rfl | rfl | rfl <;> simp [hmb]
    have hbst : storeAt s bs.id = bs.store := storeAt_of_mem (hs.bufNodup w) hbmem
    have hmk : mKey ms' = mKey ms := by
      unfold replaceBufInMachine at hms'
      rcases hbwhich with rfl | rfl | rfl
      · simp at hms'; subst hms'; simp [mKey]
      · simp [hne3.1.symm] at hms'; subst hms'; simp [mKey]
      · simp [hne3.2.1.symm, hne3.2.2.symm] at hms'; subst hms'; simp [mKey]
    have hstores : ∀ i, storeAt (s.replaceMachine ms') i =
        if i = bs.id then bs.store.filter (· != j.id) else storeAt s i := by
      intro i
      rw [storeAt_replaceMachine hs w hms hmk]
      unfold replaceBufInMachine at hms'
      have hp := storeAt_of_mem (hs.bufNodup w) hmb.1
      have hb := storeAt_of_mem (hs.bufNodup w) hmb.2.1
      have hq := storeAt_of_mem (hs.bufNodup w) hmb.2.2
      rcases hbwhich with rfl | rfl | rfl
      · simp at hms'; subst hms'
        by_cases h1 : i = ms.pre.id
        · simp [h1]
        · simp only [h1, if_false]
          split
          · rename_i h2; rw [h2]; exact hb.symm
          · split
            · rename_i h2; rw [h2]; exact hq.symm
            · rfl
      · simp [hne3.1.symm] at hms'; subst hms'
        by_cases h1 : i = ms.pre.id
        · simp [h1, hne3.1, hp]
        · simp only [h1, if_false]
          by_cases h2 : i = ms.buffer.id
          · simp [h2]
          · simp only [h2, if_false]
            split
            · rename_i h3; rw [h3]; exact hq.symm
            · rfl
      · simp [hne3.2.1.symm, hne3.2.2.symm] at hms'; subst hms'
        by_cases h1 : i = ms.pre.id
        · simp [h1, hne3.2.1, hp]
        · simp only [h1, if_false]
          by_cases h2 : i = ms.buffer.id
          · simp [h2, hne3.2.2, hb]
          · simp only [h2, if_false]
            by_cases h3 : i = ms.post.id
            · simp [h3]
            · simp [h3]
    have hs1 := hs.replaceMachine w hms hmk
    have hs2 := hs1.replaceJob w (s := s.replaceMachine _) hj (at_jKey j t.buffer.id)
    have hs3 := hs2.replaceTransport w (s := (s.replaceMachine _).replaceJob _) ht htk
    have hne : bs.id ≠ t.buffer.id := by
      have := hparts.2.2 ms hms t ht
      rcases hbwhich with rfl | rfl | rfl
      · exact this.1
      · exact this.2.1
      · exact this.2.2
    have hmv : Moved s _ j.id bs.id t.buffer.id := {
      ne := hne
      was := hI.cons.stored _ _ (by rw [hbst]; exact hin)
      storeA := by
        rw [storeAt_replaceTransport hs2 w (s := (s.replaceMachine _).replaceJob _) ht htk, if_neg hne,
          storeAt_replaceJob, hstores]
        simp [hbst]
      storeB := by
        rw [storeAt_replaceTransport hs2 w (s := (s.replaceMachine _).replaceJob _) ht htk]
        simp [TransportState.toTransit, htb]
      storeO := by
        intro i hia hib
        rw [storeAt_replaceTransport hs2 w (s := (s.replaceMachine _).replaceJob _) ht htk, if_neg hib,
          storeAt_replaceJob, hstores, if_neg hia]
      locs := by simp [locs_replaceJob] }
    refine ⟨hs3, hmv.conserved (hs.jobsNodup w) hI.cons, hmv.cap ?_ hI.cap⟩
    rw [htb]; exact room_of_id w hroom

theorem transitToOutage_struct (w : WF inst) {s s' : State} {r r' : Rng} {tr : Transition} {t : TransportState}
    (hI : StructInv inst s) (ht : t ∈ s.transports)
    (h : handleAgvTransitToOutage orc inst s r tr t = .ok (s', r')) : StructInv inst s' := by
  obtain ⟨j, cur, pick, drop, tc, outs, bss1, bss2, hj, htj, _, hin, _, _, _, hcase⟩ := transitToOutage_spec h
  have hs := hI.shape
  have hparts := ids_parts hs w
  have htb : storeAt s t.buffer.id = t.buffer.store := storeAt_of_mem (hs.bufNodup w) (mem_allBufs_of_transport ht)
  have htk : tKey (t.toOutage j.id bss1 outs (s.time + occupiedFor outs) drop) = tKey t := by
    simp [tKey, TransportState.toOutage]
  rcases hcase with ⟨mid, ms, _, hms, _, hroom, rfl⟩ | ⟨bid, b, _, hb, _, hroom, rfl⟩
  · have hmb := mem_allBufs_of_machine hms
    have hne3 := machine_buf_ids_ne hs w hms
    have hpre : storeAt s ms.pre.id = ms.pre.store := storeAt_of_mem (hs.bufNodup w) hmb.1
    have hbuf : storeAt s ms.buffer.id = ms.buffer.store := storeAt_of_mem (hs.bufNodup w) hmb.2.1
    have hpost : storeAt s ms.post.id = ms.post.store := storeAt_of_mem (hs.bufNodup w) hmb.2.2
    have hs1 := hs.replaceJob w hj (at_jKey j ms.pre.id)
    have hs2 := hs1.replaceTransport w (s := s.replaceJob _) ht htk
    have hmk : mKey (ms.withPre j.id bss2) = mKey ms := by simp [mKey, MachineState.withPre]
    have hs3 := hs2.replaceMachine w (s := (s.replaceJob _).replaceTransport _) hms hmk
    have hne : t.buffer.id ≠ ms.pre.id := (hparts.2.2 ms hms t ht).1.symm
    have hmv : Moved s _ j.id t.buffer.id ms.pre.id := {
      ne := hne
      was := hI.cons.stored _ _ (by rw [htb]; exact hin)
      storeA := by
        rw [storeAt_replaceMachine hs2 w (s := (s.replaceJob _).replaceTransport _) hms hmk]
        have h2 := (hparts.2.2 ms hms t ht)
        simp only [if_neg hne, if_neg h2.2.1.symm, if_neg h2.2.2.symm]
        rw [storeAt_replaceTransport hs1 w (s := s.replaceJob _) ht htk]
        simp [TransportState.toOutage, htb]
      storeB := by
        rw [storeAt_replaceMachine hs2 w (s := (s.replaceJob _).replaceTransport _) hms hmk]
        simp [MachineState.withPre, hpre]
      storeO := by
        intro i hia hib
        rw [storeAt_replaceMachine hs2 w (s := (s.replaceJob _).replaceTransport _) hms hmk, if_neg hib]
        have e : ∀ k, storeAt ((s.replaceJob (j.at ms.pre.id)).replaceTransport
            (t.toOutage j.id bss1 outs (s.time + occupiedFor outs) drop)) k =
            if k = t.buffer.id then t.buffer.store.filter (· != j.id) else storeAt s k := by
          intro k
          rw [storeAt_replaceTransport hs1 w (s := s.replaceJob _) ht htk]
          simp [TransportState.toOutage]
        split
        · rename_i h2; rw [h2]; simp [MachineState.withPre, hbuf]
        · split
          · rename_i h3; rw [h3]; simp [MachineState.withPre, hpost]
          · rw [e, if_neg hia]
      locs := by simp [locs_replaceJob] }
    refine ⟨hs3, hmv.conserved (hs.jobsNodup w) hI.cons, hmv.cap ?_ hI.cap⟩
    rw [hpre]; exact room_of_id w hroom
  · have hbs : storeAt s b.id = b.store := storeAt_of_mem (hs.bufNodup w) (mem_allBufs_of_buffer hb)
    have hs1 := hs.replaceJob w hj (at_jKey j b.id)
    have hs2 := hs1.replaceTransport w (s := s.replaceJob _) ht htk
    have hs3 := hs2.replaceBuffer w (s := (s.replaceJob _).replaceTransport _) hb (b' := b.withBack j.id bss2) rfl
    have hne : t.buffer.id ≠ b.id := (hparts.2.1 b hb t ht).symm
    have e : ∀ k, storeAt ((s.replaceJob (j.at b.id)).replaceTransport
        (t.toOutage j.id bss1 outs (s.time + occupiedFor outs) drop)) k =
        if k = t.buffer.id then t.buffer.store.filter (· != j.id) else storeAt s k := by
      intro k
      rw [storeAt_replaceTransport hs1 w (s := s.replaceJob _) ht htk]
      simp [TransportState.toOutage]
    have hmv : Moved s _ j.id t.buffer.id b.id := {
      ne := hne
      was := hI.cons.stored _ _ (by rw [htb]; exact hin)
      storeA := by
        rw [storeAt_replaceBuffer hs2 w (s := (s.replaceJob _).replaceTransport _) hb (b' := b.withBack j.id bss2) rfl,
          if_neg hne, e]
        simp [htb]
      storeB := by
        rw [storeAt_replaceBuffer hs2 w (s := (s.replaceJob _).replaceTransport _) hb (b' := b.withBack j.id bss2) rfl]
        simp [hbs]
      storeO := by
        intro i hia hib
        rw [storeAt_replaceBuffer hs2 w (s := (s.replaceJob _).replaceTransport _) hb (b' := b.withBack j.id bss2) rfl,
          if_neg hib, e, if_neg hia]
      locs := by simp [locs_replaceJob] }
    refine ⟨hs3, hmv.conserved (hs.jobsNodup w) hI.cons, hmv.cap ?_ hI.cap⟩
    rw [hbs]; exact room_of_id w hroom

end JSL
