import JSL.Inv.ClassicCases

/-!
# The classic invariant (settledness) and the enabledness of the transitions of a batch

`CInv inst s` – what holds, beyond the structural / schedule / AGV invariants, in every state of
every episode of a classic instance run with `allowEarly = false`:

* AGVs: no time dependency, never in the state `WORKING`; a dispatched AGV (PICKUP /
  WAITINGPICKUP) claims a job that lies at a pickup place; **a busy AGV is due now** (its
  `occupied_till` is a time that has been reached: transport costs nothing); a parked AGV stands
  at a place of the shop;
* jobs: a job lying in a standalone buffer that is not an output buffer still has an idle record;
* machines: **a machine in SETUP or OUTAGE is due now** (no setup time, no outage time) and the
  record of a job being set up has start = end.

`En inst s tr` – transition `tr` is what the timed-transition builders (or the teleport filter)
produce for its component in state `s`; `EnGS` is the batch-level condition (all enabled, different
components, dispatches for different jobs).
-/

namespace JSL

variable {orc : Oracle} {inst : Instance}

structure CInv (inst : Instance) (s : State) : Prop where
  noDep : ∀ t ∈ s.transports, ∀ b j tr, t.occ ≠ .dep b j tr
  noWorking : ∀ t ∈ s.transports, t.st ≠ .working
  claimed : ∀ t ∈ s.transports, t.st = .pickup ∨ t.st = .waitingpickup →
    ∃ j ∈ s.jobs, t.job = some j.id ∧ j.loc ∈ pickupPlaces inst
  agvDue : ∀ t ∈ s.transports, t.st ≠ .idle → ∃ c, t.occ = .at c ∧ c ≤ s.time
  parked : ∀ t ∈ s.transports, t.st = .idle ∨ t.st = .outage → ∃ l, t.loc = .at l ∧ l ∈ locsOf inst
  fresh : ∀ j ∈ s.jobs, j.loc ∈ inst.buffers.map (·.id) → j.loc ∉ outputIds inst → ∃ o, j.nextIdle? = some o
  machDue : ∀ m ∈ s.machines, m.st = .setup ∨ m.st = .outage → ∃ c, m.occ = some c ∧ c ≤ s.time
  setupRec : ∀ m ∈ s.machines, m.st = .setup → ∀ j ∈ s.jobs, ∀ o ∈ j.ops, o.st = .processing →
    o.machine = m.id → o.start = o.stop

theorem CInv.time {s : State} (h : CInv inst s) {t : Int} (hle : s.time ≤ t) : CInv inst { s with time := t } :=
  ⟨h.noDep, h.noWorking, h.claimed,
   fun x hx hb => by obtain ⟨c, h1, h2⟩ := h.agvDue x hx hb; exact ⟨c, h1, Int.le_trans h2 hle⟩,
   h.parked, h.fresh,
   fun m hm hb => by obtain ⟨c, h1, h2⟩ := h.machDue m hm hb; exact ⟨c, h1, Int.le_trans h2 hle⟩,
   h.setupRec⟩

/-- transition `tr` is enabled in `s`: it is the next timed transition of its component, or a
dispatch of an idle AGV to an unclaimed job at a pickup place, or a machine start (about which
nothing is said here: machine starts only occur as the single transition of an action) -/
inductive En (inst : Instance) (s : State) : Transition → Prop
  | start (tr : Transition) : tr.new = .m .setup → En inst s tr
  | mWork (m : MachineState) (x : Nat) : m ∈ s.machines → m.st = .setup → m.buffer.store = [x] →
      En inst s ⟨.m m.id, .m .working, some x⟩
  | mOut (m : MachineState) (x : Nat) : m ∈ s.machines → m.st = .working → m.buffer.store = [x] →
      En inst s ⟨.m m.id, .m .outage, some x⟩
  | mIdle (m : MachineState) (x : Nat) : m ∈ s.machines → m.st = .outage → m.buffer.store = [x] →
      En inst s ⟨.m m.id, .m .idle, some x⟩
  | dispatch (t : TransportState) (j : JobState) : t ∈ s.transports → t.st = .idle → j ∈ s.jobs →
      j.loc ∈ pickupPlaces inst → (∀ t' ∈ s.transports, t'.job ≠ some j.id) →
      En inst s ⟨.t t.id, .t .working, some j.id⟩
  | wait (t : TransportState) (j : JobState) : t ∈ s.transports → t.st = .pickup → j ∈ s.jobs →
      t.job = some j.id → En inst s ⟨.t t.id, .t .waitingpickup, some j.id⟩
  | pick (t : TransportState) (j : JobState) : t ∈ s.transports → t.st = .waitingpickup → j ∈ s.jobs →
      t.job = some j.id → En inst s ⟨.t t.id, .t .transit, some j.id⟩
  | deliver (t : TransportState) (j : JobState) : t ∈ s.transports → t.st = .transit → j ∈ s.jobs →
      t.buffer.store = [j.id] → En inst s ⟨.t t.id, .t .outage, some j.id⟩
  | release (t : TransportState) : t ∈ s.transports → t.st = .outage → En inst s ⟨.t t.id, .t .idle, none⟩

/-- two transitions of one batch: different components, and two dispatches are for different jobs -/
def Apart (a b : Transition) : Prop :=
  a.comp ≠ b.comp ∧ (a.new = .t .working → b.new = .t .working → a.job ≠ b.job)

structure EnGS (inst : Instance) (s : State) (L : List Transition) : Prop where
  en : ∀ tr ∈ L, En inst s tr
  apart : L.Pairwise Apart
  /-- a machine start is alone in its batch -/
  alone : ∀ tr ∈ L, tr.new = .m .setup → L.length ≤ 1

theorem EnGS.tail {s : State} {tr : Transition} {R : List Transition} (h : EnGS inst s (tr :: R)) : EnGS inst s R :=
  ⟨fun t ht => h.en t (by simp [ht]), (List.pairwise_cons.mp h.apart).2,
   fun t ht hn => by have := h.alone t (by simp [ht]) hn; simp at this; subst this; simp⟩

theorem EnGS.nil (s : State) : EnGS inst s [] where
  en := fun _ h => nomatch h
  apart := List.Pairwise.nil
  alone := fun _ h => nomatch h

/-- what one enabled transition (not a machine start) leaves untouched -/
structure EnFrame (s s' : State) (a : Transition) : Prop where
  machines : ∀ m ∈ s.machines, a.comp ≠ .m m.id →
    ∃ m' ∈ s'.machines, m'.id = m.id ∧ m'.st = m.st ∧ m'.buffer.store = m.buffer.store ∧ m'.occ = m.occ
  transports : ∀ t ∈ s.transports, a.comp ≠ .t t.id → t ∈ s'.transports
  jobs : ∀ j ∈ s.jobs, ∃ j' ∈ s'.jobs, j'.id = j.id ∧ (a.job ≠ some j.id → j' = j)
  claims : ∀ t' ∈ s'.transports, ∀ x, t'.job = some x →
    (∃ t ∈ s.transports, t.job = some x) ∨ (a.new = .t .working ∧ a.job = some x)

/-- the bundle of invariants carried through a step of a classic instance -/
structure Bundle (inst : Instance) (s : State) : Prop where
  full : AgvFull inst s
  ready : Ready inst s
  cinv : CInv inst s

end JSL
