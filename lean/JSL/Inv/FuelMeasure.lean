import JSL.Model.FuelBound
import JSL.Inv.TotalStep
import JSL.Inv.ClassicFrame

/-!
# The measure behind the fuel bound

`fbM s = 2·(machine stages) + (AGV stages) + (AGVs that are behind)`:

* `fbMach` – `SETUP = 3, WORKING = 2, OUTAGE = 1, IDLE = 0`, summed over the machines;
* `fbAgv`  – `PICKUP = 4, WAITINGPICKUP = 3, TRANSIT = 2, OUTAGE = 1, IDLE = 0`, summed over the AGVs;
* `fbNu`   – the number of AGVs in `WAITINGPICKUP` whose wake-up time lies strictly before the
  `occupied_till` of the machine in whose internal buffer the job they claimed lies (`fbLate`).

`fb_step`: every applied transition that is neither a machine start nor a dispatch does not raise
`fbM`, and lowers it unless it is a `WAITINGPICKUP → WAITINGPICKUP` of an AGV that is not behind.
-/

namespace JSL

variable {orc : Oracle} {inst : Instance}

/-! ## definitions -/

def fbStageT : TSt → Nat
  | .idle => 0 | .working => 4 | .pickup => 4 | .waitingpickup => 3 | .transit => 2 | .outage => 1

/-- the AGV waits for a job in the internal buffer of a machine that is occupied beyond the time
the AGV wakes up at -/
def fbLate (ms : List MachineState) (t : TransportState) : Bool :=
  t.st == .waitingpickup && ms.any fun m =>
    match t.job, t.occ, m.occ with
    | some x, .at e', some e => m.buffer.store.contains x && decide (e' < e)
    | _, _, _ => false

def fbMach (s : State) : Nat := (s.machines.map fun m => stageM m.st).sum
def fbAgv (s : State) : Nat := (s.transports.map fun t => fbStageT t.st).sum
def fbNu (s : State) : Nat := (s.transports.map fun t => (fbLate s.machines t).toNat).sum

/-- the measure -/
def fbM (s : State) : Nat := 2 * fbMach s + fbAgv s + fbNu s

theorem fbM_time (s : State) (t : Int) : fbM { s with time := t } = fbM s := rfl

theorem fbNu_le (s : State) : fbNu s ≤ s.transports.length := by
  have := sum_map_le_mul s.transports (fun t => (fbLate s.machines t).toNat) 1
    (fun t => by cases fbLate s.machines t <;> simp)
  unfold fbNu
  omega

/-- the measure is bounded by the size of the instance -/
theorem fbM_le {s : State} (hs : Shape inst s) : fbM s + 2 ≤ fuelBound inst := by
  have e1 : s.machines.length = inst.machines.length := by
    have := congrArg List.length hs.machines; simpa using this
  have e2 : s.transports.length = inst.transports.length := by
    have := congrArg List.length hs.transports; simpa using this
  have h1 := sum_map_le_mul s.machines (fun m => stageM m.st) 3 (fun m => by cases m.st <;> simp [stageM])
  have h2 := sum_map_le_mul s.transports (fun t => fbStageT t.st) 4 (fun t => by cases t.st <;> simp [fbStageT])
  have h3 := fbNu_le s
  unfold fbM fuelBound fbMach fbAgv
  rw [e1] at h1
  rw [e2] at h2 h3
  omega

/-! ## list lemmas -/

theorem fb_sum_le {α} (l : List α) (f g : α → Nat) (h : ∀ x ∈ l, f x ≤ g x) : (l.map f).sum ≤ (l.map g).sum := by
  induction l with
  | nil => simp
  | cons x xs ih =>
    simp only [List.map_cons, List.sum_cons]
    have := h x (by simp)
    have := ih (fun y hy => h y (by simp [hy]))
    omega

theorem fb_sum_zero {α} (l : List α) (f : α → Nat) (h : ∀ x ∈ l, f x = 0) : (l.map f).sum = 0 := by
  induction l with
  | nil => simp
  | cons x xs ih =>
    simp only [List.map_cons, List.sum_cons]
    have := h x (by simp)
    have := ih (fun y hy => h y (by simp [hy]))
    omega

theorem fb_sum_add {α} (l : List α) (f g : α → Nat) :
    (l.map fun x => f x + g x).sum = (l.map f).sum + (l.map g).sum := by
  induction l with
  | nil => simp
  | cons x xs ih =>
    simp only [List.map_cons, List.sum_cons, ih]
    omega

/-- at most one element of a list with pairwise different keys has a property that fixes the key -/
theorem fb_count_le_one {α} {key : α → Nat} {l : List α} (hnd : (l.map key).Nodup) (p : α → Bool)
    (h : ∀ a ∈ l, ∀ b ∈ l, p a = true → p b = true → key a = key b) : (l.map fun t => (p t).toNat).sum ≤ 1 := by
  induction l with
  | nil => simp
  | cons x xs ih =>
    simp only [List.map_cons, List.nodup_cons, List.mem_map, not_exists, not_and] at hnd
    simp only [List.map_cons, List.sum_cons]
    have ih' := ih hnd.2 (fun a ha b hb => h a (by simp [ha]) b (by simp [hb]))
    cases hp : p x with
    | false => simpa using ih'
    | true =>
      have hall : ∀ y ∈ xs, (p y).toNat = 0 := by
        intro y hy
        cases hpy : p y with
        | false => rfl
        | true => exact absurd (h x (by simp) y (by simp [hy]) hp hpy).symm (hnd.1 y hy)
      have hz := fb_sum_zero xs (fun t => (p t).toNat) hall
      rw [hz]
      simp

/-- replace-by-key under two weights: `f` after, `g` before -/
theorem fb_sum_replace_le {α} {key : α → Nat} {l : List α} (hnd : (l.map key).Nodup) {a a' : α} (ha : a ∈ l)
    (hk : key a' = key a) (f g : α → Nat) (hfg : ∀ x ∈ l, key x ≠ key a → f x ≤ g x) :
    ((l.map (fun y => if key y == key a' then a' else y)).map f).sum + g a ≤ (l.map g).sum + f a' := by
  induction l with
  | nil => cases ha
  | cons x xs ih =>
    simp only [List.map_cons, List.nodup_cons, List.mem_map, not_exists, not_and] at hnd
    simp only [List.map_cons, List.sum_cons]
    rcases List.mem_cons.mp ha with rfl | ha'
    · have hid : xs.map (fun y => if key y == key a' then a' else y) = xs := by
        have : ∀ y ∈ xs, (fun y => if key y == key a' then a' else y) y = id y := by
          intro y hy
          have := hnd.1 y hy
          simp [hk, this]
        rw [List.map_congr_left this, List.map_id]
      rw [hid]
      have e : (if key a == key a' then a' else a) = a' := by simp [hk]
      rw [e]
      have hrest : (xs.map f).sum ≤ (xs.map g).sum :=
        fb_sum_le xs f g (fun y hy => hfg y (by simp [hy]) (fun e' => hnd.1 y hy e'))
      omega
    · have hne : key x ≠ key a' := by
        intro e
        exact hnd.1 a ha' (by rw [e, hk])
      have := ih hnd.2 ha' (fun y hy => hfg y (by simp [hy]))
      have e : (if key x == key a' then a' else x) = x := by simp [hne]
      rw [e]
      have := hfg x (by simp) (by rw [← hk]; exact hne)
      omega

theorem fbLate_elim {ms : List MachineState} {t : TransportState} (h : fbLate ms t = true) :
    t.st = .waitingpickup ∧ ∃ m ∈ ms, ∃ x e' e, t.job = some x ∧ t.occ = .at e' ∧ m.occ = some e ∧
      x ∈ m.buffer.store ∧ e' < e := by
  unfold fbLate at h
  simp only [Bool.and_eq_true, List.any_eq_true, beq_iff_eq] at h
  obtain ⟨h1, m, hm, hf⟩ := h
  refine ⟨h1, m, hm, ?_⟩
  cases hj : t.job with
  | none => simp [hj] at hf
  | some x =>
    cases hocc : t.occ with
    | none => simp [hj, hocc] at hf
    | dep a b c => simp [hj, hocc] at hf
    | «at» e' =>
      cases hmo : m.occ with
      | none => simp [hj, hocc, hmo] at hf
      | some e =>
        simp only [hj, hocc, hmo, Bool.and_eq_true, List.contains_iff_mem, decide_eq_true_eq] at hf
        exact ⟨x, e', e, rfl, rfl, rfl, hf.1, hf.2⟩

theorem fbLate_intro {ms : List MachineState} {t : TransportState} (hst : t.st = .waitingpickup)
    {m : MachineState} (hm : m ∈ ms) {x : Nat} {e' e : Int} (hj : t.job = some x) (hocc : t.occ = .at e')
    (hmo : m.occ = some e) (hx : x ∈ m.buffer.store) (hlt : e' < e) : fbLate ms t = true := by
  unfold fbLate
  simp only [hst, beq_self_eq_true, Bool.true_and, List.any_eq_true]
  refine ⟨m, hm, ?_⟩
  simp only [hj, hocc, hmo, Bool.and_eq_true, List.contains_iff_mem, decide_eq_true_eq]
  exact ⟨hx, hlt⟩

/-- being behind only depends on `occupied_till` and the internal stores of the machines, and is
monotone in the stores -/
theorem fbLate_mono {ms ms' : List MachineState}
    (h : ∀ m' ∈ ms', ∃ m ∈ ms, m.occ = m'.occ ∧ ∀ x ∈ m'.buffer.store, x ∈ m.buffer.store)
    {t : TransportState} (hl : fbLate ms' t = true) : fbLate ms t = true := by
  unfold fbLate at hl ⊢
  simp only [Bool.and_eq_true, List.any_eq_true] at hl ⊢
  obtain ⟨h1, m', hm', hf⟩ := hl
  obtain ⟨m, hm, ho, hsub⟩ := h m' hm'
  refine ⟨h1, m, hm, ?_⟩
  rw [ho]
  cases hj : t.job with
  | none => simp [hj] at hf
  | some x =>
    cases hocc : t.occ with
    | none => simp [hj, hocc] at hf
    | dep a b c => simp [hj, hocc] at hf
    | «at» e' =>
      cases hmo : m'.occ with
      | none => simp [hj, hocc, hmo] at hf
      | some e =>
        simp only [hj, hocc, hmo, Bool.and_eq_true, List.contains_iff_mem, decide_eq_true_eq] at hf ⊢
        exact ⟨hsub x hf.1, hf.2⟩

/-! ## the measure under a point update -/

/-- a machine transition puts at most one AGV behind: the one that claimed the job the machine holds -/
theorem fbNu_machine {s S : State} (hmn : (s.machines.map (·.id)).Nodup) (htn : (s.transports.map (·.id)).Nodup)
    {m0 M : MachineState} (hm0 : m0 ∈ s.machines) (hid : M.id = m0.id)
    (hM : S.machines = (s.replaceMachine M).machines) (hT : S.transports = s.transports) {jid : Nat}
    (hstore : ∀ x ∈ M.buffer.store, x = jid)
    (hu : ∀ t1 ∈ s.transports, ∀ t2 ∈ s.transports, ∀ x, t1.job = some x → t2.job = some x → t1.id = t2.id) :
    fbNu S ≤ fbNu s + 1 := by
  have hpt : ∀ t, (fbLate S.machines t).toNat ≤ (fbLate s.machines t).toNat + (t.job == some jid).toNat := by
    intro t
    cases hl : fbLate S.machines t with
    | false => simp
    | true =>
      obtain ⟨h1, m', hm', x, e', e, hj, hocc, hmo, hx, hlt⟩ := fbLate_elim hl
      rw [hM] at hm'
      rcases (mem_replaceMachine hmn hm0 hid m').mp hm' with rfl | ⟨hm1, _⟩
      · have : x = jid := hstore x hx
        subst this
        simp [hj]
      · rw [fbLate_intro h1 hm1 hj hocc hmo hx hlt]
        simp
  have h1 := fb_sum_le s.transports _ _ (fun t _ => hpt t)
  rw [fb_sum_add] at h1
  have h2 := fb_count_le_one (key := fun (y : TransportState) => y.id) htn (fun t => t.job == some jid)
    (fun a ha b hb pa pb => hu a ha b hb jid (by simpa using pa) (by simpa using pb))
  unfold fbNu
  rw [hT]
  omega

/-- a machine moves one stage on, the transports are untouched, at most one AGV falls behind -/
theorem fbM_machine {s S : State} (hnd : (s.machines.map (·.id)).Nodup) {m0 M : MachineState}
    (hm0 : m0 ∈ s.machines) (hid : M.id = m0.id) (hM : S.machines = (s.replaceMachine M).machines)
    (hT : S.transports = s.transports) (hst : stageM M.st + 1 = stageM m0.st) (hnu : fbNu S ≤ fbNu s + 1) :
    fbM S + 1 ≤ fbM s := by
  have h1 := sum_map_replace (key := fun (y : MachineState) => y.id) hnd hm0 hid (fun m => stageM m.st)
  have e1 : fbMach S + 1 = fbMach s := by
    unfold fbMach
    rw [hM]
    simp only [State.replaceMachine]
    omega
  have e2 : fbAgv S = fbAgv s := by unfold fbAgv; rw [hT]
  unfold fbM
  omega

/-- machines whose stage, `occupied_till` are kept and whose internal store does not grow -/
theorem fb_machines_keep {s S : State} (hnd : (s.machines.map (·.id)).Nodup) {ms ms' : MachineState}
    (hms : ms ∈ s.machines) (hid : ms'.id = ms.id) (hst : ms'.st = ms.st) (hocc : ms'.occ = ms.occ)
    (hsub : ∀ x ∈ ms'.buffer.store, x ∈ ms.buffer.store) (hM : S.machines = (s.replaceMachine ms').machines) :
    fbMach S = fbMach s ∧ ∀ t, fbLate S.machines t = true → fbLate s.machines t = true := by
  constructor
  · have h1 := sum_map_replace (key := fun (y : MachineState) => y.id) hnd hms hid (fun m => stageM m.st)
    unfold fbMach
    rw [hM]
    simp only [State.replaceMachine]
    simp only [hst] at h1
    omega
  · intro t hl
    apply fbLate_mono ?_ hl
    intro m' hm'
    rw [hM] at hm'
    rcases (mem_replaceMachine hnd hms hid m').mp hm' with rfl | ⟨hm1, _⟩
    · exact ⟨ms, hms, hocc.symm, hsub⟩
    · exact ⟨m', hm1, rfl, fun x hx => hx⟩

/-- an AGV is replaced, the machines keep their stage and being behind does not spread -/
theorem fbM_transport {s S : State} (hnd : (s.transports.map (·.id)).Nodup) {t0 T : TransportState}
    (ht0 : t0 ∈ s.transports) (hid : T.id = t0.id) (hT : S.transports = (s.replaceTransport T).transports)
    (hMst : fbMach S = fbMach s) (hMl : ∀ t, fbLate S.machines t = true → fbLate s.machines t = true) :
    fbM S + fbStageT t0.st + (fbLate s.machines t0).toNat ≤ fbM s + fbStageT T.st + (fbLate S.machines T).toNat := by
  have h1 := sum_map_replace (key := fun (y : TransportState) => y.id) hnd ht0 hid (fun t => fbStageT t.st)
  have h2 := fb_sum_replace_le (key := fun (y : TransportState) => y.id) hnd ht0 hid
    (fun t => (fbLate S.machines t).toNat) (fun t => (fbLate s.machines t).toNat)
    (fun t _ _ => by
      cases h : fbLate S.machines t with
      | false => simp
      | true => rw [hMl t h]; exact Nat.le_refl _)
  have hlen : S.transports.length = s.transports.length := by
    rw [hT]; simp [State.replaceTransport]
  unfold fbM fbAgv fbNu
  rw [hMst, hT]
  simp only [State.replaceTransport] at h1 h2 ⊢
  omega

end JSL
