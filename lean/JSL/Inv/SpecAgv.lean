import JSL.Inv.Spec

/-! Handler specifications for the AGV handlers. -/

namespace JSL

variable {orc : Oracle} {inst : Instance}

def TransportState.toTransit (t : TransportState) (occ : Int) (j : Nat) (b : BSS) : TransportState :=
  { t with st := .transit, occ := .at occ, buffer := t.buffer.withBack j b }
def TransportState.toOutage (t : TransportState) (j : Nat) (b : BSS) (outs : List OutageState) (occ : Int)
    (drop : Loc) : TransportState :=
  { t with buffer := t.buffer.without j b, st := .outage, outages := outs, occ := .at occ, loc := .at drop,
           job := none }
def TransportState.toPickup (t : TransportState) (cur : Loc) (pick : Nat) (drop : Loc) (occ : Int) (j : Nat) :
    TransportState :=
  { t with loc := .route cur pick drop, st := .pickup, occ := .at occ, job := some j }
def TransportState.toWaiting (t : TransportState) (occ : Occ) : TransportState :=
  { t with st := .waitingpickup, occ := occ }
def TransportState.toIdle (t : TransportState) : TransportState :=
  { t with st := .idle, outages := t.outages.map releaseOutage }
def MachineState.withPre (m : MachineState) (j : Nat) (b : BSS) : MachineState :=
  { m with pre := m.pre.withBack j b }

/-- where a job goes next: the output buffer when no operation is idle, else the machine of the
operation `pick` selects -/
def dropOK (inst : Instance) (j : JobState) (pick : JobState → Option OpState) (dst : Loc) : Prop :=
  (j.noOpIdle = true ∧ ∃ o, firstOutput inst = .ok o ∧ dst = .b o) ∨
  (j.noOpIdle = false ∧ ∃ op, pick j = some op ∧ dst = .m op.machine)

theorem dropLoc_nextNotDone {j : JobState} {dst : Loc} (h : dropLoc inst j JobState.nextNotDone = .ok dst) :
    dropOK inst j JobState.nextNotDone? dst := by
  unfold dropLoc at h
  unfold dropOK
  by_cases hn : j.noOpIdle = true
  · left
    simp only [hn, if_true] at h
    cases ho : firstOutput inst with
    | error e => simp [ho] at h
    | ok o => simp [ho] at h; exact ⟨hn, o, rfl, h.symm⟩
  · right
    simp only [hn] at h
    cases ho : j.nextNotDone with
    | error e => simp [ho] at h
    | ok o => simp [ho] at h; exact ⟨by simpa using hn, o, nextNotDone_ok ho, h.symm⟩

theorem dropLoc_nextIdle {j : JobState} {dst : Loc} (h : dropLoc inst j JobState.nextIdleE = .ok dst) :
    dropOK inst j JobState.nextIdle? dst := by
  unfold dropLoc at h
  unfold dropOK
  by_cases hn : j.noOpIdle = true
  · left
    simp only [hn, if_true] at h
    cases ho : firstOutput inst with
    | error e => simp [ho] at h
    | ok o => simp [ho] at h; exact ⟨hn, o, rfl, h.symm⟩
  · right
    simp only [hn] at h
    unfold JobState.nextIdleE at h
    cases ho : j.nextIdle? with
    | none => simp [ho] at h
    | some o => simp [ho] at h; exact ⟨by simpa using hn, o, rfl, h.symm⟩

theorem bufOfMachine_ok {m : MachineState} {i : Nat} {b : BufState} (h : bufOfMachine m i = .ok b) :
    b.id = i ∧ (b = m.pre ∨ b = m.buffer ∨ b = m.post) := by
  unfold bufOfMachine at h
  split at h
  · rename_i h1; simp at h h1; subst h; exact ⟨h1.symm, Or.inl rfl⟩
  · split at h
    · rename_i h1; simp at h h1; subst h; exact ⟨h1.symm, Or.inr (Or.inl rfl)⟩
    · split at h
      · rename_i h1; simp at h h1; subst h; exact ⟨h1.symm, Or.inr (Or.inr rfl)⟩
      · simp at h

/-- `handle_agv_transport_pickup_to_transit_transition` -/
theorem pickupToTransit_spec {s s' : State} {r r' : Rng} {tr : Transition} {t : TransportState}
    (h : handleAgvPickupToTransit orc inst s r tr t = .ok (s', r')) :
    ∃ (j : JobState) (src dst : Loc) (tt : Int) (bss1 bss2 : BSS),
      j ∈ s.jobs ∧ tr.job = some j.id ∧ dropOK inst j JobState.nextNotDone? dst ∧
      travelTimeFromSpec orc inst r src dst = .ok (tt, r') ∧
      (∃ c ∈ allBufCfgs inst, c.id = t.buffer.id ∧ (t.buffer.store.length : Int) < c.cap) ∧
      ((∃ fb, src = .b j.loc ∧ machineIdOfBuffer inst.machines j.loc = none ∧ fb ∈ s.buffers ∧ fb.id = j.loc ∧
          j.id ∈ fb.store ∧
          s' = ((s.replaceBuffer (fb.without j.id bss1)).replaceJob (j.at t.buffer.id)).replaceTransport
                 (t.toTransit (s.time + tt) j.id bss2)) ∨
       (∃ mid ms bs ms', src = .m mid ∧ machineIdOfBuffer inst.machines j.loc = some mid ∧ ms ∈ s.machines ∧
          ms.id = mid ∧ bufOfMachine ms j.loc = .ok bs ∧ j.id ∈ bs.store ∧
          replaceBufInMachine ms (bs.without j.id bss1) = .ok ms' ∧
          s' = ((s.replaceMachine ms').replaceJob (j.at t.buffer.id)).replaceTransport
                 (t.toTransit (s.time + tt) j.id bss2))) := by
  unfold handleAgvPickupToTransit at h
  cases htj : tr.job with
  | none => simp [htj] at h
  | some jid =>
    simp only [htj, except_pure, except_bind_ok] at h
    obtain ⟨j, hj, h⟩ := except_bind_eq_ok h
    have hj' := getJob_ok hj
    obtain ⟨dst, hdst, h⟩ := except_bind_eq_ok h
    obtain ⟨⟨tt, r1⟩, htt, h⟩ := except_bind_eq_ok h
    simp only at h
    have hdrop := dropLoc_nextNotDone hdst
    cases hsrc : machineIdOfBuffer inst.machines j.loc with
    | none =>
      simp only [hsrc] at h htt
      obtain ⟨fb, hfb, h⟩ := except_bind_eq_ok h
      obtain ⟨⟨fb', tbuf, j2⟩, hsw, h⟩ := except_bind_eq_ok h
      simp at h
      obtain ⟨rfl, rfl⟩ := h
      have hfb' := getBufState_ok hfb
      obtain ⟨hin, hfid, hfst, htid, htst, hj2, c, hc, hcid, hcap⟩ := switchBuffer_spec hsw
      subst hj2
      cases fb' with | mk fid fbss fstore =>
      cases tbuf with | mk tid tbss tstore =>
      simp at hfid hfst htid htst
      subst hfid hfst htid htst
      refine ⟨j, .b j.loc, dst, tt, fbss, tbss, hj'.1, by simp [hj'.2], hdrop, htt, ⟨c, hc, hcid, hcap⟩, Or.inl ?_⟩
      exact ⟨fb, rfl, hsrc, hfb'.1, hfb'.2, hin, by
        simp [BufState.without, JobState.at, TransportState.toTransit, BufState.withBack]⟩
    | some mid =>
      simp only [hsrc] at h htt
      obtain ⟨ms, hms, h⟩ := except_bind_eq_ok h
      obtain ⟨bs, hbs, h⟩ := except_bind_eq_ok h
      obtain ⟨⟨fb', tbuf, j2⟩, hsw, h⟩ := except_bind_eq_ok h
      simp only at h
      obtain ⟨ms', hms', h⟩ := except_bind_eq_ok h
      simp at h
      obtain ⟨rfl, rfl⟩ := h
      have hms0 := getMachine_ok hms
      obtain ⟨hin, hfid, hfst, htid, htst, hj2, c, hc, hcid, hcap⟩ := switchBuffer_spec hsw
      subst hj2
      cases fb' with | mk fid fbss fstore =>
      cases tbuf with | mk tid tbss tstore =>
      simp at hfid hfst htid htst
      subst hfid hfst htid htst
      refine ⟨j, .m mid, dst, tt, fbss, tbss, hj'.1, by simp [hj'.2], hdrop, htt, ⟨c, hc, hcid, hcap⟩, Or.inr ?_⟩
      exact ⟨mid, ms, bs, ms', rfl, hsrc, hms0.1, hms0.2, hbs, hin, by simpa [BufState.without] using hms', by
        simp [JobState.at, TransportState.toTransit, BufState.withBack]⟩

/-- `handle_agv_transport_transit_to_outage_transition` -/
theorem transitToOutage_spec {s s' : State} {r r' : Rng} {tr : Transition} {t : TransportState}
    (h : handleAgvTransitToOutage orc inst s r tr t = .ok (s', r')) :
    ∃ (j : JobState) (cur : Loc) (pick : Nat) (drop : Loc) (tc : TransportCfg) (outs : List OutageState)
      (bss1 bss2 : BSS),
      j ∈ s.jobs ∧ tr.job = some j.id ∧ t.loc = .route cur pick drop ∧ j.id ∈ t.buffer.store ∧
      tc ∈ inst.transports ∧ tc.id = t.id ∧
      newOutageStates orc s.time t.outages tc.outages r = .ok (outs, r') ∧
      ((∃ mid ms, drop = .m mid ∧ ms ∈ s.machines ∧ ms.id = mid ∧
          (∃ c ∈ allBufCfgs inst, c.id = ms.pre.id ∧ (ms.pre.store.length : Int) < c.cap) ∧
          s' = (((s.replaceJob (j.at ms.pre.id)).replaceTransport
                  (t.toOutage j.id bss1 outs (s.time + occupiedFor outs) drop)).replaceMachine
                  (ms.withPre j.id bss2))) ∨
       (∃ bid b, drop = .b bid ∧ b ∈ s.buffers ∧ b.id = bid ∧
          (∃ c ∈ allBufCfgs inst, c.id = b.id ∧ (b.store.length : Int) < c.cap) ∧
          s' = (((s.replaceJob (j.at b.id)).replaceTransport
                  (t.toOutage j.id bss1 outs (s.time + occupiedFor outs) drop)).replaceBuffer
                  (b.withBack j.id bss2)))) := by
  unfold handleAgvTransitToOutage at h
  cases htj : tr.job with
  | none => simp [htj] at h
  | some jid =>
    simp only [htj, except_pure, except_bind_ok] at h
    obtain ⟨j, hj, h⟩ := except_bind_eq_ok h
    have hj' := getJob_ok hj
    cases hloc : t.loc with
    | «at» l => simp [hloc] at h
    | route cur pick drop =>
      simp only [hloc, except_bind_ok] at h
      obtain ⟨target, htg, h⟩ := except_bind_eq_ok h
      obtain ⟨⟨j1, t1, target1, r1⟩, hct, h⟩ := except_bind_eq_ok h
      simp only at h
      unfold completeTransportTask at hct
      simp only [except_pure] at hct
      obtain ⟨⟨tbuf, filled, j2⟩, hsw, hct⟩ := except_bind_eq_ok hct
      simp only at hct
      obtain ⟨tc, htc, hct⟩ := except_bind_eq_ok hct
      obtain ⟨⟨outs, r2⟩, hout, hct⟩ := except_bind_eq_ok hct
      simp at hct
      obtain ⟨rfl, rfl, rfl, rfl⟩ := hct
      have htc' := getTransportCfg_ok htc
      obtain ⟨hin, hfid, hfst, htid, htst, hj2, c, hc, hcid, hcap⟩ := switchBuffer_spec hsw
      subst hj2
      cases tbuf with | mk fid fbss fstore =>
      cases filled with | mk tid tbss tstore =>
      simp at hfid hfst htid htst
      subst hfid hfst htid htst
      cases target with
      | machine ms =>
        cases drop with
        | m mid =>
          simp only [getCompByLoc] at htg
          cases hgm : getMachine s.machines mid with
          | error e => simp [hgm] at htg
          | ok ms0 =>
            simp [hgm] at htg; subst htg
            have hms := getMachine_ok hgm
            simp at h
            obtain ⟨rfl, rfl⟩ := h
            refine ⟨j, cur, pick, .m mid, tc, outs, fbss, tbss, hj'.1, by simp [hj'.2], rfl, hin, htc'.1, htc'.2,
              hout, Or.inl ⟨mid, ms0, rfl, hms.1, hms.2, ⟨c, hc, hcid, hcap⟩, ?_⟩⟩
            simp [JobState.at, TransportState.toOutage, MachineState.withPre, BufState.without, BufState.withBack]
        | b bid =>
          simp only [getCompByLoc] at htg
          cases hgb : getBufState s.buffers bid with
          | error e => simp [hgb] at htg
          | ok b0 => simp [hgb] at htg
      | buffer b =>
        cases drop with
        | m mid =>
          simp only [getCompByLoc] at htg
          cases hgm : getMachine s.machines mid with
          | error e => simp [hgm] at htg
          | ok ms0 => simp [hgm] at htg
        | b bid =>
          simp only [getCompByLoc] at htg
          cases hgb : getBufState s.buffers bid with
          | error e => simp [hgb] at htg
          | ok b0 =>
            simp [hgb] at htg; subst htg
            have hb := getBufState_ok hgb
            simp at h
            obtain ⟨rfl, rfl⟩ := h
            refine ⟨j, cur, pick, .b bid, tc, outs, fbss, tbss, hj'.1, by simp [hj'.2], rfl, hin, htc'.1, htc'.2,
              hout, Or.inr ⟨bid, b0, rfl, hb.1, hb.2, ⟨c, hc, hcid, hcap⟩, ?_⟩⟩
            simp [JobState.at, TransportState.toOutage, BufState.without, BufState.withBack]

/-- `handle_agv_transport_idle_to_working_transition` -/
theorem idleToWorking_spec {s s' : State} {r r' : Rng} {tr : Transition} {t : TransportState}
    (h : handleAgvIdleToWorking orc inst s r tr t = .ok (s', r')) :
    ∃ (j : JobState) (cur target src : Loc) (bc : BufCfg) (c : TimeCfg),
      j ∈ s.jobs ∧ tr.job = some j.id ∧ t.loc = .at cur ∧ dropOK inst j JobState.nextIdle? target ∧
      bc ∈ allBufCfgs inst ∧ bc.id = j.loc ∧
      (bc.parent = none ∧ src = .b j.loc ∨ ∃ mid, bc.parent = some (.m mid) ∧ src = .m mid) ∧
      travelCfg inst cur src = some c ∧ r' = r ∧
      s' = s.replaceTransport (t.toPickup cur bc.id target (s.time + c.cur orc r) j.id) := by
  unfold handleAgvIdleToWorking at h
  cases htj : tr.job with
  | none => simp [htj] at h
  | some jid =>
    simp only [htj, except_pure, except_bind_ok] at h
    cases hloc : t.loc with
    | route a b c => simp [hloc] at h
    | «at» cur =>
      simp only [hloc, except_bind_ok] at h
      obtain ⟨j, hj, h⟩ := except_bind_eq_ok h
      have hj' := getJob_ok hj
      obtain ⟨target, htg, h⟩ := except_bind_eq_ok h
      obtain ⟨bc, hbc, h⟩ := except_bind_eq_ok h
      have hbc' := getBufCfg_ok hbc
      obtain ⟨src, hsrc, h⟩ := except_bind_eq_ok h
      obtain ⟨ttp, http, h⟩ := except_bind_eq_ok h
      simp at h
      obtain ⟨rfl, rfl⟩ := h
      unfold travelNoUpdate at http
      cases hc : travelCfg inst cur src with
      | none => simp [hc] at http
      | some c =>
        simp [hc] at http
        subst http
        refine ⟨j, cur, target, src, bc, c, hj'.1, by simp [hj'.2], rfl, dropLoc_nextIdle htg, hbc'.1, hbc'.2, ?_, hc,
          rfl, by simp [TransportState.toPickup]⟩
        unfold pickupSource at hsrc
        cases hp : bc.parent with
        | none => simp [hp] at hsrc; exact Or.inl ⟨rfl, hsrc.symm⟩
        | some p =>
          cases p with
          | m mid => simp [hp] at hsrc; exact Or.inr ⟨mid, rfl, hsrc.symm⟩
          | t n => simp [hp] at hsrc
          | b n => simp [hp] at hsrc

theorem pickupToWaiting_spec {s s' : State} {r r' : Rng} {tr : Transition} {t : TransportState}
    (h : handleAgvPickupToWaiting inst s r tr t = .ok (s', r')) :
    ∃ occ, getWaitingTime inst s tr = .ok occ ∧ r' = r ∧ tr.job.isSome = true ∧
      s' = s.replaceTransport (t.toWaiting occ) := by
  unfold handleAgvPickupToWaiting at h
  split at h
  · simp at h
  · rename_i hj
    obtain ⟨occ, ho, h⟩ := except_bind_eq_ok h
    simp at h
    obtain ⟨rfl, rfl⟩ := h
    exact ⟨occ, ho, rfl, by cases hh : tr.job <;> simp_all, rfl⟩

theorem waitingToWaiting_spec {s s' : State} {r r' : Rng} {tr : Transition} {t : TransportState}
    (h : handleAgvWaitingToWaiting inst s r tr t = .ok (s', r')) :
    ∃ occ, getWaitingTime inst s tr = .ok occ ∧ r' = r ∧ s' = s.replaceTransport (t.toWaiting occ) := by
  unfold handleAgvWaitingToWaiting at h
  obtain ⟨occ, ho, h⟩ := except_bind_eq_ok h
  simp at h
  obtain ⟨rfl, rfl⟩ := h
  exact ⟨occ, ho, rfl, rfl⟩

theorem agvOutageToIdle_spec {s s' : State} {r r' : Rng} {t : TransportState}
    (h : handleAgvOutageToIdle s r t = .ok (s', r')) : r' = r ∧ s' = s.replaceTransport t.toIdle := by
  unfold handleAgvOutageToIdle at h
  simp at h
  exact ⟨h.2.symm, h.1.symm⟩

end JSL
