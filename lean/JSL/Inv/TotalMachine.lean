import JSL.Inv.TotalOut

/-!
# C05 for a class of instances: validation and the four machine handlers never raise

`transitionValid_total`: `is_transition_valid` returns for every transition that is well aimed
(`Aim`) at a state satisfying the invariants `TotInv`.
`machine_applies`: a validated, well-aimed machine transition is applied without an exception in an
instance of the class `TotClass`.
-/

namespace JSL

variable {inst : Instance}

/- helper lemmas (in a namespace of their own, so that they cannot clash with the helpers of the
sibling files) -/
namespace TotalMachine

/-! ## small facts -/

/-- an id stored in a buffer is the id of a job of the state that lies there -/
theorem job_of_stored {s : State} (c : ConservedV s) {i x : Nat} (h : x ∈ storeAt s i) :
    ∃ j ∈ s.jobs, j.id = x ∧ j.loc = i := by
  obtain ⟨j, hj, e⟩ := List.mem_map.mp (c.stored i x h)
  simp only [Prod.mk.injEq] at e
  exact ⟨j, hj, e.1, e.2⟩

/-- a job with a record that is not DONE has a next not-done operation -/
theorem nnd_of_op {j : JobState} {op : OpState} (ho : op ∈ j.ops) (hst : op.st ≠ .done) :
    ∃ o, j.nextNotDone = .ok o := by
  unfold JobState.nextNotDone JobState.nextNotDone?
  cases hf : j.ops.find? (fun o => o.st != .done) with
  | none =>
    have := List.find?_eq_none.mp hf op ho
    simp [hst] at this
  | some o => exact ⟨o, rfl⟩

theorem nnd_of_nextIdle {j : JobState} {op : OpState} (h : j.nextIdle? = some op) :
    ∃ o, j.nextNotDone = .ok o := by
  obtain ⟨ho, hp⟩ := find?_mem_ops h
  apply nnd_of_op ho
  intro e
  simp [e] at hp

theorem nnd_of_processing {j : JobState} {op : OpState} (h : j.processing? = some op) :
    ∃ o, j.nextNotDone = .ok o := by
  obtain ⟨ho, hp⟩ := find?_mem_ops h
  apply nnd_of_op ho
  intro e
  simp [e] at hp

/-- the job check returns as soon as the job exists and has a not-done operation -/
theorem machineJobCheck_total {s : State} (m : MachineState) {x : Nat} {j : JobState}
    (hg : getJob s.jobs x = .ok j) (hn : ∃ o, j.nextNotDone = .ok o) :
    ∃ b, machineJobCheck s m (some x) = .ok b := by
  obtain ⟨o, ho⟩ := hn
  simp only [machineJobCheck, hg, ho, except_bind_ok, except_pure]
  exact ⟨_, rfl⟩

/-- what a passed job check says -/
theorem machineJobCheck_true {s : State} {m : MachineState} {x : Nat}
    (h : machineJobCheck s m (some x) = .ok true) :
    ∃ j, getJob s.jobs x = .ok j ∧ ∃ o, j.nextNotDone = .ok o ∧ o.machine = m.id := by
  unfold machineJobCheck at h
  simp only at h
  obtain ⟨j, hj, h⟩ := except_bind_eq_ok h
  obtain ⟨o, ho, h⟩ := except_bind_eq_ok h
  refine ⟨j, hj, o, ho, ?_⟩
  simpa using h

/-- validation of a machine transition to a machine state: decided by the table, or the job check
of a start of the setup / of the processing -/
theorem machineTransitionValid_m (s : State) (m : MachineState) {tr : Transition} {ns : MSt}
    (hn : tr.new = .m ns) :
    (∃ b, machineTransitionValid s m tr = .ok b) ∨
    (machineTransitionValid s m tr = machineJobCheck s m tr.job ∧
      ((m.st = .idle ∧ ns = .setup) ∨ (m.st = .setup ∧ ns = .working))) := by
  unfold machineTransitionValid
  rw [hn]
  cases hst : m.st <;> cases ns <;> simp [machineAllowed, machineValid]

/-- a validated machine transition to a machine state is one of the four of the handler table -/
theorem machineTransitionValid_true {s : State} {m : MachineState} {tr : Transition} {ns : MSt}
    (hn : tr.new = .m ns) (h : machineTransitionValid s m tr = .ok true) :
    (m.st = .idle ∧ ns = .setup ∧ machineJobCheck s m tr.job = .ok true) ∨
    (m.st = .setup ∧ ns = .working ∧ machineJobCheck s m tr.job = .ok true) ∨
    (m.st = .working ∧ ns = .outage) ∨ (m.st = .outage ∧ ns = .idle) := by
  unfold machineTransitionValid at h
  rw [hn] at h
  cases hst : m.st <;> cases ns <;> simp [machineAllowed, machineValid, hst] at h ⊢ <;> exact h

end TotalMachine

open TotalMachine

/-! ## validation -/

/-- validation never raises for a well-aimed transition -/
theorem transitionValid_total (w : WF inst) {s : State} (hV : TotInv inst s) {tr : Transition}
    (ha : Aim inst s tr) : ∃ b, transitionValid s tr = .ok b := by
  have hs := hV.struct.shape
  cases hc : tr.comp with
  | b bid => exact absurd hc (ha.notBuf bid)
  | t tid =>
    obtain ⟨t, ht, hid, _⟩ := ha.agv tid hc
    have hgt := getTransport_of_mem (hs.trNodup w) ht
    rw [hid] at hgt
    unfold transitionValid
    simp only [hc, hgt, except_bind_ok, except_pure]
    exact ⟨_, rfl⟩
  | m mid =>
    obtain ⟨m, hm, hid, ns, x, hnew, hjob, hpre, hbuf⟩ := ha.mach mid hc
    have hgm := getMachine_of_mem (hs.machNodup w) hm
    rw [hid] at hgm
    unfold transitionValid
    simp only [hc, hgm, except_bind_ok]
    rcases machineTransitionValid_m s m hnew with h | ⟨h, hcase⟩
    · exact h
    · rw [h, hjob]
      rcases hcase with ⟨hst, hns⟩ | ⟨hst, hns⟩
      · -- a start of the setup: the job waits in the pre-buffer for an operation on this machine
        have hx := hpre hns
        have hx' : x ∈ storeAt s m.pre.id := by rw [(pre_storeAt w hs hm).1]; exact hx
        obtain ⟨j, hj, hjx, _⟩ := job_of_stored hV.struct.cons hx'
        have hg : getJob s.jobs x = .ok j := by
          rw [← hjx]; exact getJob_of_mem (hs.jobsNodup w) hj
        obtain ⟨op, hop, _⟩ := hV.full.route.preNext m hm x hx j hj hjx
        exact machineJobCheck_total m hg (nnd_of_nextIdle hop)
      · -- a start of the processing: the machine is busy with the job
        have hx := hbuf (Or.inl hns)
        obtain ⟨j, hj, hstore, op, hop, _⟩ := hV.sched.busyHolds m hm (by rw [hst]; decide)
        rw [hstore] at hx
        have hjx : x = j.id := by simpa using hx
        have hg : getJob s.jobs x = .ok j := by
          rw [hjx]; exact getJob_of_mem (hs.jobsNodup w) hj
        exact machineJobCheck_total m hg (nnd_of_processing hop)

namespace TotalMachine

/-! ## the four machine handlers -/

theorem idleToSetup_total (w : WF inst) (C : TotClass inst) {s : State} (hV : TotInv inst s)
    {m : MachineState} (hm : m ∈ s.machines) (hst : m.st = .idle) {tr : Transition} {x : Nat}
    (hjob : tr.job = some x) (hin : x ∈ m.pre.store) (hchk : machineJobCheck s m (some x) = .ok true)
    (orc : Oracle) (r : Rng) : ∃ out, handleMachineIdleToSetup orc inst s r tr m = .ok out := by
  obtain ⟨j, hgj, o, hnn, hom⟩ := machineJobCheck_true hchk
  obtain ⟨hj, hjx⟩ := getJob_ok hgj
  have hin' : j.id ∈ m.pre.store := by rw [hjx]; exact hin
  obtain ⟨⟨j', m', r'⟩, hb⟩ := beginMachineSetup_total w hV.struct hV.sched C.tables hV.ready hj hnn hm hom.symm
    hin' hst orc s.time r
  have hcont : m.pre.store.contains j.id = true := List.contains_iff_mem.mpr hin'
  simp only [handleMachineIdleToSetup, hjob, except_pure, except_bind_ok, hgj, hcont, Bool.not_true,
    Bool.false_eq_true, if_false, hb]
  exact ⟨_, rfl⟩

theorem beginNextJobOnMachine_total (w : WF inst) {s : State} (hs : Shape inst s) {j : JobState}
    (hj : j ∈ s.jobs) {o : OpState} (hnn : j.nextNotDone = .ok o) (m : MachineState)
    (orc : Oracle) (now : Int) (r : Rng) : ∃ out, beginNextJobOnMachine orc inst now r j m = .ok out := by
  have ho : o ∈ j.ops := (find?_mem_ops (nextNotDone_ok hnn)).1
  obtain ⟨oc, hoc, _, _⟩ := getOpCfg_of_mem w hs hj ho
  unfold beginNextJobOnMachine
  simp only [hnn, hoc, except_bind_ok, except_pure]
  exact ⟨_, rfl⟩

theorem setupToWorking_totalT (w : WF inst) {s : State} (hV : TotInv inst s)
    {m : MachineState} (hm : m ∈ s.machines) (hst : m.st = .setup) {tr : Transition} {x : Nat}
    (hjob : tr.job = some x) (hin : x ∈ m.buffer.store)
    (orc : Oracle) (r : Rng) : ∃ out, handleMachineSetupToWorking orc inst s r tr m = .ok out := by
  have hs := hV.struct.shape
  obtain ⟨j, hj, hstore, op, hop, _⟩ := hV.sched.busyHolds m hm (by rw [hst]; decide)
  have hjx : x = j.id := by rw [hstore] at hin; simpa using hin
  have hgj : getJob s.jobs x = .ok j := by rw [hjx]; exact getJob_of_mem (hs.jobsNodup w) hj
  obtain ⟨o, hnn⟩ := nnd_of_processing hop
  obtain ⟨⟨j', m', r'⟩, hb⟩ := beginNextJobOnMachine_total w hs hj hnn m orc s.time r
  have hcont : m.buffer.store.contains j.id = true := by rw [hstore]; simp
  simp only [handleMachineSetupToWorking, hjob, except_pure, except_bind_ok, hgj, hcont, Bool.not_true,
    Bool.false_eq_true, if_false, hb]
  exact ⟨_, rfl⟩

theorem workingToOutage_totalT (w : WF inst) {s : State} (hV : TotInv inst s)
    {m : MachineState} (hm : m ∈ s.machines) (hst : m.st = .working) {tr : Transition} {x : Nat}
    (hjob : tr.job = some x) (hin : x ∈ m.buffer.store)
    (orc : Oracle) (r : Rng) : ∃ out, handleMachineWorkingToOutage orc inst s r tr m = .ok out := by
  have hs := hV.struct.shape
  obtain ⟨mc, hmc, hmcm, hmcid⟩ := getMachineCfg_of_mem w hs hm
  obtain ⟨⟨outs, r1⟩, hout⟩ := newOutageStates_total orc s.time
    (hV.out.machIdle m hm (by rw [hst]; decide)) mc.outages r (hV.outShape.mach m hm mc hmcm hmcid)
  obtain ⟨j, hj, hstore, op, hop, _⟩ := hV.sched.busyHolds m hm (by rw [hst]; decide)
  have hjx : x = j.id := by rw [hstore] at hin; simpa using hin
  have hgj : getJob s.jobs x = .ok j := by rw [hjx]; exact getJob_of_mem (hs.jobsNodup w) hj
  simp only [handleMachineWorkingToOutage, hmc, except_bind_ok, hout, hjob, getJobOpt, hgj,
    beginMachineOutage, hop, except_pure]
  exact ⟨_, rfl⟩

theorem completeActiveOperation_total (w : WF inst) (C : TotClass inst) {s : State} (hV : TotInv inst s)
    {m : MachineState} (hm : m ∈ s.machines) (hst : m.st = .outage) :
    ∃ out, completeActiveOperation inst s.time s.jobs m = .ok out := by
  have hs := hV.struct.shape
  obtain ⟨j, hj, hstore, op, hop, _⟩ := hV.sched.busyHolds m hm (by rw [hst]; decide)
  have hgj : getJob s.jobs j.id = .ok j := getJob_of_mem (hs.jobsNodup w) hj
  have hin : j.id ∈ m.buffer.store := by rw [hstore]; simp
  obtain ⟨buf', hbuf⟩ := removeFromBuffer_of_mem (b := m.buffer) (x := j.id) hin
  obtain ⟨mc, hmc, hmcm, hmcid⟩ := getMachineCfg_of_mem w hs hm
  have hloc : j.loc = m.buffer.id := by
    apply job_of_store hV.struct.cons hj ?_ (hs.jobsNodup w)
    rw [(pre_storeAt w hs hm).2]; exact hin
  have hne : j.loc ≠ m.post.id := by
    rw [hloc]; exact (machine_buf_ids_ne hs w hm).2.2
  have hroom : (m.post.store.length : Int) < mc.post.cap := by
    have h1 := room_for w hV.struct hj (mem_allBufs_of_machine hm).2.2 hne
    have h2 := C.roomy.post mc hmcm
    omega
  obtain ⟨post', hpost⟩ := putInBuffer_of_room
    (j.replaceOp { op with stop := some s.time, st := .done }) hroom
  unfold completeActiveOperation
  simp only [hstore, except_pure, except_bind_ok, hgj, hop, replaceOp_id, hbuf, hmc, hpost]
  exact ⟨_, rfl⟩

theorem outageToIdle_totalT (w : WF inst) (C : TotClass inst) {s : State} (hV : TotInv inst s)
    {m : MachineState} (hm : m ∈ s.machines) (hst : m.st = .outage) (r : Rng) :
    ∃ out, handleMachineOutageToIdle inst s r m = .ok out := by
  obtain ⟨⟨j', m'⟩, hb⟩ := completeActiveOperation_total w C hV hm hst
  simp only [handleMachineOutageToIdle, hb, except_bind_ok, except_pure]
  exact ⟨_, rfl⟩

end TotalMachine

/-! ## application -/

/-- a validated, well-aimed machine transition is applied without an exception -/
theorem machine_applies (w : WF inst) (C : TotClass inst) {s : State} (hV : TotInv inst s) {tr : Transition}
    (ha : Aim inst s tr) {mid : Nat} (hc : tr.comp = .m mid) (hv : transitionValid s tr = .ok true)
    (orc : Oracle) (r : Rng) : ∃ s' r', applyTransition orc inst s r tr = .ok (s', r') := by
  have hs := hV.struct.shape
  obtain ⟨m, hm, hid, ns, x, hnew, hjob, hpre, hbuf⟩ := ha.mach mid hc
  have hgm := getMachine_of_mem (hs.machNodup w) hm
  rw [hid] at hgm
  unfold transitionValid at hv
  simp only [hc, hgm, except_bind_ok] at hv
  have key : ∃ out, applyTransition orc inst s r tr = .ok out := by
    unfold applyTransition
    simp only [hc, hgm, except_bind_ok, handleMachineTransition, machineHandlerOf, hnew]
    rcases machineTransitionValid_true hnew hv with ⟨hst, hns, hchk⟩ | ⟨hst, hns, _⟩ | ⟨hst, hns⟩ | ⟨hst, hns⟩
    · simp only [hst, hns, machineHandler, except_pure, except_bind_ok]
      rw [hjob] at hchk
      exact idleToSetup_total w C hV hm hst hjob (hpre hns) hchk orc r
    · simp only [hst, hns, machineHandler, except_pure, except_bind_ok]
      exact setupToWorking_totalT w hV hm hst hjob (hbuf (Or.inl hns)) orc r
    · simp only [hst, hns, machineHandler, except_pure, except_bind_ok]
      exact workingToOutage_totalT w hV hm hst hjob (hbuf (Or.inr hns)) orc r
    · simp only [hst, hns, machineHandler, except_pure, except_bind_ok]
      exact outageToIdle_totalT w C hV hm hst r
  obtain ⟨⟨s', r'⟩, h⟩ := key
  exact ⟨s', r', h⟩

end JSL
