import JSL.Inv.EnvReach
import JSL.Props.Example
import JSL.Model.Guards

/-!
# C05, first link: applying an offered transition never raises

`offered_transition_applies`: in a state that satisfies the structural, schedule and AGV
invariants, every transition `possibleTransitions` offers is applied by `applyTransition` without
an exception – provided the configuration tables are total where the two start handlers read
them (`TablesTotal`, a property of the instance) and the current state is `Ready` (the mounted
tools and the places idle AGVs stand at have the entries the next start needs).  `Ready` is an
invariant of every episode when the tables are total (`ReadyPass`), which gives the
environment-level statement `env_offer_applies`.
-/

namespace JSL

variable {orc : Oracle} {inst : Instance}

/-! ## the totality assumptions -/

/-- **Totality of the configuration tables**, exactly as far as the two start handlers read them.

* `output`  – `handleAgvIdleToWorking`, `dropLoc`: `next(iter(get_output_buffers(instance)))` for a
              job without idle operation (`StopIteration` otherwise);
* `bufCap`  – `beginMachineSetup`, `putInBuffer m.buffer mc.buf j`: the (empty) internal buffer of
              the idle machine takes one job (`BufferFullError` otherwise);
* `parents` – `handleAgvIdleToWorking`, `pickupSource`: the buffer the job lies in has no parent or
              a machine as parent (`TransportConfigError` otherwise);
* `setup`   – `beginMachineSetup`, `setupDuration`: the setup matrix of a machine has an entry for
              every pair of tools of operations routed to it (`InvalidValue` otherwise); used to
              keep `Ready.tool` after a start mounted a new tool;
* `travel`  – `handleAgvIdleToWorking`, `travelNoUpdate`: the travel matrix has an entry from every
              place an AGV is parked at to every pickup source (`TransportConfigError`
              otherwise); used to keep `Ready.parked` after a delivery parked the AGV. -/
structure TablesTotal (inst : Instance) : Prop where
  output : ∃ o, firstOutput inst = .ok o
  bufCap : ∀ mc ∈ inst.machines, 1 ≤ mc.buf.cap
  parents : ∀ bc ∈ pickupBufs inst, ∃ src, pickupSource bc bc.id = .ok src
  setup : ∀ mc ∈ inst.machines, ∀ a ∈ toolsOn inst mc.id, ∀ b ∈ toolsOn inst mc.id,
    (mc.setup.lookup (a, b)).isSome = true
  travel : ∀ a ∈ stands inst, ∀ bc ∈ pickupBufs inst, ∀ src, pickupSource bc bc.id = .ok src →
    (travelCfg inst a src).isSome = true

/-- the travel matrix has an entry from `l` to every pickup source -/
def reaches (inst : Instance) (l : Loc) : Prop :=
  ∀ bc ∈ pickupBufs inst, ∀ src, pickupSource bc bc.id = .ok src → (travelCfg inst l src).isSome = true

/-- **The state-dependent part**: the tool mounted on every machine has a setup entry to every
tool of an operation routed to that machine, and every parked AGV (idle, or in the outage after a
delivery) stands at a place from which the travel matrix reaches every pickup source.  Holds
initially for compiled instances whose matrices are complete, and is kept by every transition when
the tables are total (`applyTransition_ready`). -/
structure Ready (inst : Instance) (s : State) : Prop where
  tool : ∀ m ∈ s.machines, ∀ mc ∈ inst.machines, mc.id = m.id → ∀ b ∈ toolsOn inst m.id,
    (mc.setup.lookup (m.tool, b)).isSome = true
  parked : ∀ t ∈ s.transports, t.st = .idle ∨ t.st = .outage → ∃ l, t.loc = .at l ∧ reaches inst l

/-! ## decidable versions -/

theorem reachesB_sound {l : Loc} (h : reachesB inst l = true) : reaches inst l := by
  intro bc hbc src hsrc
  have := List.all_eq_true.mp h bc hbc
  simpa [srcOK, hsrc] using this

theorem tablesTotalB_sound (h : tablesTotalB inst = true) : TablesTotal inst := by
  simp only [tablesTotalB, Bool.and_eq_true, List.all_eq_true, decide_eq_true_eq] at h
  obtain ⟨⟨⟨⟨h1, h2⟩, h3⟩, h4⟩, h5⟩ := h
  refine ⟨?_, h2, ?_, h4, ?_⟩
  · cases ho : firstOutput inst with
    | ok o => exact ⟨o, rfl⟩
    | error e => simp [ho] at h1
  · intro bc hbc
    have := h3 bc hbc
    cases hs : pickupSource bc bc.id with
    | ok src => exact ⟨src, rfl⟩
    | error e => simp [hs] at this
  · intro a ha
    exact reachesB_sound (h5 a ha)

theorem readyB_sound {s : State} (h : readyB inst s = true) : Ready inst s := by
  simp only [readyB, Bool.and_eq_true, List.all_eq_true, Bool.or_eq_true, bne_iff_ne, ne_eq,
    Bool.not_eq_true'] at h
  obtain ⟨h1, h2⟩ := h
  constructor
  · intro m hm mc hmc hid b hb
    rcases h1 m hm mc hmc with e | e
    · exact absurd hid e
    · exact e b hb
  · intro t ht hst
    rcases h2 t ht with e | e
    · rcases hst with h' | h' <;> simp [h'] at e
    · cases hl : t.loc with
      | «at» l => rw [hl] at e; exact ⟨l, rfl, reachesB_sound e⟩
      | route a b c => rw [hl] at e; simp at e

/-! ## small totality lemmas -/

theorem findE_of_exists {α} {p : α → Bool} {l : List α} (e : Err) {a : α} (ha : a ∈ l) (hp : p a = true) :
    ∃ b, findE p l e = .ok b := by
  unfold findE
  cases hf : l.find? p with
  | none =>
    have := List.find?_eq_none.mp hf a ha
    simp [hp] at this
  | some b => exact ⟨b, rfl⟩

theorem findE_err_irrel {α} {p : α → Bool} {l : List α} {e : Err} (e' : Err) {a : α} (h : findE p l e = .ok a) :
    findE p l e' = .ok a := by
  unfold findE at h ⊢
  cases hf : l.find? p with
  | none => simp [hf] at h
  | some b => simpa [hf] using h

theorem putInBuffer_of_room {b : BufState} {c : BufCfg} (j : JobState) (h : (b.store.length : Int) < c.cap) :
    ∃ b', putInBuffer b c j = .ok (b', { j with loc := b.id }) := by
  unfold putInBuffer
  rw [if_neg (by omega)]
  exact ⟨_, rfl⟩

theorem removeFromBuffer_of_mem {b : BufState} {x : Nat} (h : x ∈ b.store) : ∃ b', removeFromBuffer b x = .ok b' := by
  unfold removeFromBuffer
  have : b.store.contains x = true := List.contains_iff_mem.mpr h
  simp only [this, Bool.not_true, Bool.false_eq_true, if_false]
  exact ⟨_, rfl⟩

/-- the configuration of an operation record of the state is found, and it is routed to the same
machine -/
theorem getOpCfg_of_mem (w : WF inst) {s : State} (hs : Shape inst s) {j : JobState} (hj : j ∈ s.jobs)
    {o : OpState} (ho : o ∈ j.ops) :
    ∃ oc, getOpCfg inst o.job o.idx = .ok oc ∧ oc ∈ allOps inst ∧ oc.machine = o.machine := by
  obtain ⟨jc, hjc, hk⟩ := hs.job_cfg hj
  simp only [jKey, jcKey, Prod.mk.injEq] at hk
  obtain ⟨oc0, hoc0, e⟩ := mem_of_map_eq hk.2 ho
  simp only [opKey, ocKey, Prod.mk.injEq] at e
  have hmem0 : oc0 ∈ allOps inst := List.mem_flatMap.mpr ⟨jc, hjc, hoc0⟩
  obtain ⟨oc, hoc⟩ := findE_of_exists (p := fun (x : OpCfg) => x.job == o.job && x.idx == o.idx) .invalidValue hmem0
    (by simp [e.1, e.2.1])
  have hoc' : getOpCfg inst o.job o.idx = .ok oc := hoc
  have hk' := getOpCfg_ok hoc'
  have : oc = oc0 := opCfg_unique w hk'.1 hmem0 (by rw [hk'.2.1, e.1]) (by rw [hk'.2.2, e.2.1])
  exact ⟨oc, hoc', hk'.1, by rw [this, e.2.2]⟩

theorem getMachineCfg_of_mem (w : WF inst) {s : State} (hs : Shape inst s) {m : MachineState} (hm : m ∈ s.machines) :
    ∃ mc, getMachineCfg inst.machines m.id = .ok mc ∧ mc ∈ inst.machines ∧ mc.id = m.id := by
  obtain ⟨mc, hmc, hk⟩ := hs.machine_cfg hm
  simp only [mKey, mcKey, Prod.mk.injEq] at hk
  have := findE_of_mem (key := fun (y : MachineCfg) => y.id) w.machNodup hmc .invalidValue
  simp only [← hk.1] at this
  exact ⟨mc, this, hmc, hk.1.symm⟩

/-! ## what an offer promises -/

/-- what a machine start on offer promises -/
theorem actionPossible_facts {s : State} (hS : SchedInv s) {j : JobState} (hj : j ∈ s.jobs) {o : OpState}
    (hap : actionPossible inst s j = .ok true) (hn : j.nextIdle? = some o) :
    ∃ m, getMachine s.machines o.machine = .ok m ∧ j.nextNotDone = .ok o ∧ m.pre.id = j.loc ∧ m.st = .idle := by
  unfold actionPossible at hap
  simp only [bind, Except.bind, pure, Except.pure] at hap
  split at hap
  · simp at hap
  · rename_i hfree
    have hfree' : j.running = false := by
      simp [JobState.nextOpFree] at hfree; exact hfree.1
    cases ht0 : inst.transports with
    | nil => simp [ht0] at hap
    | cons t0 ts =>
      simp only [ht0] at hap
      split at hap
      · simp at hap
      · have hnn : j.nextNotDone? = some o := by rw [nextNotDone_eq_nextIdle (hS.ops j hj) hfree', hn]
        have hnn' : j.nextNotDone = .ok o := by simp [JobState.nextNotDone, hnn]
        simp only [hnn'] at hap
        cases hgm : getMachine s.machines o.machine with
        | error e => simp [hgm] at hap
        | ok m =>
          simp only [hgm] at hap
          cases hjm : jobAtMachine j m with
          | error e => simp [hjm] at hap
          | ok b =>
            simp only [hjm] at hap
            cases b with
            | false => simp at hap
            | true =>
              simp at hap
              refine ⟨m, rfl, hnn', ?_, hap⟩
              unfold jobAtMachine at hjm
              simp only [hnn', bind, Except.bind, pure, Except.pure] at hjm
              simpa using hjm

/-! ## a machine start on offer applies -/

theorem beginMachineSetup_total (w : WF inst) {s : State} (hI : StructInv inst s) (hS : SchedInv s)
    (hT : TablesTotal inst) (hR : Ready inst s) {j : JobState} (hj : j ∈ s.jobs) {o : OpState}
    (hnn : j.nextNotDone = .ok o) {m : MachineState} (hm : m ∈ s.machines) (hmo : m.id = o.machine)
    (hin : j.id ∈ m.pre.store) (hst : m.st = .idle) (orc : Oracle) (now : Int) (r : Rng) :
    ∃ out, beginMachineSetup orc inst now r j m = .ok out := by
  have hs := hI.shape
  have ho : o ∈ j.ops := (find?_mem_ops (nextNotDone_ok hnn)).1
  obtain ⟨oc, hoc, hocm, hocmach⟩ := getOpCfg_of_mem w hs hj ho
  obtain ⟨mc, hmc, hmcm, hmcid⟩ := getMachineCfg_of_mem w hs hm
  have htool : oc.tool ∈ toolsOn inst m.id := by
    unfold toolsOn
    exact List.mem_map.mpr ⟨oc, List.mem_filter.mpr ⟨hocm, by simp [hocmach, hmo]⟩, rfl⟩
  have hlk := hR.tool m hm mc hmcm hmcid oc.tool htool
  obtain ⟨c, hc⟩ := Option.isSome_iff_exists.mp hlk
  have hsd : setupDuration orc r mc m.tool oc.tool = .ok (c.readUpd orc r) := by
    simp [setupDuration, hc]
  obtain ⟨pre', hpre⟩ := removeFromBuffer_of_mem (b := m.pre) (x := j.id) hin
  have hroom : (m.buffer.store.length : Int) < mc.buf.cap := by
    rw [hS.idleEmpty m hm hst]
    have := hT.bufCap mc hmcm
    simp; omega
  unfold beginMachineSetup
  simp only [hnn, hoc, hmc, hsd, except_bind_ok, replaceOp_id, hpre]
  obtain ⟨buf', hbuf⟩ := putInBuffer_of_room
    (j.replaceOp { job := oc.job, idx := oc.idx, start := some now, stop := some (now + (c.readUpd orc r).1),
                   machine := m.id, st := .processing }) hroom
  simp only [hbuf, except_bind_ok, except_pure]
  exact ⟨_, rfl⟩

theorem machine_offer_applies (w : WF inst) {s : State} (hI : StructInv inst s) (hS : SchedInv s)
    (hT : TablesTotal inst) (hR : Ready inst s) {j : JobState} (hj : j ∈ s.jobs) {o : OpState}
    (hap : actionPossible inst s j = .ok true) (hn : j.nextIdle? = some o) (orc : Oracle) (r : Rng) :
    ∃ s' r', applyTransition orc inst s r { comp := .m o.machine, new := .m .setup, job := some j.id } = .ok (s', r') := by
  have hs := hI.shape
  obtain ⟨m, hgm, hnn, hloc, hst⟩ := actionPossible_facts hS hj hap hn
  have hm := getMachine_ok hgm
  have hin : j.id ∈ m.pre.store := by
    have h1 := hI.cons.located (j.id, j.loc) (List.mem_map.mpr ⟨j, hj, rfl⟩)
    simp only at h1
    rw [← hloc, (pre_storeAt w hs hm.1).1] at h1
    exact h1
  obtain ⟨⟨j', m', r'⟩, hb⟩ := beginMachineSetup_total w hI hS hT hR hj hnn hm.1 hm.2 hin hst orc s.time r
  have hcont : m.pre.store.contains j.id = true := List.contains_iff_mem.mpr hin
  simp only [applyTransition, hgm, except_bind_ok, handleMachineTransition, hst, machineHandlerOf, machineHandler,
    except_pure, handleMachineIdleToSetup, getJob_of_mem (hs.jobsNodup w) hj, hcont, Bool.not_true,
    Bool.false_eq_true, if_false, hb]
  exact ⟨_, _, rfl⟩

/-! ## a dispatch on offer applies -/

/-- what a dispatch on offer promises (more than `possibleTransport_facts`: the type of the AGV
and how the job was selected) -/
theorem dispatch_offer_facts {cfg : SMConfig} {s : State} {pt : List Transition}
    (h : possibleTransportTransitions inst cfg s = .ok pt) :
    ∀ tr ∈ pt, ∃ t ∈ s.transports, ∃ tc, ∃ j ∈ s.jobs,
      tr = { comp := .t t.id, new := .t .working, job := some j.id } ∧ t.st = .idle ∧
      findE (fun c => c.id == t.id) inst.transports .invalidKey = .ok tc ∧ tc.type = .agv ∧
      (∀ x ∈ s.transports, x.job ≠ some j.id) ∧
      (j.running = true ∨ transportable inst s j = .ok true) := by
  unfold possibleTransportTransitions at h
  obtain ⟨ts, hts, h⟩ := except_bind_eq_ok h
  obtain ⟨idle, hidle, h⟩ := except_bind_eq_ok h
  simp only at h
  obtain ⟨lonely, hlonely, h⟩ := except_bind_eq_ok h
  simp at h; subst h
  intro tr htr
  simp only [List.mem_flatMap, List.mem_map] at htr
  obtain ⟨t, ht, j, hj, rfl⟩ := htr
  -- the AGV
  unfold possibleTransports at hts
  obtain ⟨l, hl, hts⟩ := except_bind_eq_ok hts
  simp at hts; subst hts
  obtain ⟨x, hx, e⟩ := List.mem_filterMap.mp ht
  simp at e; subst e
  obtain ⟨t', ht', e⟩ := (mapM_ok_mem hl).2 _ hx
  obtain ⟨tc, htc, e⟩ := except_bind_eq_ok e
  simp at e
  obtain ⟨hcond, rfl⟩ := e
  -- the job
  have hjl : j ∈ (s.jobs.filter (·.running) ++ idle).filter (fun j => !(s.transports.filterMap (·.job)).contains j.id) := by
    unfold earlyFilter at hlonely
    by_cases he : cfg.allowEarly = true
    · rw [if_pos he] at hlonely
      injection hlonely with h'
      rw [← h'] at hj
      exact hj
    · rw [if_neg he] at hlonely
      exact (filterE_ok hlonely j hj).1
  obtain ⟨hjm, hunc⟩ := List.mem_filter.mp hjl
  have hjs : j ∈ s.jobs ∧ (j.running = true ∨ transportable inst s j = .ok true) := by
    rcases List.mem_append.mp hjm with h1 | h1
    · exact ⟨(List.mem_filter.mp h1).1, Or.inl (List.mem_filter.mp h1).2⟩
    · exact ⟨(List.mem_filter.mp (filterE_ok hidle j h1).1).1, Or.inr (filterE_ok hidle j h1).2⟩
  refine ⟨t', ht', tc, j, hjs.1, rfl, hcond.1, htc, hcond.2, ?_, hjs.2⟩
  intro x hx hxj
  have : (s.transports.filterMap (·.job)).contains j.id = true := by
    apply List.contains_iff_mem.mpr
    exact List.mem_filterMap.mpr ⟨x, hx, hxj⟩
  rw [this] at hunc
  simp at hunc

theorem dropLoc_total (hT : TablesTotal inst) (j : JobState) : ∃ d, dropLoc inst j JobState.nextIdleE = .ok d := by
  unfold dropLoc
  by_cases hn : j.noOpIdle = true
  · obtain ⟨o, ho⟩ := hT.output
    simp only [hn, if_true, ho, except_map'_ok]
    exact ⟨_, rfl⟩
  · simp only [hn]
    cases hni : j.nextIdle? with
    | some o => simp only [JobState.nextIdleE, hni, except_pure, except_map'_ok]; exact ⟨_, rfl⟩
    | none =>
      exfalso
      apply hn
      unfold JobState.nextIdle? at hni
      have := List.find?_eq_none.mp hni
      unfold JobState.noOpIdle
      apply List.all_eq_true.mpr
      intro x hx
      simpa using this x hx

/-- a job that lies in an output buffer is neither running nor transportable -/
theorem not_offered_in_output {s : State} (hR : RouteInv inst s) {j : JobState} (hj : j ∈ s.jobs)
    (hout : j.loc ∈ outputIds inst) (hkind : j.running = true ∨ transportable inst s j = .ok true) : False := by
  have hd := hR.delivered j hj hout
  rcases hkind with h | h
  · unfold JobState.running at h
    obtain ⟨o, ho, hp⟩ := List.any_eq_true.mp h
    rw [hd o ho] at hp
    simp at hp
  · have : jobDone inst j = true := by
      unfold jobDone JobState.allDone
      simp only [Bool.and_eq_true]
      exact ⟨List.all_eq_true.mpr (fun o ho => by simp [hd o ho]), List.contains_iff_mem.mpr hout⟩
    unfold transportable at h
    simp [this] at h

/-- **the buffer of a job on offer for a dispatch** is configured and is one of `pickupBufs` -/
theorem offered_job_buffer (w : WF inst) {s : State} (hI : StructInv inst s) (hA : AgvFull inst s)
    {j : JobState} (hj : j ∈ s.jobs) (hfree : ∀ x ∈ s.transports, x.job ≠ some j.id)
    (hkind : j.running = true ∨ transportable inst s j = .ok true)
    (hnpre : ∀ m ∈ s.machines, j.id ∉ m.pre.store) :
    ∃ bc, getBufCfg (allBufCfgs inst) j.loc = .ok bc ∧ bc ∈ pickupBufs inst ∧ bc.id = j.loc := by
  have hs := hI.shape
  have h1 := hI.cons.located (j.id, j.loc) (List.mem_map.mpr ⟨j, hj, rfl⟩)
  simp only at h1
  obtain ⟨b, hb, hbi, _⟩ := storeAt_mem h1
  have hidm : b.id ∈ (allBufCfgs inst).map (·.id) := by
    rw [← hs.bufIds]; exact List.mem_map.mpr ⟨b, hb, rfl⟩
  obtain ⟨bc, hbc, hbcid⟩ := List.mem_map.mp hidm
  have hid : bc.id = j.loc := by rw [hbcid, hbi]
  have hget := findE_of_mem (key := fun (y : BufCfg) => y.id) w.bufNodup hbc .invalidValue
  simp only [hid] at hget
  refine ⟨bc, hget, ?_, hid⟩
  unfold allBufCfgs at hbc
  unfold pickupBufs
  rcases List.mem_append.mp hbc with hbc | hbc
  · rcases List.mem_append.mp hbc with hbc | hbc
    · -- a standalone buffer
      apply List.mem_append.mpr; left
      apply List.mem_filter.mpr
      refine ⟨hbc, ?_⟩
      cases hrole : (bc.role == BufRole.output) with
      | false => simp [bne, hrole]
      | true =>
        exfalso
        apply not_offered_in_output hA.route hj ?_ hkind
        rw [← hid]
        unfold outputIds outputBuffers
        exact List.mem_map.mpr ⟨bc, List.mem_filter.mpr ⟨hbc, hrole⟩, rfl⟩
    · -- a buffer of a machine
      obtain ⟨mc, hmc, hin⟩ := List.mem_flatMap.mp hbc
      simp only [List.mem_cons, List.not_mem_nil, or_false] at hin
      rcases hin with e | e | e
      · exfalso
        obtain ⟨m, hm, hk⟩ := mem_of_map_eq hs.machines.symm hmc
        simp only [mKey, mcKey, Prod.mk.injEq] at hk
        apply hnpre m hm
        rw [← (pre_storeAt w hs hm).1, ← hk.2.1, ← e, hid]
        exact h1
      · exact List.mem_append.mpr (Or.inr (List.mem_flatMap.mpr ⟨mc, hmc, by simp [e]⟩))
      · exact List.mem_append.mpr (Or.inr (List.mem_flatMap.mpr ⟨mc, hmc, by simp [e]⟩))
  · -- the buffer of an AGV
    exfalso
    obtain ⟨tcf, htcf, e⟩ := List.mem_map.mp hbc
    obtain ⟨t, ht, hk⟩ := mem_of_map_eq hs.transports.symm htcf
    simp only [tKey, tcKey, Prod.mk.injEq] at hk
    have hstore : j.id ∈ t.buffer.store := by
      rw [← storeAt_of_mem (hs.bufNodup w) (mem_allBufs_of_transport ht), ← hk.2, e, hid]
      exact h1
    by_cases htr : t.st = .transit
    · exact hfree t ht (hA.route.transitOwn t ht htr j.id hstore)
    · rw [hA.agv.empty t ht htr] at hstore
      cases hstore

theorem dispatch_offer_applies (w : WF inst) {s : State} (hI : StructInv inst s) (hA : AgvFull inst s)
    (hT : TablesTotal inst) (hR : Ready inst s) {t : TransportState} (ht : t ∈ s.transports) {tc : TransportCfg}
    (htc : findE (fun c => c.id == t.id) inst.transports .invalidKey = .ok tc) (hty : tc.type = .agv)
    (hst : t.st = .idle) {j : JobState} (hj : j ∈ s.jobs) (hfree : ∀ x ∈ s.transports, x.job ≠ some j.id)
    (hkind : j.running = true ∨ transportable inst s j = .ok true)
    (hnpre : ∀ m ∈ s.machines, j.id ∉ m.pre.store) (orc : Oracle) (r : Rng) :
    ∃ s' r', applyTransition orc inst s r { comp := .t t.id, new := .t .working, job := some j.id } = .ok (s', r') := by
  have hs := hI.shape
  have hgt := getTransport_of_mem (hs.trNodup w) ht
  have hgtc : getTransportCfg inst.transports t.id = .ok tc := findE_err_irrel _ htc
  obtain ⟨l, hl, hreach⟩ := hR.parked t ht (Or.inl hst)
  obtain ⟨d, hd⟩ := dropLoc_total hT j
  obtain ⟨bc, hbc, hpick, hid⟩ := offered_job_buffer w hI hA hj hfree hkind hnpre
  obtain ⟨src, hsrc⟩ := hT.parents bc hpick
  obtain ⟨c, hc⟩ := Option.isSome_iff_exists.mp (hreach bc hpick src hsrc)
  rw [hid] at hsrc
  simp only [applyTransition, hgt, except_bind_ok, handleTransportTransition, hgtc, hty, trTypeHandled,
    Bool.not_true, Bool.false_eq_true, if_false, hst, agvHandlerOf, agvHandler, except_pure,
    handleAgvIdleToWorking, hl, getJob_of_mem (hs.jobsNodup w) hj, hd, hbc, hsrc, travelNoUpdate, hc]
  exact ⟨_, _, rfl⟩

/-! ## the main theorem -/

/-- an offer is a machine start for a job that passes `actionPossible`, or one of the dispatches -/
theorem offer_cases {cfg : SMConfig} {s : State} {poss : List Transition}
    (hp : possibleTransitions inst cfg s = .ok poss) (tr : Transition) (htr : tr ∈ poss) :
    (∃ j ∈ s.jobs, ∃ o, actionPossible inst s j = .ok true ∧ j.nextIdle? = some o ∧
        tr = { comp := .m o.machine, new := .m .setup, job := some j.id }) ∨
    (∃ pt, possibleTransportTransitions inst cfg s = .ok pt ∧ tr ∈ pt) := by
  unfold possibleTransitions at hp
  obtain ⟨pj, hpj, hp⟩ := except_bind_eq_ok hp
  obtain ⟨pt, hpt, hp⟩ := except_bind_eq_ok hp
  obtain ⟨mt, hmt, hp⟩ := except_bind_eq_ok hp
  simp at hp; subst hp
  rcases List.mem_append.mp htr with h | h
  · left
    obtain ⟨j, hjm, e⟩ := (mapM_ok_mem hmt).2 tr h
    unfold possibleJobs at hpj
    obtain ⟨hj, hap⟩ := filterE_ok hpj j hjm
    cases hn : j.nextIdle? with
    | none => simp [hn] at e
    | some o =>
      simp [hn] at e
      exact ⟨j, hj, o, hap, hn, e.symm⟩
  · exact Or.inr ⟨pt, hpt, h⟩

/-- **Applying an offered transition never raises.**  In a state with the structural, schedule and
AGV invariants, for an instance whose tables are total and a state that is ready, every transition
on offer is applied by `state.apply_transition` without an exception. -/
theorem offered_transition_applies (w : WF inst) {cfg : SMConfig} {s : State} (hI : StructInv inst s)
    (hS : SchedInv s) (hA : AgvFull inst s) (hT : TablesTotal inst) (hR : Ready inst s)
    {poss : List Transition} (hp : possibleTransitions inst cfg s = .ok poss) (tr : Transition) (htr : tr ∈ poss)
    (orc : Oracle) (r : Rng) : ∃ s' r', applyTransition orc inst s r tr = .ok (s', r') := by
  rcases offer_cases hp tr htr with ⟨j, hj, o, hap, hn, rfl⟩ | ⟨pt, hpt, hin⟩
  · exact machine_offer_applies w hI hS hT hR hj hap hn orc r
  · obtain ⟨t, ht, tc, j, hj, rfl, hst, htc, hty, hfree, hkind⟩ := dispatch_offer_facts hpt tr hin
    exact dispatch_offer_applies w hI hA hT hR ht htc hty hst hj hfree hkind
      (offers_not_in_pre w hI hS hA.route hp _ htr rfl j.id rfl) orc r

/-! ## `Ready` is kept by every transition -/

def toolOK (inst : Instance) (m : MachineState) : Prop :=
  ∀ mc ∈ inst.machines, mc.id = m.id → ∀ b ∈ toolsOn inst m.id, (mc.setup.lookup (m.tool, b)).isSome = true

def parkOK (inst : Instance) (t : TransportState) : Prop :=
  t.st = .idle ∨ t.st = .outage → ∃ l, t.loc = .at l ∧ reaches inst l

theorem toolOK_congr {m m' : MachineState} (hid : m'.id = m.id) (ht : m'.tool = m.tool) (h : toolOK inst m) :
    toolOK inst m' := by
  unfold toolOK at h ⊢
  rw [hid, ht]; exact h

theorem toolOK_replaceMachine {s : State} (hmn : (s.machines.map (·.id)).Nodup) (hR : Ready inst s)
    {m0 M' : MachineState} (hm0 : m0 ∈ s.machines) (hid : M'.id = m0.id) (hM' : toolOK inst M') :
    ∀ m' ∈ (s.replaceMachine M').machines, toolOK inst m' := by
  intro m' hm'
  rcases (mem_replaceMachine hmn hm0 hid m').mp hm' with rfl | ⟨h0, _⟩
  · exact hM'
  · exact hR.tool m' h0

theorem parkOK_replaceTransport {s : State} (htn : (s.transports.map (·.id)).Nodup) (hR : Ready inst s)
    {t0 T' : TransportState} (ht0 : t0 ∈ s.transports) (hid : T'.id = t0.id) (hT' : parkOK inst T') :
    ∀ t' ∈ (s.replaceTransport T').transports, parkOK inst t' := by
  intro t' ht'
  rcases (mem_replaceTransport htn ht0 hid t').mp ht' with rfl | ⟨h0, _⟩
  · exact hT'
  · exact hR.parked t' h0

/-- the configuration found for an operation record is routed to the machine of the record -/
theorem opCfg_machine (w : WF inst) {s : State} (hs : Shape inst s) {j : JobState} (hj : j ∈ s.jobs)
    {o : OpState} (ho : o ∈ j.ops) {oc : OpCfg} (hoc : oc ∈ allOps inst) (h1 : oc.job = o.job) (h2 : oc.idx = o.idx) :
    oc.machine = o.machine := by
  obtain ⟨oc', _, hmem, hm⟩ := getOpCfg_of_mem w hs hj ho
  have hk := getOpCfg_ok (by assumption : getOpCfg inst o.job o.idx = .ok oc')
  have : oc = oc' := opCfg_unique w hoc hmem (by rw [h1, hk.2.1]) (by rw [h2, hk.2.2])
  rw [this, hm]

/-- a place of delivery is a place of `stands` -/
theorem drop_mem_stands {s : State} (hs : Shape inst s) {j : JobState} {drop : Loc}
    (hd : dropOK inst j JobState.nextIdle? drop)
    (hm : ∀ mid, drop = .m mid → ∃ ms ∈ s.machines, ms.id = mid) : drop ∈ stands inst := by
  unfold stands
  rcases hd with ⟨_, o, ho, rfl⟩ | ⟨_, op, _, rfl⟩
  · apply List.mem_append.mpr; right
    unfold firstOutput at ho
    cases hob : outputBuffers inst with
    | nil => simp [hob] at ho
    | cons b bs => simp [hob] at ho; simp [ho]
  · apply List.mem_append.mpr; left
    obtain ⟨ms, hms, e⟩ := hm op.machine rfl
    obtain ⟨mc, hmc, hk⟩ := hs.machine_cfg hms
    simp only [mKey, mcKey, Prod.mk.injEq] at hk
    exact List.mem_map.mpr ⟨mc, hmc, by rw [← hk.1, e]⟩

/-- **one validated, successfully applied transition keeps `Ready`** when the tables are total -/
theorem applyTransition_ready (w : WF inst) (hT : TablesTotal inst) {s s' : State} {r r' : Rng} {tr : Transition}
    (hI : StructInv inst s) (hA : AgvFull inst s) (hR : Ready inst s) (hv : transitionValid s tr = .ok true)
    (h : applyTransition orc inst s r tr = .ok (s', r')) : Ready inst s' := by
  have hs := hI.shape
  have hmn := hs.machNodup w
  have htn := hs.trNodup w
  unfold applyTransition at h
  unfold transitionValid at hv
  cases hc : tr.comp with
  | m mid =>
    simp only [hc] at h hv
    obtain ⟨m0, hm0, h⟩ := except_bind_eq_ok h
    obtain ⟨mv, hmv, hv⟩ := except_bind_eq_ok hv
    rw [hm0] at hmv; simp at hmv; subst hmv
    unfold handleMachineTransition at h
    obtain ⟨m, hm, h⟩ := except_bind_eq_ok h
    rw [hm0] at hm; simp at hm; subst hm
    have hmem := (getMachine_ok hm0).1
    obtain ⟨hd, hh, h⟩ := except_bind_eq_ok h
    unfold machineHandlerOf at hh
    cases hn : tr.new with
    | t ns => simp [hn] at hh
    | m ns =>
      simp only [hn] at hh
      cases hmh : machineHandler m0.st ns with
      | none => simp [hmh] at hh
      | some hd' =>
        simp [hmh] at hh; subst hh
        have hnd := hs.jobsNodup w
        cases hd' with
        | idleToSetup =>
          have hst := machineHandler_idleToSetup hmh
          obtain ⟨j, op, oc, mc, sd, b1, b2, hj, htj, _, hop, hoc, hocj, hoci, _, _, _, _, rfl⟩ := idleToSetup_spec h
          have hopm := valid_machine_job hnd hv (by simp [hst.1]) (by simp [hst.1]) j hj htj op hop
          have hocm := opCfg_machine w hs hj (find?_mem_ops hop).1 hoc hocj hoci
          have htool : oc.tool ∈ toolsOn inst m0.id := by
            unfold toolsOn
            exact List.mem_map.mpr ⟨oc, List.mem_filter.mpr ⟨hoc, by simp [hocm, hopm]⟩, rfl⟩
          refine ⟨toolOK_replaceMachine (s := s.replaceJob _) hmn ⟨hR.tool, hR.parked⟩ hmem rfl ?_, hR.parked⟩
          intro mc' hmc' hid b hb
          have hid' : mc'.id = m0.id := hid
          have := hT.setup mc' hmc' oc.tool (by rw [hid']; exact htool) b (by rw [hid']; exact hb)
          exact this
        | setupToWorking =>
          obtain ⟨j, op, oc, d, _, _, _, _, _, _, _, _, rfl⟩ := setupToWorking_spec h
          exact ⟨toolOK_replaceMachine (s := s.replaceJob _) hmn ⟨hR.tool, hR.parked⟩ hmem rfl
            (toolOK_congr rfl rfl (hR.tool m0 hmem)), hR.parked⟩
        | workingToOutage =>
          obtain ⟨mc, outs, j, op, _, _, _, _, _, _, rfl⟩ := workingToOutage_spec h
          exact ⟨toolOK_replaceMachine hmn hR hmem rfl (toolOK_congr rfl rfl (hR.tool m0 hmem)), hR.parked⟩
        | outageToIdle =>
          obtain ⟨j, op, mc, rest, b1, b2, _, _, _, _, _, _, _, rfl⟩ := outageToIdle_spec h
          exact ⟨toolOK_replaceMachine (s := s.replaceJob _) hmn ⟨hR.tool, hR.parked⟩ hmem rfl
            (toolOK_congr rfl rfl (hR.tool m0 hmem)), hR.parked⟩
  | t tid =>
    simp only [hc] at h
    obtain ⟨t0, ht0, h⟩ := except_bind_eq_ok h
    unfold handleTransportTransition at h
    obtain ⟨t, ht, h⟩ := except_bind_eq_ok h
    rw [ht0] at ht; simp at ht; subst ht
    have hmem := (getTransport_ok ht0).1
    obtain ⟨tc, _, h⟩ := except_bind_eq_ok h
    split at h
    · simp at h
    · obtain ⟨hd, hh, h⟩ := except_bind_eq_ok h
      unfold agvHandlerOf at hh
      cases hn : tr.new with
      | m ns => simp [hn] at hh
      | t ns =>
        simp only [hn] at hh
        cases hah : agvHandler t0.st ns with
        | none => simp [hah] at hh
        | some hd' =>
          simp [hah] at hh; subst hh
          cases hd' with
          | idleToWorking =>
            obtain ⟨j, cur, target, src, bc, c, _, _, _, _, _, _, _, _, _, rfl⟩ := idleToWorking_spec h
            refine ⟨hR.tool, parkOK_replaceTransport htn hR hmem rfl ?_⟩
            intro hst
            rcases hst with e | e <;> simp [TransportState.toPickup] at e
          | pickupToWaitingpickup =>
            obtain ⟨occ, _, _, _, rfl⟩ := pickupToWaiting_spec h
            refine ⟨hR.tool, parkOK_replaceTransport htn hR hmem rfl ?_⟩
            intro hst
            rcases hst with e | e <;> simp [TransportState.toWaiting] at e
          | waitingPickupToWaitingPickup =>
            obtain ⟨occ, _, _, rfl⟩ := waitingToWaiting_spec h
            refine ⟨hR.tool, parkOK_replaceTransport htn hR hmem rfl ?_⟩
            intro hst
            rcases hst with e | e <;> simp [TransportState.toWaiting] at e
          | outageToIdle =>
            have hst0 := agvHandler_outageToIdle hah
            obtain ⟨_, rfl⟩ := agvOutageToIdle_spec h
            refine ⟨hR.tool, parkOK_replaceTransport htn hR hmem rfl ?_⟩
            intro _
            exact hR.parked t0 hmem (Or.inr hst0.1)
          | pickupToTransit =>
            obtain ⟨j, src, dst, tt, bss1, bss2, _, _, _, _, _, hcase⟩ := pickupToTransit_spec h
            have hpark : parkOK inst (t0.toTransit (s.time + tt) j.id bss2) := by
              intro hst
              rcases hst with e | e <;> simp [TransportState.toTransit] at e
            rcases hcase with ⟨fb, _, _, _, _, _, rfl⟩ | ⟨mid, ms, bs, ms', _, _, hms, _, _, _, hms', rfl⟩
            · exact ⟨hR.tool, parkOK_replaceTransport (s := (s.replaceBuffer _).replaceJob _) htn
                ⟨hR.tool, hR.parked⟩ hmem rfl hpark⟩
            · have hid : ms'.id = ms.id ∧ ms'.tool = ms.tool := by
                unfold replaceBufInMachine at hms'
                split at hms'
                · simp at hms'; subst hms'; exact ⟨rfl, rfl⟩
                · split at hms'
                  · simp at hms'; subst hms'; exact ⟨rfl, rfl⟩
                  · split at hms'
                    · simp at hms'; subst hms'; exact ⟨rfl, rfl⟩
                    · simp at hms'
              have hM := toolOK_replaceMachine hmn hR hms hid.1 (toolOK_congr hid.1 hid.2 (hR.tool ms hms))
              exact ⟨hM, parkOK_replaceTransport (s := (s.replaceMachine _).replaceJob _) htn
                ⟨hM, hR.parked⟩ hmem rfl hpark⟩
          | transitToOutage =>
            have hst0 := agvHandler_transitToOutage hah
            obtain ⟨j, cur, pick, drop, tc', outs, bss1, bss2, hj, _, hloc, hin, _, _, _, hcase⟩ := transitToOutage_spec h
            -- the AGV carries the job it claimed, and it is routed to the place it delivers at
            have htrans : t0.st = .transit := by
              apply Classical.byContradiction
              intro hne
              rw [hA.agv.empty t0 hmem hne] at hin
              cases hin
            have hjob := hA.route.transitOwn t0 hmem htrans j.id hin
            obtain ⟨cur', pick', drop', hloc', hdrop⟩ := hA.route.route t0 hmem j.id hjob j hj rfl
            rw [hloc] at hloc'
            simp only [TLoc.route.injEq] at hloc'
            obtain ⟨_, _, rfl⟩ := hloc'
            have hstand : drop ∈ stands inst := by
              apply drop_mem_stands hs hdrop
              intro mid e
              rcases hcase with ⟨mid', ms, e1, hms, e2, _, _⟩ | ⟨bid, b, e1, _, _, _, _⟩
              · rw [e1] at e; simp at e; subst e; exact ⟨ms, hms, e2⟩
              · rw [e1] at e; simp at e
            have hpark : parkOK inst (t0.toOutage j.id bss1 outs (s.time + occupiedFor outs) drop) := by
              intro _
              exact ⟨drop, rfl, hT.travel drop hstand⟩
            rcases hcase with ⟨mid', ms, _, hms, _, _, rfl⟩ | ⟨bid, b, _, _, _, _, rfl⟩
            · have hR1 : Ready inst ((s.replaceJob (j.at ms.pre.id)).replaceTransport
                  (t0.toOutage j.id bss1 outs (s.time + occupiedFor outs) drop)) :=
                ⟨hR.tool, parkOK_replaceTransport (s := s.replaceJob _) htn ⟨hR.tool, hR.parked⟩ hmem rfl hpark⟩
              exact ⟨toolOK_replaceMachine (s := (s.replaceJob (j.at ms.pre.id)).replaceTransport
                  (t0.toOutage j.id bss1 outs (s.time + occupiedFor outs) drop)) hmn hR1 hms rfl
                  (toolOK_congr rfl rfl (hR.tool ms hms)), hR1.parked⟩
            · exact ⟨hR.tool, parkOK_replaceTransport (s := s.replaceJob _)
                (T' := t0.toOutage j.id bss1 outs (s.time + occupiedFor outs) drop) htn ⟨hR.tool, hR.parked⟩ hmem rfl hpark⟩
  | b bid =>
    simp only [hc] at h
    obtain ⟨_, _, h⟩ := except_bind_eq_ok h
    simp at h

/-! ## `Ready` along every episode -/

/-- the full AGV pass extended by `Ready` -/
def ReadyPass (orc : Oracle) (inst : Instance) (cfg : SMConfig) (w : WF inst) (hT : TablesTotal inst) :
    Pass orc inst cfg where
  P := fun s => AgvFull inst s ∧ Ready inst s
  GS := FullGS
  Adm := AdmOffer inst cfg
  tail := fun h => (FullPass orc inst cfg w).tail h
  step := fun hI hS hP hv hsafe hfresh hgs ha =>
    have h1 := (FullPass orc inst cfg w).step hI hS hP.1 hv hsafe hfresh hgs ha
    ⟨⟨h1.1, applyTransition_ready w hT hI hP.1 hP.2 hv ha⟩, h1.2⟩
  advance := fun hI hS hP hle hpend =>
    ⟨(FullPass orc inst cfg w).advance hI hS hP.1 hle hpend, ⟨hP.2.tool, hP.2.parked⟩⟩
  timed := fun hI hS hP htt hposs htele => (FullPass orc inst cfg w).timed hI hS hP.1 htt hposs htele
  timedOnly := fun hI hS hP htt => (FullPass orc inst cfg w).timedOnly hI hS hP.1 htt
  action := fun hI hS hP hadm => (FullPass orc inst cfg w).action hI hS hP.1 hadm

/-- **`Ready` is an invariant of every episode** of an instance with total tables that starts ready -/
theorem occursF_ready {cfg : SMConfig} {s0 σ : State} (hst : Start orc inst s0) (hT : TablesTotal inst)
    (h0 : Ready inst s0) (h : OccursF orc inst cfg s0 σ) : AgvFull inst σ ∧ Ready inst σ := by
  obtain ⟨w, _⟩ := initOKB_sound hst.init
  have nn := nonnegB_sound hst.samples hst.nonneg
  induction h with
  | init => exact ⟨AgvFull.of_rest hst.rest hst.placed, h0⟩
  | result hprev ha hc hstep hnd ih =>
    obtain ⟨_, hI, hS⟩ := occursA_inv hst hprev.toC.toA
    exact ((ReadyPass orc inst cfg w hT).smStep w nn hI hS ih ha hc hstep).2.2.2 hnd
  | sub hprev ha hc hstep hσ ih =>
    obtain ⟨_, hI, hS⟩ := occursA_inv hst hprev.toC.toA
    exact ((ReadyPass orc inst cfg w hT).smStep w nn hI hS ih ha hc hstep).2.1 _ hσ
  | micro hprev ha hc hstep hσ ih =>
    obtain ⟨_, hI, hS⟩ := occursA_inv hst hprev.toC.toA
    exact ((ReadyPass orc inst cfg w hT).smStep w nn hI hS ih ha hc hstep).1 _ hσ

/-- **C05, first link, at the environment**: in every state of every episode, each transition the
environment holds on offer is applied by `state.apply_transition` without an exception – for an
instance whose tables are total (`tablesTotalB`) and an initial state that is ready (`readyB`). -/
theorem env_offer_applies {ec : EnvCfg} {st : RewardStatic} {s0 : State} {e : EnvState}
    (hst : Start orc inst s0) (hT : TablesTotal inst) (h0 : Ready inst s0)
    (h : EnvReach orc inst ec st s0 e) :
    ∀ tr ∈ e.res.possible, ∃ s' r', applyTransition orc inst e.res.state e.rng tr = .ok (s', r') := by
  intro tr htr
  have hi := envReach_inv hst h
  have hne : e.res.possible ≠ [] := by intro e0; rw [e0] at htr; cases htr
  obtain ⟨w, hI, hS⟩ := occursA_inv hst (hi.live hne).1
  obtain ⟨hA, hR⟩ := occursF_ready hst hT h0 (hi.liveF hne)
  obtain ⟨poss, hf, hsub⟩ := hi.offersFrom hne
  exact offered_transition_applies w hI hS hA hT hR hf tr (hsub tr htr) orc e.rng

/-- the same from the decidable guards -/
theorem env_offer_applies_of_guards {ec : EnvCfg} {st : RewardStatic} {s0 : State} {e : EnvState}
    (hst : Start orc inst s0) (hT : tablesTotalB inst = true) (h0 : readyB inst s0 = true)
    (h : EnvReach orc inst ec st s0 e) :
    ∀ tr ∈ e.res.possible, ∃ s' r', applyTransition orc inst e.res.state e.rng tr = .ok (s', r') :=
  env_offer_applies hst (tablesTotalB_sound hT) (readyB_sound h0) h

/-! ## examples: the hypotheses are met, and they are needed

`Ex.inst` (the instance of `JSL/Props/Example.lean`) satisfies every guard of `Start`, its initial
state is ready, but its travel matrix has no row for the output buffer `b-8`: `tablesTotalB` is
false, and the assumption is genuinely needed – after the first delivery the AGV is parked at
`b-8`, and accepting the next dispatch on offer raises `TransportConfigError`
(`ex_offer_raises`: an environment state reached by `reset` and five times "accept", an offer it
holds, and the exception).  `ExT.instT` adds the three missing entries; for it everything holds. -/

namespace ExT

def instT : Instance :=
  { Ex.inst with travel := Ex.inst.travel ++ [((.b 8, .m 0), .det 1), ((.b 8, .m 1), .det 2), ((.b 8, .b 7), .det 1)] }

def orc0 : Oracle := fun _ _ => 0
def r0 : Rng := fun _ => 0
def ec : EnvCfg := ⟨{ allowEarly := true }, { jokerInit := 1000, truncActive := false },
  { sparseBias := 1, denseBias := 1, truncBias := 1 }, 40⟩
def st : RewardStatic := { tmax := 100, lb := 1, numJobs := 2, numOps := 4 }

/-- accept the head offer `k` times -/
def acceptN (ins : Instance) : Nat → EnvState → Except Err EnvState
  | 0, e => .ok e
  | k + 1, e => do
    let out ← envStep orc0 ins ec st e .accept
    acceptN ins k out.env

theorem acceptN_reach {ins : Instance} {s0 : State} : ∀ (k : Nat) {e e' : EnvState},
    EnvReach orc0 ins ec st s0 e → acceptN ins k e = .ok e' → EnvReach orc0 ins ec st s0 e'
  | 0, e, e', he, h => by simp [acceptN] at h; subst h; exact he
  | k + 1, e, e', he, h => by
    simp only [acceptN] at h
    obtain ⟨out, hout, h⟩ := except_bind_eq_ok h
    exact acceptN_reach k (EnvReach.step he hout) h

/-- reset, five times "accept", then apply the head offer: `TransportConfigError` -/
def headFails : Bool :=
  match envReset orc0 Ex.inst ec Ex.s0 r0 with
  | .error _ => false
  | .ok (e, _) =>
    match acceptN Ex.inst 5 e with
    | .error _ => false
    | .ok e5 =>
      match e5.res.possible with
      | [] => false
      | tr :: _ =>
        match applyTransition orc0 Ex.inst e5.res.state e5.rng tr with
        | .error .transportConfig => true
        | _ => false

theorem start_ex : Start orc0 Ex.inst Ex.s0 :=
  ⟨by decide, by decide, by decide, by decide, fun _ _ => Int.le_refl 0⟩

/-- the tables of `Ex.inst` are not total: no travel entry from the output buffer -/
example : tablesTotalB Ex.inst = false ∧ (stands Ex.inst).map (reachesB Ex.inst) = [true, true, false] ∧
    readyB Ex.inst Ex.s0 = true := by decide

/-- **`TablesTotal` is needed**: `Ex.inst` meets `Start` and its initial state is ready, yet an
environment state of one of its episodes holds an offer whose application raises -/
theorem ex_offer_raises : ∃ e, EnvReach orc0 Ex.inst ec st Ex.s0 e ∧
    ∃ tr ∈ e.res.possible, applyTransition orc0 Ex.inst e.res.state e.rng tr = .error .transportConfig := by
  have h : headFails = true := by decide
  unfold headFails at h
  split at h
  · cases h
  · rename_i e mic hreset
    split at h
    · cases h
    · rename_i e5 h5
      split at h
      · cases h
      · rename_i tr rest hposs
        split at h
        · rename_i happ
          exact ⟨e5, acceptN_reach 5 (EnvReach.reset hreset) h5, tr, by rw [hposs]; simp, happ⟩
        · cases h

theorem start_exT : Start orc0 instT Ex.s0 :=
  ⟨by decide, by decide, by decide, by decide, fun _ _ => Int.le_refl 0⟩

/-- with the three entries added the tables are total and the initial state is ready -/
example : tablesTotalB instT = true ∧ readyB instT Ex.s0 = true := by decide

/-- so every offer of every episode of `ExT.instT` applies -/
example {e : EnvState} (h : EnvReach orc0 instT ec st Ex.s0 e) :
    ∀ tr ∈ e.res.possible, ∃ s' r', applyTransition orc0 instT e.res.state e.rng tr = .ok (s', r') :=
  env_offer_applies_of_guards start_exT (by decide) (by decide) h

end ExT

end JSL
