import JSL.Inv.AcceptPot
import JSL.Inv.Applies

/-!
# The always-accept agent finishes within `potBound inst` steps (C11, last part; conditional form)

`pot` (`Inv/AcceptPot.lean`) never increases under any transition `state.step` applies
(`PotPass`) and strictly decreases under the transition an accepted offer submits
(`smStep_pot_lt`, `accept_decreases`).  While there are offers it is positive (`offer_pot_pos`),
and in the class of `env_offers` (unordered buffers, an AGV) a successful, unfinished result always
has offers.  Hence: **if every step returns and succeeds**, the agent that accepts every offer holds
a finished shop after at most `potBound inst = 2·numOps + numJobs` steps (`always_accept_bound`).

The statement is conditional on the steps returning: the model's `smStep` may raise (a full
buffer, the fuel of the timed loop, …) and may return `success = false` (a timed transition that
fails validation), which truncates the episode; neither is excluded here.
-/

namespace JSL

variable {orc : Oracle} {inst : Instance}

/-! ## the pass: the potential never exceeds a fixed number -/

/-- **The potential pass**: the full AGV invariant together with `pot ≤ k`. -/
def PotPass (orc : Oracle) (inst : Instance) (cfg : SMConfig) (w : WF inst) (k : Nat) : Pass orc inst cfg where
  P := fun s => AgvFull inst s ∧ pot inst s ≤ k
  GS := FullGS
  Adm := AdmOffer inst cfg
  tail := fun h => (FullPass orc inst cfg w).tail h
  step := fun hI hS hP hv hsafe hfresh hgs ha =>
    ⟨⟨((FullPass orc inst cfg w).step hI hS hP.1 hv hsafe hfresh hgs ha).1,
      Nat.le_trans (applyTransition_pot w hI hS hP.1 hgs ha).1 hP.2⟩,
     ((FullPass orc inst cfg w).step hI hS hP.1 hv hsafe hfresh hgs ha).2⟩
  advance := fun hI hS hP hle hpg => ⟨(FullPass orc inst cfg w).advance hI hS hP.1 hle hpg, hP.2⟩
  timed := fun hI hS hP htt hposs htele => (FullPass orc inst cfg w).timed hI hS hP.1 htt hposs htele
  timedOnly := fun hI hS hP htt => (FullPass orc inst cfg w).timedOnly hI hS hP.1 htt
  action := fun hI hS hP hadm => (FullPass orc inst cfg w).action hI hS hP.1 hadm

/-- `process_state_transitions` on a single transition: it is applied, or counted as an error -/
theorem process_single {s : State} {r : Rng} {tr : Transition} {p : ProcOut}
    (h : processTransitions orc inst [tr] s r = .ok p) :
    (p.nerr = 0 ∧ p.micro = [p.state] ∧ ∃ r1, applyTransition orc inst s r tr = .ok (p.state, r1)) ∨
    p.nerr > 0 := by
  simp only [processTransitions] at h
  obtain ⟨v, hv, h⟩ := except_bind_eq_ok h
  cases v with
  | true =>
    simp only [if_true] at h
    obtain ⟨⟨s1, r1⟩, ha, h⟩ := except_bind_eq_ok h
    simp at h; subst h
    exact Or.inl ⟨rfl, rfl, r1, ha⟩
  | false =>
    simp at h; subst h
    exact Or.inr (by simp)

/-- **One `state.step` that submits an offered transition and succeeds decreases the potential.** -/
theorem smStep_pot_lt (w : WF inst) (nn : NonNeg orc inst) {cfg : SMConfig} {fuel : Nat} {s0 : State} {r : Rng}
    {a : Action} {res : SMResult} {r' : Rng} {mic : List State} (hI : StructInv inst s0) (hS : SchedInv s0)
    (hP : AgvFull inst s0) (ha : Admissible a) {poss : List Transition}
    (hposs : possibleTransitions inst cfg s0 = .ok poss) {tr : Transition} (htr : tr ∈ poss) (hat : a.transitions = [tr])
    (h : smStep orc inst cfg fuel s0 r a = .ok (res, r', mic)) (hsucc : res.success = true) :
    pot inst res.state < pot inst s0 := by
  have hadm : AdmOffer inst cfg s0 a := Or.inr ⟨poss, hposs, tr, htr, hat⟩
  unfold smStep at h
  obtain ⟨p, hp, h⟩ := except_bind_eq_ok h
  have hsf := offerShaped_safe (s := s0) (L := sortedByTransport a.transitions)
    (fun tr htr => ha.shaped tr (mem_sortedByTransport htr))
  have hp' := processTransitions_sched w nn _ _ _ _ hI hS hsf.1 hsf.2 hp
  have hpI := processTransitions_struct w _ _ _ _ hI hp
  have hgs := (FullPass orc inst cfg w).action hI hS hP hadm
  have hpF := (FullPass orc inst cfg w).process w nn _ _ _ _ hI hS hP hsf.1 hsf.2 hgs hp
  split at h
  · simp at h
    obtain ⟨rfl, _, rfl⟩ := h
    simp at hsucc
  · rename_i hnerr
    -- the submitted transition was applied, and it lowered the potential
    have hlt : pot inst p.state < pot inst s0 ∧ p.micro = [p.state] := by
      rw [hat, sortedByTransport_single] at hp hgs
      rcases process_single hp with ⟨_, hmic, r1, happ⟩ | hpos
      · refine ⟨?_, hmic⟩
        have hap := applyTransition_pot w hI hS hP hgs happ
        rcases offer_facts w hI hS hP.route hposs tr htr with ⟨hm, _⟩ | ⟨ht, hidle, j, hj, hjob, hw⟩
        · exact hap.2.1 hm
        · refine hap.2.2 ht hidle ?_
          intro j2 hj2 hjob2
          have : j2 = j := eq_of_mem_of_key_eq (key := fun (y : JobState) => y.id) (hI.shape.jobsNodup w) hj2 hj (by
            rw [hjob] at hjob2; simpa using hjob2.symm)
          rw [this]; exact hw
      · exact absurd hpos hnerr
    simp only at h
    obtain ⟨t, ht, h⟩ := except_bind_eq_ok h
    obtain ⟨timed, htimed, h⟩ := except_bind_eq_ok h
    obtain ⟨poss1, hposs1, h⟩ := except_bind_eq_ok h
    obtain ⟨tele, htele, h⟩ := except_bind_eq_ok h
    obtain ⟨out, hout, h⟩ := except_bind_eq_ok h
    have hadv := runTimeMachine_spec hp'.1 ha.tm ht
    have hS1 := hp'.1.advance hadv.1 hadv.2
    have hI1 := hpI.1.time t
    have hP0 : (PotPass orc inst cfg w (pot inst p.state)).P p.state := ⟨hpF.1, Nat.le_refl _⟩
    have hP1 := (PotPass orc inst cfg w (pot inst p.state)).advance hpI.1 hp'.1 hP0 hadv.1 hadv.2
    have hbatch := timed_batch_safe w hI1 hS1 htimed (filterTeleport_shape hposs1 htele)
    have hl := (PotPass orc inst cfg w (pot inst p.state)).loop w nn _ _ _ _ _ _ _ hI1 hS1 hP1 hbatch.1 hbatch.2
      ((PotPass orc inst cfg w (pot inst p.state)).timed hI1 hS1 hP1 htimed hposs1 htele)
      (fun σ hσ => by simp at hσ; subst hσ; exact hP0)
      (fun σ hσ => by rw [hlt.2] at hσ; simp at hσ; subst hσ; exact hP0) hout
    have hfin : pot inst out.state < pot inst s0 := Nat.lt_of_le_of_lt hl.1.2 hlt.1
    split at h
    · simp at h
      obtain ⟨rfl, _, rfl⟩ := h
      simp at hsucc
    · split at h
      · obtain ⟨e, _, h⟩ := except_bind_eq_ok h
        simp at h
        obtain ⟨rfl, _, rfl⟩ := h
        cases e <;> exact hfin
      · obtain ⟨poss', _, h⟩ := except_bind_eq_ok h
        simp at h
        obtain ⟨rfl, _, rfl⟩ := h
        exact hfin

/-! ## the environment -/

/-- accepting never touches the allowance of the middleware -/
theorem mwStep_accept_joker {cfg : SMConfig} {mc : MwCfg} {fuel : Nat} {res : SMResult} {m : MwState} {r : Rng}
    {out : SMResult × MwState × Rng × List State}
    (h : mwStep orc inst cfg mc fuel res m r .accept = .ok out) : out.2.1.joker = m.joker := by
  unfold mwStep interpret at h
  cases hp : res.possible with
  | nil => simp [hp] at h
  | cons o rest =>
    simp only [hp, except_pure, except_bind_ok, MwState.addOp] at h
    obtain ⟨⟨res', r', mic⟩, hs, h⟩ := except_bind_eq_ok h
    simp at h; subst h; rfl

/-- what a successful `env.step(1)` leaves behind -/
theorem envStep_accept_spec {ec : EnvCfg} {st : RewardStatic} {e : EnvState} {out : StepOut}
    (h : envStep orc inst ec st e .accept = .ok out) (hs : out.obsRes.success = true) :
    e.done = false ∧ out.env.res = out.obsRes ∧ out.env.mw.joker = e.mw.joker ∧
    out.env.terminated = isDone inst out.env.res.state ∧ out.env.truncated = decide (e.mw.joker < 0) ∧
    out.env.done = (out.env.terminated || out.env.truncated) ∧
    ∃ mw r, mwStep orc inst ec.sm ec.mw ec.fuel e.res e.mw e.rng .accept = .ok (out.obsRes, mw, r, out.micro) := by
  unfold envStep at h
  split at h
  · simp at h
  · rename_i hd
    obtain ⟨⟨res', mw, r, mic⟩, hm, h⟩ := except_bind_eq_ok h
    simp only at h
    obtain ⟨⟨rew, cnt⟩, _, h⟩ := except_bind_eq_ok h
    simp at h; subst h
    simp at hs
    have hj := mwStep_accept_joker hm
    simp only at hj
    simp [hs, hj, hm]
    simpa using hd

/-- **Accepting an offer strictly decreases the potential**, whenever the step returns and
succeeds.  (`e.res.possible ≠ []` is not needed as a hypothesis: without an offer `interpret`
raises, so the step does not return.) -/
theorem accept_decreases {ec : EnvCfg} {st : RewardStatic} {s0 : State} (hst : Start orc inst s0) {e : EnvState}
    (hr : EnvReach orc inst ec st s0 e) {out : StepOut} (h : envStep orc inst ec st e .accept = .ok out)
    (hs : out.obsRes.success = true) : pot inst out.env.res.state < pot inst e.res.state := by
  obtain ⟨_, hres, _, _, _, _, mw, r, hm⟩ := envStep_accept_spec h hs
  rw [hres]
  have hi := envReach_inv hst hr
  rcases mwStep_cases hm with ⟨_, _, _, hd, _⟩ | ⟨act, hsub, hk, hstep⟩
  · cases hd
  · rcases hk with ⟨_, htm, htr, hne⟩ | ⟨hd, _⟩
    · have hO := hi.liveF hne
      obtain ⟨w, hI, hS⟩ := occursA_inv hst hO.toC.toA
      have nn := nonnegB_sound hst.samples hst.nonneg
      have hP := occursF_full hst hO
      obtain ⟨poss, hposs, hsubp⟩ := hi.offersFrom hne
      cases hp : e.res.possible with
      | nil => exact absurd hp hne
      | cons x xs =>
        have hx : x ∈ poss := hsubp x (by rw [hp]; simp)
        have hat : act.transitions = [x] := by rw [htr, hp]; rfl
        have ha : Admissible act :=
          ⟨fun tr htr' => by rw [hat] at htr'; simp at htr'; subst htr'; exact offers_offerShaped hposs _ hx,
           by rw [htm]; simp⟩
        exact smStep_pot_lt w nn hI hS hP ha hposs hx hat hstep hs
    · cases hd

/-- **No environment step – whatever the agent answers – increases the potential.**  So in every
episode the number of successful accepts is at most the potential of the reset state. -/
theorem envStep_pot_le {ec : EnvCfg} {st : RewardStatic} {s0 : State} (hst : Start orc inst s0) {e : EnvState}
    (hr : EnvReach orc inst ec st s0 e) {a : AgentAct} {out : StepOut} (h : envStep orc inst ec st e a = .ok out) :
    pot inst out.env.res.state ≤ pot inst e.res.state := by
  have hi := envReach_inv hst hr
  unfold envStep at h
  split at h
  · simp at h
  · obtain ⟨⟨res', mw, r, mic⟩, hm, h⟩ := except_bind_eq_ok h
    simp only at h
    obtain ⟨⟨rew, cnt⟩, _, h⟩ := except_bind_eq_ok h
    simp at h; subst h
    by_cases hsuc : res'.success = true
    · simp only [hsuc, if_true]
      rcases mwStep_cases hm with ⟨o, o', rest, _, hp, e1, _⟩ | ⟨act, hsub, hk, hs⟩
      · simp only at e1; rw [e1]; exact Nat.le_refl _
      · have hne : e.res.possible ≠ [] := by
          rcases hk with ⟨_, _, _, h⟩ | ⟨_, _, _, h⟩
          · exact h
          · intro h0; rw [h0] at h; simp at h
        have hl := hi.live hne
        have ha : Admissible act := by
          refine ⟨fun tr htr => hl.2 tr ?_, ?_⟩
          · have := hsub tr htr
            cases hp : e.res.possible with
            | nil => rw [hp] at this; simp at this
            | cons x xs => rw [hp] at this; simp at this; rw [this]; simp
          · rcases hk with ⟨_, h, _⟩ | ⟨_, h, _⟩ <;> rw [h] <;> simp
        have hadm : AdmOffer inst ec.sm e.res.state act := by
          obtain ⟨poss, hposs, hsub⟩ := hi.offersFrom hne
          rcases hk with ⟨_, _, ht, _⟩ | ⟨_, _, ht, _⟩
          · right
            cases hp : e.res.possible with
            | nil => exact absurd hp hne
            | cons x xs => exact ⟨poss, hposs, x, hsub x (by rw [hp]; simp), by rw [ht, hp]; rfl⟩
          · left; exact ht
        have hO := hi.liveF hne
        obtain ⟨w, hI, hS⟩ := occursA_inv hst hO.toC.toA
        have nn := nonnegB_sound hst.samples hst.nonneg
        obtain ⟨t, ht⟩ := ((PotPass orc inst ec.sm w (pot inst e.res.state)).smStep w nn hI hS
          ⟨occursF_full hst hO, Nat.le_refl _⟩ ha hadm hs).2.2.1
        exact ht.2
    · simp only [hsuc]
      exact Nat.le_refl _

/-! ## the always-accept run -/

/-- `n` times `env.step(1)`, stopping when the episode is done.  A step that raises, or that
returns `success = false` (which truncates the episode), ends the run with an error: `= .ok e`
says that every step made returned and succeeded. -/
def acceptRun (orc : Oracle) (inst : Instance) (ec : EnvCfg) (st : RewardStatic) : Nat → EnvState → Except Err EnvState
  | 0, e => .ok e
  | n + 1, e =>
    if e.done then .ok e else
    match envStep orc inst ec st e .accept with
    | .error err => .error err
    | .ok out => if out.obsRes.success then acceptRun orc inst ec st n out.env else .error .unsuccessful

/-- what holds of every state of an always-accept run -/
structure RunInv (orc : Oracle) (inst : Instance) (ec : EnvCfg) (st : RewardStatic) (s0 : State) (e0 e : EnvState) : Prop where
  reach : EnvReach orc inst ec st s0 e
  succ : e.res.success = true
  joker : 0 ≤ e.mw.joker
  trunc : e.truncated = false
  done : e.done = e.terminated
  term : e = e0 ∨ e.terminated = isDone inst e.res.state

theorem runInv_step {ec : EnvCfg} {st : RewardStatic} {s0 : State} {e0 e : EnvState}
    (hi : RunInv orc inst ec st s0 e0 e) {out : StepOut} (h : envStep orc inst ec st e .accept = .ok out)
    (hs : out.obsRes.success = true) : RunInv orc inst ec st s0 e0 out.env := by
  obtain ⟨_, hres, hj, hterm, htrunc, hdone, _⟩ := envStep_accept_spec h hs
  have htr : out.env.truncated = false := by
    rw [htrunc]; simp; exact hi.joker
  refine ⟨EnvReach.step hi.reach h, by rw [hres]; exact hs, by rw [hj]; exact hi.joker, htr, ?_, Or.inr hterm⟩
  rw [hdone, htr]; simp

/-- along an always-accept run the potential drops by one per step, until the episode terminates -/
theorem acceptRun_pot {ec : EnvCfg} {st : RewardStatic} {s0 : State} (hst : Start orc inst s0) {e0 : EnvState} :
    ∀ (n : Nat) (e e' : EnvState), RunInv orc inst ec st s0 e0 e → acceptRun orc inst ec st n e = .ok e' →
      RunInv orc inst ec st s0 e0 e' ∧ (e'.terminated = true ∨ pot inst e'.res.state + n ≤ pot inst e.res.state) := by
  intro n
  induction n with
  | zero =>
    intro e e' hi h
    simp [acceptRun] at h; subst h
    exact ⟨hi, Or.inr (by omega)⟩
  | succ n ih =>
    intro e e' hi h
    simp only [acceptRun] at h
    by_cases hd : e.done = true
    · simp [hd] at h; subst h
      exact ⟨hi, Or.inl (by rw [← hi.done]; exact hd)⟩
    · simp only [hd, Bool.false_eq_true, if_false] at h
      cases hstep : envStep orc inst ec st e .accept with
      | error err => simp [hstep] at h
      | ok out =>
        simp only [hstep] at h
        by_cases hs : out.obsRes.success = true
        · simp only [hs, if_true] at h
          have hlt := accept_decreases hst hi.reach hstep hs
          obtain ⟨hi', hc⟩ := ih out.env e' (runInv_step hi hstep hs) h
          refine ⟨hi', ?_⟩
          rcases hc with hc | hc
          · exact Or.inl hc
          · exact Or.inr (by omega)
        · simp [hs] at h

/-- the flags of a freshly reset environment -/
theorem envReset_flags {ec : EnvCfg} {s0 : State} {r0 : Rng} {e0 : EnvState} {mic0 : List State}
    (hreset : envReset orc inst ec s0 r0 = .ok (e0, mic0)) :
    e0.mw.joker = ec.mw.jokerInit ∧ e0.truncated = false ∧ e0.done = false ∧ e0.terminated = false ∧
      (e0.res.success = false → e0.res.possible = []) := by
  unfold envReset mwReset at hreset
  obtain ⟨⟨res, mw, r', mic'⟩, h1, h⟩ := except_bind_eq_ok hreset
  obtain ⟨⟨res', r'', mic''⟩, h2, h1⟩ := except_bind_eq_ok h1
  simp at h1 h
  obtain ⟨rfl, rfl, rfl, rfl⟩ := h1
  obtain ⟨rfl, rfl⟩ := h
  refine ⟨rfl, rfl, rfl, rfl, fun hf => ?_⟩
  rcases (smStep_spec h2).2 with h3 | h3 | h3
  · exact h3.2.2.2
  · exact h3.2.2.1
  · simp only at hf; rw [h3.1] at hf; cases hf

/-- `env.step(1)` returns only when there is an offer -/
theorem envStep_accept_offer {ec : EnvCfg} {st : RewardStatic} {e : EnvState} {out : StepOut}
    (h : envStep orc inst ec st e .accept = .ok out) : e.res.possible ≠ [] := by
  unfold envStep at h
  split at h
  · simp at h
  · obtain ⟨⟨res', mw, r, mic⟩, hm, _⟩ := except_bind_eq_ok h
    rcases mwStep_cases hm with ⟨_, _, _, hd, _⟩ | ⟨_, _, hk, _⟩
    · cases hd
    · rcases hk with ⟨_, _, _, hne⟩ | ⟨hd, _⟩
      · exact hne
      · cases hd

/-- **The always-accept agent is done after at most `potBound inst = 2·numOps + numJobs` steps, if
every step returns.**  For an instance with unordered buffers and an AGV (`flexInstB`, `hasAgvB`)
and a non-negative truncation allowance: if the run of `n ≥ potBound inst` accepted offers from
the reset state returns (no step raised, every step reported success), then the state it ends in
has every job in an output buffer, the episode is not truncated, and – unless the reset state
was finished already – it is reported terminated. -/
theorem always_accept_bound {ec : EnvCfg} {st : RewardStatic} {s0 : State} (hst : Start orc inst s0)
    (hF : flexInstB inst = true) (hA : hasAgvB inst = true) (hjk : 0 ≤ ec.mw.jokerInit)
    {r0 : Rng} {e0 : EnvState} {mic0 : List State} (hreset : envReset orc inst ec s0 r0 = .ok (e0, mic0))
    {n : Nat} {e : EnvState} (hrun : acceptRun orc inst ec st n e0 = .ok e) (hn : potBound inst ≤ n) :
    isDone inst e.res.state = true ∧ e.truncated = false ∧
      (isDone inst e0.res.state = false → e.terminated = true) := by
  have hr0 : EnvReach orc inst ec st s0 e0 := EnvReach.reset hreset
  obtain ⟨hjok, htr0, hd0, ht0, hfail⟩ := envReset_flags hreset
  have hshape := (envReach_inv hst hr0).struct.shape
  by_cases hs0 : e0.res.success = true
  · have hi0 : RunInv orc inst ec st s0 e0 e0 :=
      ⟨hr0, hs0, by rw [hjok]; exact hjk, htr0, by rw [hd0, ht0], Or.inl rfl⟩
    obtain ⟨hi, hc⟩ := acceptRun_pot hst n e0 e hi0 hrun
    have hdone : isDone inst e.res.state = true := by
      rcases hc with hc | hc
      · rcases hi.term with rfl | ht
        · rw [ht0] at hc; cases hc
        · rw [← ht]; exact hc
      · -- the potential is exhausted, so there is no offer, so the shop is finished
        have hb := pot_le_bound (inst := inst) hshape
        have hzero : pot inst e.res.state = 0 := by omega
        cases hnd : isDone inst e.res.state with
        | true => rfl
        | false =>
          exfalso
          have hne := env_offers hst hF hA hi.reach hi.succ hnd
          have hri := envReach_inv hst hi.reach
          have hO := hri.liveF hne
          obtain ⟨w, hI, hS⟩ := occursA_inv hst hO.toC.toA
          have hP := occursF_full hst hO
          obtain ⟨poss, hposs, hsubp⟩ := hri.offersFrom hne
          have hpne : poss ≠ [] := by
            cases hp : e.res.possible with
            | nil => exact absurd hp hne
            | cons x xs =>
              intro e0'
              have := hsubp x (by rw [hp]; simp)
              rw [e0'] at this; cases this
          have := offer_pot_pos w hI hS hP.route hposs hpne
          omega
    refine ⟨hdone, hi.trunc, fun h0 => ?_⟩
    rcases hi.term with rfl | ht
    · rw [hdone] at h0; cases h0
    · rw [ht]; exact hdone
  · -- the reset itself was unsuccessful: there is no offer, so no step returns
    have hs0' : e0.res.success = false := by simpa using hs0
    cases n with
    | zero =>
      simp [acceptRun] at hrun; subst hrun
      have hlen : inst.jobs.length = 0 := by unfold potBound at hn; omega
      have hjobs : e0.res.state.jobs = [] := by
        have := congrArg List.length hshape.jobs
        simp only [List.length_map] at this
        exact List.eq_nil_of_length_eq_zero (by omega)
      have hdone : isDone inst e0.res.state = true := by unfold isDone; rw [hjobs]; rfl
      exact ⟨hdone, htr0, fun h0 => by rw [hdone] at h0; cases h0⟩
    | succ n =>
      exfalso
      simp only [acceptRun, hd0, Bool.false_eq_true, if_false] at hrun
      cases hstep : envStep orc inst ec st e0 .accept with
      | error err => simp [hstep] at hrun
      | ok out => exact envStep_accept_offer hstep (hfail hs0')

/-! ## non-vacuity -/

namespace ExB

/-- reset the completed example instance (`ExT.instT`: 2 jobs × 2 machines, one AGV, unordered
buffers, total travel matrix) and accept `potBound` = 10 times -/
def runsOK : Bool :=
  match envReset ExT.orc0 ExT.instT ExT.ec Ex.s0 ExT.r0 with
  | .error _ => false
  | .ok (e0, _) =>
    match acceptRun ExT.orc0 ExT.instT ExT.ec ExT.st (potBound ExT.instT) e0 with
    | .error _ => false
    | .ok _ => true

/-- the hypotheses of `always_accept_bound` are jointly satisfiable: on the example every one of the
ten steps returns and succeeds, and the run ends with every job delivered -/
theorem ex_accept_run : ∃ e0 mic0 e, envReset ExT.orc0 ExT.instT ExT.ec Ex.s0 ExT.r0 = .ok (e0, mic0) ∧
    acceptRun ExT.orc0 ExT.instT ExT.ec ExT.st (potBound ExT.instT) e0 = .ok e ∧
    isDone ExT.instT e.res.state = true ∧ e.truncated = false := by
  have h : runsOK = true := by decide
  unfold runsOK at h
  split at h
  · cases h
  · rename_i e0 mic0 hreset
    split at h
    · cases h
    · rename_i e hrun
      have := always_accept_bound ExT.start_exT (by decide) (by decide) (by decide) hreset hrun (Nat.le_refl _)
      exact ⟨e0, mic0, e, hreset, hrun, this.1, this.2.1⟩

end ExB

end JSL
