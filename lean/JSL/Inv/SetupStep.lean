import JSL.Inv.SetupRecs

/-!
# Setup separation: the four machine handlers
-/

namespace JSL

variable {orc : Oracle} {inst : Instance}

/-- the common shape of the four machine handlers: one record `target` of one job is rewritten to
`rec`, one machine `m0` is replaced by `M'` -/
structure RecStep (s s' : State) (m0 M' : MachineState) (target rec : OpState) : Prop where
  tmem : target ∈ recs s
  key : rec.job = target.job ∧ rec.idx = target.idx
  rmem : ∀ x, x ∈ recs s' ↔ x = rec ∨ (x ∈ recs s ∧ x ≠ target)
  hm0 : m0 ∈ s.machines
  mid : M'.id = m0.id
  machines : s'.machines = (s.replaceMachine M').machines
  recm : rec.machine = m0.id
  tgm : target.machine = m0.id

variable {s s' : State} {m0 M' : MachineState} {target rec : OpState}

theorem RecStep.mk_of (w : WF inst) (hI : StructInv inst s) {j J' : JobState}
    (hj : j ∈ s.jobs) (hm0 : m0 ∈ s.machines) (htm : target ∈ j.ops)
    (hkey : rec.job = target.job ∧ rec.idx = target.idx) (hJid : J'.id = j.id) (hJops : J'.ops = (j.replaceOp rec).ops)
    (hMid : M'.id = m0.id) (hjobs : s'.jobs = (s.replaceJob J').jobs) (hmach : s'.machines = (s.replaceMachine M').machines)
    (hrecm : rec.machine = m0.id) (htgm : target.machine = m0.id) : RecStep s s' m0 M' target rec :=
  ⟨mem_recs.mpr ⟨j, hj, htm⟩, hkey, mem_recs_replace w hI hj htm hkey hJid hJops hjobs, hm0, hMid, hmach, hrecm, htgm⟩

/-- the machines other than the acting one keep their clauses -/
theorem RecStep.inv (w : WF inst) (hI : StructInv inst s) (hP : SetupInv inst s) (h : RecStep s s' m0 M' target rec)
    (hM : MachOK inst (recs s') M') (hC : Chain inst (recs s')) : SetupInv inst s' := by
  refine ⟨?_, hC⟩
  intro m1 hm1
  rw [h.machines] at hm1
  rcases (mem_replaceMachine (hI.shape.machNodup w) h.hm0 h.mid m1).mp hm1 with rfl | ⟨hm1', hne⟩
  · exact hM
  · refine (hP.mach m1 hm1').congr ?_ rfl rfl rfl
    intro x hx
    rw [h.rmem x]
    constructor
    · rintro (rfl | ⟨hx', _⟩)
      · exact absurd (hx.symm.trans h.recm) hne
      · exact hx'
    · intro hx'
      refine Or.inr ⟨hx', ?_⟩
      rintro rfl
      exact hne (hx.symm.trans h.tgm)

/-- the finished records are the same when neither the old nor the new record is finished -/
theorem RecStep.done_same (h : RecStep s s' m0 M' target rec) (ht : target.st ≠ .done) (hr : rec.st ≠ .done) :
    ∀ x, x.st = .done → (x ∈ recs s' ↔ x ∈ recs s) := by
  intro x hx
  rw [h.rmem x]
  constructor
  · rintro (rfl | ⟨hx', _⟩)
    · exact absurd hx hr
    · exact hx'
  · intro hx'
    refine Or.inr ⟨hx', ?_⟩
    rintro rfl
    exact ht hx

theorem RecStep.done_old (h : RecStep s s' m0 M' target rec) (hr : rec.st ≠ .done) {mid : Nat} {a : OpState}
    (ha : DoneOn (recs s') mid a) : DoneOn (recs s) mid a := by
  refine ⟨?_, ha.mach, ha.st⟩
  rcases (h.rmem a).mp ha.mem with rfl | ⟨hx, _⟩
  · exact absurd ha.st hr
  · exact hx

theorem RecStep.done_new (h : RecStep s s' m0 M' target rec) (ht : target.st ≠ .done) {mid : Nat} {a : OpState}
    (ha : DoneOn (recs s) mid a) : DoneOn (recs s') mid a := by
  refine ⟨(h.rmem a).mpr (Or.inr ⟨ha.mem, ?_⟩), ha.mach, ha.st⟩
  rintro rfl
  exact ht ha.st

/-- after the step the only record in progress on the acting machine is the rewritten one -/
theorem RecStep.proc_is_rec (w : WF inst) (hI : StructInv inst s) (hS : SchedInv s) (h : RecStep s s' m0 M' target rec)
    (hcase : m0.st = .idle ∨ target.st = .processing) {b : OpState} (hb : ProcOn (recs s') M'.id b) : b = rec := by
  rcases (h.rmem b).mp hb.mem with e | ⟨hx, hne⟩
  · exact e
  · exfalso
    have hbm : b.machine = m0.id := by rw [hb.mach, h.mid]
    rcases hcase with hi | hp
    · exact no_proc_on_idle w hI hS h.hm0 hi ⟨hx, hbm, hb.st⟩
    · exact hne (proc_unique w hI hS hx h.tmem (by rw [hbm, h.tgm]) hb.st hp)

theorem rec_mem (h : RecStep s s' m0 M' target rec) : rec ∈ recs s' := (h.rmem rec).mpr (Or.inl rfl)

/-- IDLE → SETUP: the accepted record spans exactly the setup time from the tool of the last
finished operation -/
theorem setup_step_accept (w : WF inst) (hI : StructInv inst s) (hS : SchedInv s) (hP : SetupInv inst s)
    (h : RecStep s s' m0 M' target rec) (hst0 : m0.st = .idle) (hst' : M'.st = .setup) (htd : target.st ≠ .done)
    (hrs : rec.st = .processing) (hrS : tS rec = s.time) {tl : Nat} (htool' : M'.tool = tl)
    (hrt : toolOf inst rec = some tl) {mc : MachineCfg} (hmc : mc ∈ inst.machines) (hmcid : mc.id = m0.id)
    {c : TimeCfg} (hc : mc.setup.lookup (m0.tool, tl) = some c) {sd : Int} {r r' : Rng}
    (hsd : (sd, r') = c.readUpd orc r) (hrE : tE rec = s.time + sd) : SetupInv inst s' := by
  have hrd : rec.st ≠ .done := by rw [hrs]; simp
  refine h.inv w hI hP ?_ (hP.chain.congr (h.done_same htd hrd))
  have hold := hP.mach m0 h.hm0
  constructor
  · intro _ b hb
    rw [h.proc_is_rec w hI hS (Or.inl hst0) hb, htool']; exact hrt
  · intro hi; rw [hst'] at hi; cases hi
  · intro _ b hb a ha
    have hbe := h.proc_is_rec w hI hS (Or.inl hst0) hb
    subst hbe
    rw [h.mid] at ha ⊢
    obtain ⟨p, hp, hnb, htp⟩ := hold.mountedIdle hst0 a (h.done_old hrd ha)
    refine ⟨p, h.done_new htd hp, hnb, ?_, ?_⟩
    · rw [hrS]; exact (done_times hS hp.mem hp.st).2.2.2
    · rintro d ⟨mc', hmc', hid', tp, tb, e1, e2, e3⟩
      have : mc' = mc := eq_of_mem_of_key_eq (key := fun (y : MachineCfg) => y.id) w.machNodup hmc' hmc (by rw [hid', hmcid])
      subst this
      rw [htp] at e1; rw [hrt] at e2
      simp only [Option.some.injEq] at e1 e2
      subst e1 e2
      rw [hc] at e3
      simp only [Option.some.injEq] at e3
      subst e3
      have : sd = d := by
        have := congrArg Prod.fst hsd
        simpa [TimeCfg.readUpd] using this
      rw [hrE, hrS, this]
  · intro hw; rw [hst'] at hw; rcases hw with hw | hw <;> cases hw

/-- SETUP → WORKING (due): processing starts at least the setup time after the predecessor ended -/
theorem setup_step_begin (w : WF inst) (hI : StructInv inst s) (hS : SchedInv s) (hP : SetupInv inst s)
    (h : RecStep s s' m0 M' target rec) (hst0 : m0.st = .setup) (hst' : M'.st = .working) (htool' : M'.tool = m0.tool)
    (htp : target.st = .processing) (hrs : rec.st = .processing) (hrS : tS rec = s.time)
    (hdue : tE target ≤ s.time) : SetupInv inst s' := by
  have hrd : rec.st ≠ .done := by rw [hrs]; simp
  have htd : target.st ≠ .done := by rw [htp]; simp
  refine h.inv w hI hP ?_ (hP.chain.congr (h.done_same htd hrd))
  have hold := hP.mach m0 h.hm0
  have hbusy : m0.st ≠ .idle := by rw [hst0]; simp
  have htproc : ProcOn (recs s) m0.id target := ⟨h.tmem, h.tgm, htp⟩
  constructor
  · intro _ b hb
    rw [h.proc_is_rec w hI hS (Or.inr htp) hb, htool', toolOf_congr h.key.1 h.key.2]
    exact hold.mounted hbusy target htproc
  · intro hi; rw [hst'] at hi; cases hi
  · intro hs; rw [hst'] at hs; cases hs
  · intro _ b hb a ha
    have hbe := h.proc_is_rec w hI hS (Or.inr htp) hb
    subst hbe
    rw [h.mid] at ha ⊢
    obtain ⟨p, hp, hnb, hle, hex⟩ := hold.setup hst0 target htproc a (h.done_old hrd ha)
    refine ⟨p, h.done_new htd hp, hnb, ?_, ?_⟩
    · rw [hrS]; exact (done_times hS hp.mem hp.st).2.2.2
    · intro d hd
      have := hex d ((detSetup_congr h.key.1 h.key.2).mp hd)
      rw [hrS]; omega

/-- WORKING → OUTAGE: the start of the record in progress does not change -/
theorem setup_step_extend (w : WF inst) (hI : StructInv inst s) (hS : SchedInv s) (hP : SetupInv inst s)
    (h : RecStep s s' m0 M' target rec) (hst0 : m0.st = .working) (hst' : M'.st = .outage) (htool' : M'.tool = m0.tool)
    (htp : target.st = .processing) (hrs : rec.st = .processing) (hrS : tS rec = tS target) : SetupInv inst s' := by
  have hrd : rec.st ≠ .done := by rw [hrs]; simp
  have htd : target.st ≠ .done := by rw [htp]; simp
  refine h.inv w hI hP ?_ (hP.chain.congr (h.done_same htd hrd))
  have hold := hP.mach m0 h.hm0
  have hbusy : m0.st ≠ .idle := by rw [hst0]; simp
  have htproc : ProcOn (recs s) m0.id target := ⟨h.tmem, h.tgm, htp⟩
  constructor
  · intro _ b hb
    rw [h.proc_is_rec w hI hS (Or.inr htp) hb, htool', toolOf_congr h.key.1 h.key.2]
    exact hold.mounted hbusy target htproc
  · intro hi; rw [hst'] at hi; cases hi
  · intro hs; rw [hst'] at hs; cases hs
  · intro _ b hb a ha
    have hbe := h.proc_is_rec w hI hS (Or.inr htp) hb
    subst hbe
    rw [h.mid] at ha ⊢
    obtain ⟨p, hp, hnb, hle, hsep⟩ := hold.work (Or.inl hst0) target htproc a (h.done_old hrd ha)
    refine ⟨p, h.done_new htd hp, hnb, by rw [hrS]; exact hle, ?_⟩
    intro d hd
    rw [hrS]; exact hsep d ((detSetup_congr h.key.1 h.key.2).mp hd)

/-- OUTAGE → IDLE: the finished record joins the chain, its tool stays mounted -/
theorem setup_step_finish (w : WF inst) (hI : StructInv inst s) (hS : SchedInv s) (hP : SetupInv inst s)
    (h : RecStep s s' m0 M' target rec) (hst0 : m0.st = .outage) (hst' : M'.st = .idle) (htool' : M'.tool = m0.tool)
    (htp : target.st = .processing) (hrs : rec.st = .done) (hrS : tS rec = tS target) : SetupInv inst s' := by
  have htd : target.st ≠ .done := by rw [htp]; simp
  have hold := hP.mach m0 h.hm0
  have hbusy : m0.st ≠ .idle := by rw [hst0]; simp
  have htproc : ProcOn (recs s) m0.id target := ⟨h.tmem, h.tgm, htp⟩
  have hrec : DoneOn (recs s') m0.id rec := ⟨rec_mem h, h.recm, hrs⟩
  -- an old finished record on the machine ended before the finishing record started
  have before : ∀ a, a ∈ recs s → a.st = .done → a.machine = m0.id → tE a ≤ tS rec := by
    intro a ha has ham
    rw [hrS]
    exact done_before_proc hS ha h.tmem (by rw [ham, h.tgm]) has htp
  have sepc : ∀ {p : OpState}, Sep inst m0.id p target → Sep inst m0.id p rec := by
    rintro p ⟨hle, hsep⟩
    refine ⟨by rw [hrS]; exact hle, ?_⟩
    intro d hd
    rw [hrS]; exact hsep d ((detSetup_congr h.key.1 h.key.2).mp hd)
  refine h.inv w hI hP ?_ ?_
  · constructor
    · intro hb; exact absurd hst' hb
    · intro _ a ha
      rw [h.mid] at ha ⊢
      refine ⟨rec, hrec, ?_, ?_⟩
      · rcases (h.rmem a).mp ha.mem with e | ⟨hx, _⟩
        · exact Or.inl e.symm
        · exact Or.inr (before a hx ha.st ha.mach)
      · rw [htool', toolOf_congr h.key.1 h.key.2]
        exact hold.mounted hbusy target htproc
    · intro hs; rw [hst'] at hs; cases hs
    · intro hw; rw [hst'] at hw; rcases hw with hw | hw <;> cases hw
  · intro b a hb ha hbs has hm hne
    rcases (h.rmem b).mp hb with rfl | ⟨hb0, hbt⟩
    · -- the record that has just finished
      rcases (h.rmem a).mp ha with rfl | ⟨ha0, _⟩
      · exact absurd rfl hne
      · right
        rw [h.recm] at hm ⊢
        obtain ⟨p, hp, hnb, hsep⟩ := hold.work (Or.inr hst0) target htproc a ⟨ha0, hm, has⟩
        refine ⟨p, h.done_new htd hp, ?_, hnb, sepc hsep⟩
        intro e
        have := rec_not_old w hI h.tmem h.key hp.mem e
        rw [this] at hp
        exact htd hp.st
    · rcases (h.rmem a).mp ha with rfl | ⟨ha0, _⟩
      · left
        exact before b hb0 hbs (by rw [← hm, h.recm])
      · rcases hP.chain b a hb0 ha0 hbs has hm hne with h1 | ⟨p, hp, h2, h3, h4⟩
        · exact Or.inl h1
        · exact Or.inr ⟨p, h.done_new htd hp, h2, h3, h4⟩

end JSL
