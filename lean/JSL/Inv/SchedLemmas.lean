import JSL.Inv.OpsLemmas

/-! Helper lemmas for the schedule invariant: uniqueness of where a job is stored, distinctness of
buffer ids of different machines, `processing?` after rewriting a record. -/

namespace JSL

variable {inst : Instance}

theorem flatMap_nodup_disjoint {α} (f : α → List Nat) : ∀ (l : List α), (l.flatMap f).Nodup →
    ∀ x ∈ l, ∀ y ∈ l, x ≠ y → ∀ u ∈ f x, ∀ v ∈ f y, u ≠ v
  | [], _, x, hx, _, _, _, _, _, _, _ => by cases hx
  | a :: as, hnd, x, hx, y, hy, hxy, u, hu, v, hv => by
    simp only [List.flatMap_cons] at hnd
    have h := List.nodup_append.mp hnd
    rcases List.mem_cons.mp hx with rfl | hx' <;> rcases List.mem_cons.mp hy with rfl | hy'
    · exact absurd rfl hxy
    · exact h.2.2 u hu v (List.mem_flatMap.mpr ⟨y, hy', hv⟩)
    · intro e; exact h.2.2 v hv u (List.mem_flatMap.mpr ⟨x, hx', hu⟩) e.symm
    · exact flatMap_nodup_disjoint f as h.2.1 x hx' y hy' hxy u hu v hv

/-- buffers of different machines have different ids -/
theorem machines_bufs_ne {s : State} (hs : Shape inst s) (w : WF inst) {m₁ m₂ : MachineState}
    (h₁ : m₁ ∈ s.machines) (h₂ : m₂ ∈ s.machines) (hne : m₁.id ≠ m₂.id) :
    ∀ u ∈ [m₁.pre.id, m₁.buffer.id, m₁.post.id], ∀ v ∈ [m₂.pre.id, m₂.buffer.id, m₂.post.id], u ≠ v := by
  have hnd := hs.bufNodup w
  unfold allBufStates at hnd
  simp only [List.map_append, List.map_flatMap] at hnd
  have h2 := (List.nodup_append.mp (List.nodup_append.mp hnd).1).2.1
  have := flatMap_nodup_disjoint (fun m : MachineState => List.map (·.id) [m.pre, m.buffer, m.post]) s.machines h2
    m₁ h₁ m₂ h₂ (fun e => hne (by rw [e]))
  simpa using this

/-- the internal buffer of any machine differs from the pre- and post-buffer of any machine -/
theorem internal_ne_pre_post {s : State} (hs : Shape inst s) (w : WF inst) {m₁ m₂ : MachineState}
    (h₁ : m₁ ∈ s.machines) (h₂ : m₂ ∈ s.machines) : m₁.buffer.id ≠ m₂.pre.id ∧ m₁.buffer.id ≠ m₂.post.id := by
  by_cases e : m₁.id = m₂.id
  · have : m₁ = m₂ := eq_of_mem_of_key_eq (key := fun (y : MachineState) => y.id) (hs.machNodup w) h₁ h₂ e
    subst this
    have := machine_buf_ids_ne hs w h₁
    exact ⟨this.1.symm, this.2.2⟩
  · have := machines_bufs_ne hs w h₁ h₂ e
    exact ⟨this _ (by simp) _ (by simp), this _ (by simp) _ (by simp)⟩

/-- a job id is stored under one buffer id only -/
theorem unique_store {s : State} (c : ConservedV s) (hnd : (s.jobs.map (·.id)).Nodup) {x a b : Nat}
    (ha : x ∈ storeAt s a) (hb : x ∈ storeAt s b) : a = b :=
  unique_loc hnd (c.stored a x ha) (c.stored b x hb)

/-- the job in a store is the job of that id -/
theorem job_of_store {s : State} (c : ConservedV s) {i : Nat} {j : JobState} (hj : j ∈ s.jobs)
    (h : j.id ∈ storeAt s i) (hnd : (s.jobs.map (·.id)).Nodup) : j.loc = i := by
  have h1 := c.stored i j.id h
  have h2 : (j.id, j.loc) ∈ locs s := List.mem_map.mpr ⟨j, hj, rfl⟩
  exact unique_loc hnd h2 h1

theorem processing?_split {j : JobState} {l1 l2 : List OpState} {op : OpState} (hops : j.ops = l1 ++ op :: l2)
    (hd : ∀ x ∈ l1, x.st = .done) (hop : op.st = .processing) : j.processing? = some op := by
  unfold JobState.processing?
  rw [hops, List.find?_append]
  have : l1.find? (fun o => o.st == OSt.processing) = none := by
    apply List.find?_eq_none.mpr
    intro x hx; simp [hd x hx]
  simp [this, hop]

theorem nextNotDone?_split {j : JobState} {op : OpState} (h : j.nextNotDone? = some op) :
    ∃ l1 l2, j.ops = l1 ++ op :: l2 ∧ (∀ x ∈ l1, x.st = .done) ∧ op.st ≠ .done := by
  unfold JobState.nextNotDone? at h
  obtain ⟨hp, l1, l2, hl, hall⟩ := List.find?_eq_some_iff_append.mp h
  refine ⟨l1, l2, hl, ?_, by simpa using hp⟩
  intro x hx
  have := hall x hx
  simpa using this

theorem processing?_split' {j : JobState} {op : OpState} (h : j.processing? = some op) :
    ∃ l1 l2, j.ops = l1 ++ op :: l2 ∧ (∀ x ∈ l1, x.st ≠ .processing) ∧ op.st = .processing := by
  unfold JobState.processing? at h
  obtain ⟨hp, l1, l2, hl, hall⟩ := List.find?_eq_some_iff_append.mp h
  refine ⟨l1, l2, hl, ?_, by simpa using hp⟩
  intro x hx
  have := hall x hx
  simpa using this

theorem processing?_none_iff {j : JobState} : j.processing? = none ↔ ∀ o ∈ j.ops, o.st ≠ .processing := by
  unfold JobState.processing?
  rw [List.find?_eq_none]
  constructor
  · intro h o ho; simpa using h o ho
  · intro h o ho; simpa using h o ho

theorem nodup_map_pair (k : Nat) : ∀ (l : List Nat), l.Nodup → (l.map (fun i => (k, i))).Nodup := by
  intro l h
  induction l with
  | nil => simp
  | cons a as ih =>
    simp only [List.nodup_cons, List.map_cons, List.mem_map] at h ⊢
    exact ⟨by rintro ⟨x, hx, e⟩; simp at e; subst e; exact h.1 hx, ih h.2⟩

/-- keys `(job, idx)` of the operations of a job are duplicate-free -/
theorem Shape.ops_key_nodup {s : State} (hs : Shape inst s) (w : WF inst) {j : JobState} (hj : j ∈ s.jobs) :
    (j.ops.map (fun o => (o.job, o.idx))).Nodup := by
  have h1 := hs.ops_idx_nodup w hj
  have : j.ops.map (fun o => (o.job, o.idx)) = (j.ops.map (·.idx)).map (fun i => (j.id, i)) := by
    rw [List.map_map]
    apply List.map_congr_left
    intro o ho
    simp [hs.ops_job w hj ho]
  rw [this]
  exact nodup_map_pair _ _ h1

end JSL
