import JSL.Inv.TotalOut

/-!
# C05 for a class of instances: the AGV handlers that read where the job lies

`handleAgvIdleToWorking` (dispatch), `handleAgvPickupToWaiting` and `handleAgvWaitingToWaiting`
(both call `getWaitingTime`) never raise in a state that satisfies `TotInv`.
-/

namespace JSL

variable {inst : Instance}

/-- the configuration of the buffer a job lies in, and which part of `allBufCfgs` it belongs to -/
theorem job_buffer_cases (w : WF inst) {s : State} (hI : StructInv inst s) {j : JobState} (hj : j ∈ s.jobs) :
    ∃ bc, getBufCfg (allBufCfgs inst) j.loc = .ok bc ∧ bc.id = j.loc ∧
      (bc ∈ inst.buffers ∨
       (∃ mc ∈ inst.machines, ∃ m ∈ s.machines, m.id = mc.id ∧
          ((bc = mc.pre ∧ j.loc = m.pre.id ∧ j.id ∈ m.pre.store) ∨
           (bc = mc.buf ∧ j.loc = m.buffer.id ∧ j.id ∈ m.buffer.store) ∨
           (bc = mc.post ∧ j.loc = m.post.id ∧ j.id ∈ m.post.store))) ∨
       (∃ t ∈ s.transports, j.id ∈ t.buffer.store)) := by
  have hs := hI.shape
  have h1 := hI.cons.located (j.id, j.loc) (List.mem_map.mpr ⟨j, hj, rfl⟩)
  simp only at h1
  obtain ⟨b, hb, hbi, _⟩ := storeAt_mem h1
  have hidm : b.id ∈ (allBufCfgs inst).map (·.id) := by
    rw [← hs.bufIds]; exact List.mem_map.mpr ⟨b, hb, rfl⟩
  obtain ⟨bc, hbc, hbcid⟩ := List.mem_map.mp hidm
  have hid : bc.id = j.loc := by rw [hbcid, hbi]
  have hget := findE_of_mem (key := fun (y : BufCfg) => y.id) w.bufNodup hbc .invalidValue
  simp only [hid] at hget
  refine ⟨bc, hget, hid, ?_⟩
  unfold allBufCfgs at hbc
  rcases List.mem_append.mp hbc with hbc | hbc
  · rcases List.mem_append.mp hbc with hbc | hbc
    · exact Or.inl hbc
    · right; left
      obtain ⟨mc, hmc, hin⟩ := List.mem_flatMap.mp hbc
      simp only [List.mem_cons, List.not_mem_nil, or_false] at hin
      obtain ⟨m, hm, hk⟩ := mem_of_map_eq hs.machines.symm hmc
      simp only [mKey, mcKey, Prod.mk.injEq] at hk
      have hst := mem_allBufs_of_machine hm
      refine ⟨mc, hmc, m, hm, hk.1.symm, ?_⟩
      rcases hin with e | e | e
      · have hl : j.loc = m.pre.id := by rw [← hid, e, hk.2.1]
        refine Or.inl ⟨e, hl, ?_⟩
        rw [← storeAt_of_mem (hs.bufNodup w) hst.1, ← hl]; exact h1
      · have hl : j.loc = m.buffer.id := by rw [← hid, e, hk.2.2.1]
        refine Or.inr (Or.inl ⟨e, hl, ?_⟩)
        rw [← storeAt_of_mem (hs.bufNodup w) hst.2.1, ← hl]; exact h1
      · have hl : j.loc = m.post.id := by rw [← hid, e, hk.2.2.2]
        refine Or.inr (Or.inr ⟨e, hl, ?_⟩)
        rw [← storeAt_of_mem (hs.bufNodup w) hst.2.2, ← hl]; exact h1
  · right; right
    obtain ⟨tcf, htcf, e⟩ := List.mem_map.mp hbc
    obtain ⟨t, ht, hk⟩ := mem_of_map_eq hs.transports.symm htcf
    simp only [tKey, tcKey, Prod.mk.injEq] at hk
    refine ⟨t, ht, ?_⟩
    rw [← storeAt_of_mem (hs.bufNodup w) (mem_allBufs_of_transport ht), ← hk.2, e, hid]
    exact h1

/-- where a job claimed by an AGV that is not in transit lies: in a stand-alone buffer (config in
`inst.buffers`, parent none), or in the internal or post buffer of a machine -- never in a pre-buffer
(`RouteInv.preUnclaimed`) and never in the buffer of an AGV (`AgvInv.empty`, `RouteInv.transitOwn`, `AgvInv.unique`) -/
theorem claimed_job_place (w : WF inst) {s : State} (hV : TotInv inst s) {t : TransportState} (ht : t ∈ s.transports)
    (hst : t.st ≠ .transit) {j : JobState} (hj : j ∈ s.jobs) (hc : t.job = some j.id) :
    ∃ bc, getBufCfg (allBufCfgs inst) j.loc = .ok bc ∧ bc.id = j.loc ∧
      (bc ∈ inst.buffers ∨ ∃ mc ∈ inst.machines, ∃ m ∈ s.machines, m.id = mc.id ∧
          ((bc = mc.buf ∧ j.loc = m.buffer.id ∧ j.id ∈ m.buffer.store) ∨ (bc = mc.post ∧ j.loc = m.post.id ∧ j.id ∈ m.post.store))) := by
  obtain ⟨bc, hget, hid, hcase⟩ := job_buffer_cases w hV.struct hj
  refine ⟨bc, hget, hid, ?_⟩
  rcases hcase with h | ⟨mc, hmc, m, hm, hmid, h⟩ | ⟨t2, ht2, hin⟩
  · exact Or.inl h
  · rcases h with ⟨_, _, hin⟩ | h | h
    · exact absurd hc (hV.full.route.preUnclaimed m hm j.id hin t ht)
    · exact Or.inr ⟨mc, hmc, m, hm, hmid, Or.inl h⟩
    · exact Or.inr ⟨mc, hmc, m, hm, hmid, Or.inr h⟩
  · exfalso
    have htr2 : t2.st = .transit := by
      apply Classical.byContradiction
      intro hne
      rw [hV.full.agv.empty t2 ht2 hne] at hin
      cases hin
    have hown := hV.full.route.transitOwn t2 ht2 htr2 j.id hin
    have hidt := hV.full.agv.unique t2 ht2 t ht j.id hown hc
    have : t2 = t := eq_of_mem_of_key_eq (key := fun (y : TransportState) => y.id) (hV.struct.shape.trNodup w) ht2 ht hidt
    subst this
    exact hst htr2

theorem getWaitingTime_total (w : WF inst) (C : TotClass inst) {s : State} (hV : TotInv inst s) {t : TransportState}
    (ht : t ∈ s.transports) (hst : t.st = .pickup ∨ t.st = .waitingpickup) {tr : Transition} (hjob : tr.job = t.job) :
    ∃ occ, getWaitingTime inst s tr = .ok occ := by
  have hs := hV.struct.shape
  have hjn := hs.jobsNodup w
  obtain ⟨x, hx⟩ := hV.shape.busyClaims t ht hst
  obtain ⟨j, hj, hjx⟩ := hV.full.agv.claimed t ht x hx
  subst hjx
  have hnt : t.st ≠ .transit := by rcases hst with e | e <;> rw [e] <;> decide
  obtain ⟨bc, hget, hid, hcase⟩ := claimed_job_place w hV ht hnt hj hx
  have hgj : getJobOpt s.jobs tr.job = .ok j := by
    rw [hjob, hx]; exact getJob_of_mem hjn hj
  unfold getWaitingTime
  simp only [hgj, hget, except_bind_ok]
  rcases hcase with hb | ⟨mc, hmc, m, hm, hmid, hcase⟩
  · rw [C.parents.standalone bc hb]
    exact ⟨_, rfl⟩
  · have hgm : getMachine s.machines mc.id = .ok m := by
      rw [← hmid]; exact getMachine_of_mem (hs.machNodup w) hm
    have hpar : bc.parent = some (Comp.m mc.id) := by
      rcases hcase with ⟨e, _, _⟩ | ⟨e, _, _⟩
      · rw [e]; exact (C.parents.machine mc hmc).2.1
      · rw [e]; exact (C.parents.machine mc hmc).2.2
    simp only [hpar, hgm, except_bind_ok]
    rcases hcase with ⟨_, hloc, hin⟩ | ⟨_, hloc, hin⟩
    · -- the internal buffer: the job is being processed
      have hnot : m.post.store.contains j.id = false := by
        cases hc : m.post.store.contains j.id with
        | false => rfl
        | true =>
          exfalso
          have hin2 : j.id ∈ m.post.store := List.contains_iff_mem.mp hc
          have hpost := (mem_allBufs_of_machine hm).2.2
          have hloc2 : j.loc = m.post.id :=
            job_of_store hV.struct.cons hj (by rw [storeAt_of_mem (hs.bufNodup w) hpost]; exact hin2) hjn
          exact (machine_buf_ids_ne hs w hm).2.2 (by rw [← hloc, hloc2])
      have hbusy : m.st ≠ .idle := by
        intro hidle
        rw [hV.sched.idleEmpty m hm hidle] at hin
        cases hin
      obtain ⟨j2, hj2, hstore, op, hop, _⟩ := hV.sched.busyHolds m hm hbusy
      have hjj : j = j2 := by
        rw [hstore] at hin
        have e : j.id = j2.id := by simpa using hin
        exact eq_of_mem_of_key_eq (key := fun (y : JobState) => y.id) hjn hj hj2 e
      subst hjj
      simp only [hnot, Bool.false_eq_true, if_false, waitProcessing, hop]
      exact ⟨_, rfl⟩
    · -- the post-buffer: the job is ready
      have hc : m.post.store.contains j.id = true := List.contains_iff_mem.mpr hin
      have hpost := (mem_allBufs_of_machine hm).2.2
      have hr := readyForPickup_flex w C.flex hs hpost hloc hin (kind_of_post hs hm)
      simp only [hc, hr, if_true, except_bind_ok]
      exact ⟨_, rfl⟩

theorem agv_toWaiting_applies (w : WF inst) (C : TotClass inst) {s : State} (hV : TotInv inst s) {t : TransportState}
    (ht : t ∈ s.transports) (hst : t.st = .pickup ∨ t.st = .waitingpickup) {tr : Transition} (hjob : tr.job = t.job) (r : Rng) :
    (∃ out, handleAgvPickupToWaiting inst s r tr t = .ok out) ∧ (∃ out, handleAgvWaitingToWaiting inst s r tr t = .ok out) := by
  obtain ⟨occ, hocc⟩ := getWaitingTime_total w C hV ht hst hjob
  obtain ⟨x, hx⟩ := hV.shape.busyClaims t ht hst
  have hsome : tr.job.isNone = false := by rw [hjob, hx]; rfl
  constructor
  · unfold handleAgvPickupToWaiting
    simp only [hsome, Bool.false_eq_true, if_false, hocc, except_bind_ok, except_pure]
    exact ⟨_, rfl⟩
  · unfold handleAgvWaitingToWaiting
    simp only [hocc, except_bind_ok, except_pure]
    exact ⟨_, rfl⟩

/-- the pickup source of the buffer an unclaimed job outside the output buffers lies in is reached from
every place `reaches` holds of -/
theorem dispatch_source (w : WF inst) (C : TotClass inst) {s : State} (hV : TotInv inst s) {j : JobState} (hj : j ∈ s.jobs)
    (hout : j.loc ∉ outputIds inst) (hfree : ∀ t' ∈ s.transports, t'.job ≠ some j.id) {l : Loc} (hreach : reaches inst l) :
    ∃ bc src, getBufCfg (allBufCfgs inst) j.loc = .ok bc ∧ pickupSource bc j.loc = .ok src ∧
      (travelCfg inst l src).isSome = true := by
  obtain ⟨bc, hget, hid, hcase⟩ := job_buffer_cases w hV.struct hj
  rcases hcase with hb | ⟨mc, hmc, m, hm, hmid, hcase⟩ | ⟨t2, ht2, hin⟩
  · -- a stand-alone buffer that is not an output buffer
    have hpar := C.parents.standalone bc hb
    have hpick : bc ∈ pickupBufs inst := by
      unfold pickupBufs
      apply List.mem_append.mpr; left
      apply List.mem_filter.mpr
      refine ⟨hb, ?_⟩
      cases hrole : (bc.role == BufRole.output) with
      | false => simp [bne, hrole]
      | true =>
        exfalso
        apply hout
        rw [← hid]
        unfold outputIds outputBuffers
        exact List.mem_map.mpr ⟨bc, List.mem_filter.mpr ⟨hb, hrole⟩, rfl⟩
    have hsrc : ∀ n, pickupSource bc n = .ok (Loc.b n) := by
      intro n; unfold pickupSource; rw [hpar]; rfl
    refine ⟨bc, Loc.b j.loc, hget, hsrc _, ?_⟩
    have := hreach bc hpick (Loc.b bc.id) (hsrc _)
    rw [hid] at this
    exact this
  · -- a buffer of a machine: the AGV goes to the machine
    obtain ⟨hp1, hp2, hp3⟩ := C.parents.machine mc hmc
    have hpar : bc.parent = some (Comp.m mc.id) := by
      rcases hcase with ⟨e, _, _⟩ | ⟨e, _, _⟩ | ⟨e, _, _⟩ <;> rw [e] <;> assumption
    have hpick : mc.post ∈ pickupBufs inst := by
      unfold pickupBufs
      exact List.mem_append.mpr (Or.inr (List.mem_flatMap.mpr ⟨mc, hmc, by simp⟩))
    have hsrc : pickupSource bc j.loc = .ok (Loc.m mc.id) := by
      unfold pickupSource; rw [hpar]; rfl
    have hsrc2 : pickupSource mc.post mc.post.id = .ok (Loc.m mc.id) := by
      unfold pickupSource; rw [hp3]; rfl
    exact ⟨bc, Loc.m mc.id, hget, hsrc, hreach mc.post hpick _ hsrc2⟩
  · -- the buffer of an AGV: the carrier claims what it carries
    exfalso
    have htr2 : t2.st = .transit := by
      apply Classical.byContradiction
      intro hne
      rw [hV.full.agv.empty t2 ht2 hne] at hin
      cases hin
    exact hfree t2 ht2 (hV.full.route.transitOwn t2 ht2 htr2 j.id hin)

/-- a dispatch for an unclaimed job that does not lie in an output buffer -/
theorem agv_dispatch_applies (w : WF inst) (C : TotClass inst) {s : State} (hV : TotInv inst s) {t : TransportState}
    (ht : t ∈ s.transports) (hst : t.st = .idle) {tr : Transition} {j : JobState} (hj : j ∈ s.jobs)
    (hjob : tr.job = some j.id) (hout : j.loc ∉ outputIds inst) (hfree : ∀ t' ∈ s.transports, t'.job ≠ some j.id)
    (orc : Oracle) (r : Rng) : ∃ out, handleAgvIdleToWorking orc inst s r tr t = .ok out := by
  have hs := hV.struct.shape
  obtain ⟨l, hl, hreach⟩ := hV.ready.parked t ht (Or.inl hst)
  obtain ⟨d, hd⟩ := dropLoc_total C.tables j
  obtain ⟨bc, src, hbc, hsrc, htc⟩ := dispatch_source w C hV hj hout hfree hreach
  obtain ⟨c, hc⟩ := Option.isSome_iff_exists.mp htc
  simp only [handleAgvIdleToWorking, hjob, hl, except_pure, except_bind_ok, getJob_of_mem (hs.jobsNodup w) hj, hd, hbc,
    hsrc, travelNoUpdate, hc]
  exact ⟨_, rfl⟩

end JSL
