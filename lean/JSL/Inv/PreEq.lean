import JSL.Inv.PreTransfer

/-!
# The functions of the model agree on `inst` and `preFlex inst`

The type of a pre-buffer is read by `machineSetupTransition` (the timed transition `IDLE → SETUP`) – there
the two instances differ – and by `readyForPickup` / `waitBehind` for a job whose location is a
pre-buffer.  Everything else agrees unconditionally; `readyForPickup` agrees for a job of a state with the
structural invariants (a pre-buffer is no pickup buffer), and so do the queries built on it.
-/

namespace JSL

variable {orc : Oracle} {inst : Instance}

theorem PbCfgRel.cap {c' c : BufCfg} (h : PbCfgRel inst c' c) : c'.cap = c.cap := by
  rcases h with rfl | ⟨rfl, _⟩ <;> rfl
theorem PbCfgRel.parent {c' c : BufCfg} (h : PbCfgRel inst c' c) : c'.parent = c.parent := by
  rcases h with rfl | ⟨rfl, _⟩ <;> rfl
theorem PbCfgRel.id {c' c : BufCfg} (h : PbCfgRel inst c' c) : c'.id = c.id := by
  rcases h with rfl | ⟨rfl, _⟩ <;> rfl

theorem pb_putInBuffer {c' c : BufCfg} (h : c'.cap = c.cap) (b : BufState) (j : JobState) :
    putInBuffer b c' j = putInBuffer b c j := by
  unfold putInBuffer; rw [h]

theorem pb_switchBuffer (from_ to : BufState) (j : JobState) :
    switchBuffer (preFlex inst) from_ to j = switchBuffer inst from_ to j := by
  unfold switchBuffer
  rcases pb_getBufCfg_rel (inst := inst) to.id with ⟨e, h1, h2⟩ | ⟨c, c', h1, h2, hr⟩
  · simp only [h1, h2]
  · simp only [h1, h2, except_bind_ok]
    rw [pb_putInBuffer hr.cap]

theorem pb_bind_congr {α β} {x : Except Err α} {f g : α → Except Err β} (h : ∀ a, f a = g a) :
    (x >>= f) = (x >>= g) := by
  cases x with
  | error e => rfl
  | ok a => exact h a

/-- a bind over the looked-up buffer configuration that reads only what the two instances share -/
theorem pb_bind_cfg {α} (i : Nat) (f : BufCfg → Except Err α) (hf : ∀ c' c, PbCfgRel inst c' c → f c' = f c) :
    (getBufCfg (allBufCfgs (preFlex inst)) i >>= f) = (getBufCfg (allBufCfgs inst) i >>= f) := by
  rcases pb_getBufCfg_rel (inst := inst) i with ⟨e, h1, h2⟩ | ⟨c, c', h1, h2, hr⟩
  · simp only [h1, h2, except_bind_error]
  · simp only [h1, h2, except_bind_ok]
    exact hf c' c hr

theorem pb_beginMachineSetup (now : Int) (r : Rng) (j : JobState) (m : MachineState) :
    beginMachineSetup orc (preFlex inst) now r j m = beginMachineSetup orc inst now r j m := by
  unfold beginMachineSetup
  simp only [pb_getMachineCfg]
  have e : getOpCfg (preFlex inst) = getOpCfg inst := rfl
  rw [e]
  cases getMachineCfg inst.machines m.id with
  | error e => rfl
  | ok mc => rfl

theorem pb_completeActiveOperation (now : Int) (jobs : List JobState) (m : MachineState) :
    completeActiveOperation (preFlex inst) now jobs m = completeActiveOperation inst now jobs m := by
  unfold completeActiveOperation
  simp only [pb_getMachineCfg]
  cases getMachineCfg inst.machines m.id with
  | error e => rfl
  | ok mc => rfl

theorem pb_handleMachineTransition (s : State) (r : Rng) (tr : Transition) (mid : Nat) :
    handleMachineTransition orc (preFlex inst) s r tr mid = handleMachineTransition orc inst s r tr mid := by
  unfold handleMachineTransition
  have e1 : ∀ m, handleMachineIdleToSetup orc (preFlex inst) s r tr m = handleMachineIdleToSetup orc inst s r tr m := by
    intro m; unfold handleMachineIdleToSetup; simp only [pb_beginMachineSetup]
  have e2 : ∀ m, handleMachineSetupToWorking orc (preFlex inst) s r tr m = handleMachineSetupToWorking orc inst s r tr m :=
    fun m => rfl
  have e3 : ∀ m, handleMachineWorkingToOutage orc (preFlex inst) s r tr m = handleMachineWorkingToOutage orc inst s r tr m := by
    intro m
    unfold handleMachineWorkingToOutage
    simp only [pb_getMachineCfg]
    cases getMachineCfg inst.machines m.id with
    | error e => rfl
    | ok mc => rfl
  have e4 : ∀ m, handleMachineOutageToIdle (preFlex inst) s r m = handleMachineOutageToIdle inst s r m := by
    intro m; unfold handleMachineOutageToIdle; simp only [pb_completeActiveOperation]
  simp only [e1, e2, e3, e4]

theorem pb_machineIdOfBuffer (bid : Nat) : machineIdOfBuffer (preFlex inst).machines bid = machineIdOfBuffer inst.machines bid := by
  rw [preFlex_machines]
  unfold machineIdOfBuffer
  generalize inst.machines = l
  induction l with
  | nil => rfl
  | cons a as ih =>
    simp only [List.map_cons, List.find?_cons, pfM_pre_id, pfM_buf, pfM_post]
    cases (a.pre.id == bid || a.buf.id == bid || a.post.id == bid)
    · exact ih
    · rfl

theorem pb_handleAgvPickupToTransit (s : State) (r : Rng) (tr : Transition) (t : TransportState) :
    handleAgvPickupToTransit orc (preFlex inst) s r tr t = handleAgvPickupToTransit orc inst s r tr t := by
  unfold handleAgvPickupToTransit
  simp only [pb_machineIdOfBuffer, pb_switchBuffer]
  rfl

theorem pb_handleAgvIdleToWorking (s : State) (r : Rng) (tr : Transition) (t : TransportState) :
    handleAgvIdleToWorking orc (preFlex inst) s r tr t = handleAgvIdleToWorking orc inst s r tr t := by
  unfold handleAgvIdleToWorking
  cases tr.job with
  | none => rfl
  | some jid =>
    cases t.loc with
    | route a b c => rfl
    | «at» cur =>
      show (getJob s.jobs jid >>= fun j => dropLoc (preFlex inst) j JobState.nextIdleE >>= fun target =>
          getBufCfg (allBufCfgs (preFlex inst)) j.loc >>= _) =
        (getJob s.jobs jid >>= fun j => dropLoc inst j JobState.nextIdleE >>= fun target =>
          getBufCfg (allBufCfgs inst) j.loc >>= _)
      refine pb_bind_congr (fun j => ?_)
      refine pb_bind_congr (fun target => ?_)
      apply pb_bind_cfg
      intro c' c hr
      have ep : pickupSource c' j.loc = pickupSource c j.loc := by unfold pickupSource; rw [hr.parent]
      rw [ep, hr.id]

theorem pb_completeTransportTask (now : Int) (r : Rng) (j : JobState) (t : TransportState) (drop : Loc) (target : Target) :
    completeTransportTask orc (preFlex inst) now r j t drop target = completeTransportTask orc inst now r j t drop target := by
  unfold completeTransportTask
  simp only [pb_switchBuffer]
  rfl

theorem pb_handleAgvTransitToOutage (s : State) (r : Rng) (tr : Transition) (t : TransportState) :
    handleAgvTransitToOutage orc (preFlex inst) s r tr t = handleAgvTransitToOutage orc inst s r tr t := by
  unfold handleAgvTransitToOutage
  simp only [pb_completeTransportTask]

/-- **`apply_transition` agrees on the two instances** whenever `_get_waiting_time` does -/
theorem pb_applyTransition {s : State} {tr : Transition}
    (hw : getWaitingTime (preFlex inst) s tr = getWaitingTime inst s tr) (r : Rng) :
    applyTransition orc (preFlex inst) s r tr = applyTransition orc inst s r tr := by
  unfold applyTransition
  cases tr.comp with
  | m mid => simp only [pb_handleMachineTransition]
  | b bid => rfl
  | t tid =>
    simp only []
    have : handleTransportTransition orc (preFlex inst) s r tr tid = handleTransportTransition orc inst s r tr tid := by
      unfold handleTransportTransition
      have e1 : ∀ t, handleAgvPickupToWaiting (preFlex inst) s r tr t = handleAgvPickupToWaiting inst s r tr t := by
        intro t; unfold handleAgvPickupToWaiting; rw [hw]
      have e2 : ∀ t, handleAgvWaitingToWaiting (preFlex inst) s r tr t = handleAgvWaitingToWaiting inst s r tr t := by
        intro t; unfold handleAgvWaitingToWaiting; rw [hw]
      simp only [e1, e2, pb_handleAgvPickupToTransit, pb_handleAgvIdleToWorking, pb_handleAgvTransitToOutage]
      rfl
    rw [this]

end JSL
