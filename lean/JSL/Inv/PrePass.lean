import JSL.Inv.PreWait

/-!
# The pass and the totality of `state.step` for the class `TotClassP`

Everything is obtained from the lemmas for `TotClass (preFlex inst)` through the equalities of
`PreEq.lean`, `PreEqQ.lean`, `PreWait.lean`.  The batches need nothing new: `TimedM` (what
`create_timed_machine_transitions` builds) already covers the transition `IDLE → SETUP` of a machine with
an ordered pre-buffer, and `timed_aim`, `timed_mvalid`, `valid_true` do not use the class.
-/

namespace JSL

variable {orc : Oracle} {inst : Instance}

/-- **`apply_transition` does not raise** in the wider class -/
theorem pb_applies_total (w : WF inst) (C : TotClassP inst) {s : State} (hV : TotInv inst s) {tr : Transition}
    (ha : Aim inst s tr) (hu : Unclaimed s tr) (hv : transitionValid s tr = .ok true) (orc : Oracle) (r : Rng) :
    ∃ s' r', applyTransition orc inst s r tr = .ok (s', r') := by
  obtain ⟨s', r', h⟩ := applies_total (pb_wf w) (pb_totClass C) (pb_totInv hV) (pb_aim ha) hu hv orc r
  rw [pb_applyTransition_inv w C.parents hV.struct] at h
  exact ⟨s', r', h⟩

theorem pb_applyTransition_agvShape (w : WF inst) (C : TotClassP inst) {s s' : State} {r r' : Rng} {tr : Transition}
    (hI : StructInv inst s) (hS : SchedInv s) (hP : AgvShape s) (h : applyTransition orc inst s r tr = .ok (s', r')) :
    AgvShape s' := by
  rw [← pb_applyTransition_inv w C.parents hI] at h
  exact applyTransition_agvShape (pb_wf w) (pb_totClass C).flex (pb_struct hI) hS hP h

/-- the pass of `TotalPass.lean` for the wider class -/
def TotPassP (orc : Oracle) (inst : Instance) (cfg : SMConfig) (w : WF inst) (nn : NonNeg orc inst) (C : TotClassP inst) :
    Pass orc inst cfg where
  P := TotP inst
  GS := TotGS inst
  Adm := AdmOffer inst cfg
  tail := fun h => ⟨(FullPass orc inst cfg w).tail h.full, fun tr htr => h.aim tr (by simp [htr]),
    fun tr htr => h.mvalid tr (by simp [htr]), (List.pairwise_cons.mp h.indep).2⟩
  step := fun {s s' r r' tr R} hI hS hP hv hsafe hfresh hgs ha => by
    have hf := (FullPass orc inst cfg w).step hI hS hP.full hv hsafe hfresh hgs.full ha
    have hV := hP.inv hI hS
    refine ⟨⟨hf.1, applyTransition_ready w C.tables hI hP.full hP.ready hv ha, applyTransition_outage w nn hI hP.out ha,
      applyTransition_outShape w hI hP.outShape ha, pb_applyTransition_agvShape w C hI hS hP.shape ha,
      applyTransition_jobPlace w hI hS hP.full hP.place hsafe.guard (hgs.aim tr (by simp)) ha⟩, hf.2, ?_,
      fun tr' htr' => mvalid_step w hI ((List.pairwise_cons.mp hgs.indep).1 tr' htr') (hgs.mvalid tr' (by simp [htr'])) ha,
      (List.pairwise_cons.mp hgs.indep).2⟩
    intro tr' htr'
    exact aim_step w hV hv hsafe.guard ((List.pairwise_cons.mp hgs.indep).1 tr' htr') (hgs.aim tr' (by simp [htr']))
      (fun hn x hx => hgs.full.claim.free tr' (by simp [htr']) hn x hx) ha
  advance := fun hI hS hP hle hpg =>
    ⟨(FullPass orc inst cfg w).advance hI hS hP.full hle hpg, ⟨hP.ready.tool, hP.ready.parked⟩, hP.out.advance hle,
     ⟨hP.outShape.mach, hP.outShape.agv⟩, ⟨hP.shape.noWorking, hP.shape.busyClaims, hP.shape.noDep, hP.shape.occSet⟩,
     ⟨hP.place.inputIdle, hP.place.claimNotOut⟩⟩
  timed := fun hI hS hP htt hposs htele =>
    have ht := timed_aim w (hP.inv hI hS) htt hposs htele
    ⟨(FullPass orc inst cfg w).timed hI hS hP.full htt hposs htele, ht.1,
      timed_mvalid w (hP.inv hI hS) htt hposs htele, ht.2⟩
  timedOnly := fun hI hS hP htt =>
    have ht := timedOnly_aim w (hP.inv hI hS) htt
    ⟨(FullPass orc inst cfg w).timedOnly hI hS hP.full htt, ht.1, timedOnly_mvalid w hI hS htt, ht.2⟩
  action := fun {s a} hI hS hP hadm => by
    refine ⟨(FullPass orc inst cfg w).action hI hS hP.full hadm, ?_, ?_, ?_⟩
    · rcases hadm with e | ⟨poss, hposs, tr, hp, e⟩
      · rw [e, sortedByTransport_nil]; intro _ h; cases h
      · rw [e, sortedByTransport_single]
        intro tr' htr'
        simp at htr'; subst htr'
        exact offer_aim w (hP.inv hI hS) hposs hp
    · rcases hadm with e | ⟨poss, hposs, tr, hp, e⟩
      · rw [e, sortedByTransport_nil]; intro _ h; cases h
      · rw [e, sortedByTransport_single]
        intro tr' htr'
        simp at htr'; subst htr'
        exact offer_mvalid w (hP.inv hI hS) hposs hp
    · rcases hadm with e | ⟨poss, hposs, tr, hp, e⟩
      · rw [e, sortedByTransport_nil]; exact List.Pairwise.nil
      · rw [e, sortedByTransport_single]; exact List.pairwise_singleton _ _

/-! ## the queries return -/

theorem pb_possibleTransitions_total (w : WF inst) (C : TotClassP inst) {s : State} (hV : TotInv inst s) (cfg : SMConfig) :
    ∃ p, possibleTransitions inst cfg s = .ok p := by
  obtain ⟨p, hp⟩ := possibleTransitions_totalT (pb_wf w) (pb_totClass C) (pb_totInv hV) cfg
  rw [pb_possibleTransitions w hV.struct] at hp
  exact ⟨p, hp⟩

theorem pb_filterTeleport_total (w : WF inst) (C : TotClassP inst) {s : State} (hV : TotInv inst s) {cfg : SMConfig}
    {poss : List Transition} (hp : possibleTransitions inst cfg s = .ok poss) (orc : Oracle) (r : Rng) :
    ∃ tele, filterTeleport orc inst r s poss = .ok tele := by
  rw [← pb_possibleTransitions w hV.struct] at hp
  obtain ⟨tele, ht⟩ := filterTeleport_totalT (pb_wf w) (pb_totClass C) (pb_totInv hV) hp orc r
  rw [pb_filterTeleport] at ht
  exact ⟨tele, ht⟩

theorem pb_jumpToEvent_total (w : WF inst) (C : TotClassP inst) {s : State} (hV : TotInv inst s) (cfg : SMConfig) :
    ∃ t, jumpToEvent inst cfg s = .ok t := by
  obtain ⟨t, ht⟩ := jumpToEvent_totalT (pb_wf w) (pb_totClass C) (pb_totInv hV) cfg
  rw [pb_jumpToEvent w hV.struct] at ht
  exact ⟨t, ht⟩

theorem pb_runTimeMachine_total (w : WF inst) (C : TotClassP inst) {s : State} (hV : TotInv inst s) (cfg : SMConfig)
    (tm : TimeMachine) : ∃ t, runTimeMachine inst cfg s tm = .ok t := by
  obtain ⟨t, ht⟩ := runTimeMachine_total (pb_wf w) (pb_totClass C) (pb_totInv hV) cfg tm
  rw [pb_runTimeMachine w hV.struct] at ht
  exact ⟨t, ht⟩

/-! ## `process_state_transitions`, the timed loop and `state.step` -/

theorem pb_process_total (w : WF inst) (nn : NonNeg orc inst) (C : TotClassP inst) (cfg : SMConfig) :
    ∀ (L : List Transition) (s : State) (r : Rng), StructInv inst s → SchedInv s → TotP inst s → Safe s L → Fresh L →
      TotGS inst s L → ∃ o, processTransitions orc inst L s r = .ok o ∧ o.nerr = 0 := by
  intro L
  induction L with
  | nil => intro s r _ _ _ _ _ _; exact ⟨⟨s, r, 0, []⟩, rfl, rfl⟩
  | cons tr L ih =>
    intro s r hI hS hP hsafe hfresh hgs
    have hV := hP.inv hI hS
    have haim := hgs.aim tr (by simp)
    have hv := valid_true w hV haim (hgs.mvalid tr (by simp))
    obtain ⟨s1, r1, ha⟩ := pb_applies_total w C hV haim (fun hn x hx => hgs.full.claim.free tr (by simp) hn x hx) hv orc r
    have hI1 := applyTransition_struct w hI hv ha
    have hS1 := applyTransition_sched w nn hI hS hv hsafe.guard ha
    have hfr := applyTransition_frame w hI hS hsafe.guard ha
    have hP1 := (TotPassP orc inst cfg w nn C).step hI hS hP hv hsafe hfresh hgs ha
    obtain ⟨o1, ho1, hn1⟩ := ih s1 r1 hI1 hS1 hP1.1 (hsafe.step hfresh hfr) (List.pairwise_cons.mp hfresh).2 hP1.2
    refine ⟨{ o1 with micro := s1 :: o1.micro }, ?_, hn1⟩
    simp only [processTransitions, hv, ha, ho1, except_bind_ok, if_true, except_pure]

theorem pb_loop_total (w : WF inst) (nn : NonNeg orc inst) (C : TotClassP inst) (cfg : SMConfig) :
    ∀ (fuel : Nat) (tt : List Transition) (s : State) (r : Rng) (subs mic : List State),
      StructInv inst s → SchedInv s → TotP inst s → Safe s tt → Fresh tt → TotGS inst s tt →
      LoopGood inst (timedLoop orc inst cfg fuel tt s r subs mic) := by
  intro fuel
  induction fuel with
  | zero =>
    intro tt s r subs mic hI hS hP _ _ _
    cases tt with
    | nil => exact Or.inl ⟨_, rfl, rfl, hI, hS, hP⟩
    | cons a as => exact Or.inr rfl
  | succ n ih =>
    intro tt s r subs mic hI hS hP hsafe hfresh hgs
    cases tt with
    | nil => exact Or.inl ⟨_, rfl, rfl, hI, hS, hP⟩
    | cons a as =>
      let ps := TotPassP orc inst cfg w nn C
      obtain ⟨o, ho, hn⟩ := pb_process_total w nn C cfg (a :: as) s r hI hS hP hsafe hfresh hgs
      have hp := processTransitions_sched w nn _ _ _ _ hI hS hsafe hfresh ho
      have hpI := processTransitions_struct w _ _ _ _ hI ho
      have hpP := ps.process w nn _ _ _ _ hI hS hP hsafe hfresh hgs ho
      have hVo : TotInv inst o.state := TotP.inv hpP.1 hpI.1 hp.1
      obtain ⟨t, ht⟩ := pb_jumpToEvent_total w C hVo cfg
      have hadv := jumpToEvent_spec hp.1 ht
      have hS' := hp.1.advance hadv.1 hadv.2
      have hI' := hpI.1.time t
      have hP' := ps.advance hpI.1 hp.1 hpP.1 hadv.1 hadv.2
      obtain ⟨tt', htt'⟩ := timedTransitions_totalT w (TotP.inv hP' hI' hS')
      have hsf := timed_batch_safe w (tele := []) hI' hS' htt' (by simp)
      simp only [List.append_nil] at hsf
      have hrec := ih tt' { o.state with time := t } o.rng (subs ++ [{ o.state with time := t }]) (mic ++ o.micro)
        hI' hS' hP' hsf.1 hsf.2 (ps.timedOnly hI' hS' hP' htt')
      have e : timedLoop orc inst cfg (n + 1) (a :: as) s r subs mic =
          timedLoop orc inst cfg n tt' { o.state with time := t } o.rng (subs ++ [{ o.state with time := t }])
            (mic ++ o.micro) := by
        simp only [timedLoop, ho, except_bind_ok, hn, ht, htt']
        simp
      rw [e]
      exact hrec

/-- **`state.step` does not raise** (and does not fail) for an instance of the wider class -/
theorem pb_smStep_total (w : WF inst) (nn : NonNeg orc inst) (C : TotClassP inst) {cfg : SMConfig} {fuel : Nat}
    {s0 : State} {r : Rng} {a : Action} (hI : StructInv inst s0) (hS : SchedInv s0) (hP : TotP inst s0)
    (ha : Admissible a) (hadm : AdmOffer inst cfg s0 a) : StepGood (smStep orc inst cfg fuel s0 r a) := by
  let ps := TotPassP orc inst cfg w nn C
  have hsf := offerShaped_safe (s := s0) (L := sortedByTransport a.transitions)
    (fun tr htr => ha.shaped tr (mem_sortedByTransport htr))
  have hgs0 := ps.action hI hS hP hadm
  obtain ⟨p, hp, hn⟩ := pb_process_total w nn C cfg _ s0 r hI hS hP hsf.1 hsf.2 hgs0
  have hp' := processTransitions_sched w nn _ _ _ _ hI hS hsf.1 hsf.2 hp
  have hpI := processTransitions_struct w _ _ _ _ hI hp
  have hpP := ps.process w nn _ _ _ _ hI hS hP hsf.1 hsf.2 hgs0 hp
  have hVp : TotInv inst p.state := TotP.inv hpP.1 hpI.1 hp'.1
  obtain ⟨t, ht⟩ := pb_runTimeMachine_total w C hVp cfg a.tm
  have hadv := runTimeMachine_spec hp'.1 ha.tm ht
  have hS1 := hp'.1.advance hadv.1 hadv.2
  have hI1 := hpI.1.time t
  have hP1 := ps.advance hpI.1 hp'.1 hpP.1 hadv.1 hadv.2
  have hV1 : TotInv inst { p.state with time := t } := TotP.inv hP1 hI1 hS1
  obtain ⟨timed, htimed⟩ := timedTransitions_totalT w hV1
  obtain ⟨poss, hposs⟩ := pb_possibleTransitions_total w C hV1 cfg
  obtain ⟨tele, htele⟩ := pb_filterTeleport_total w C hV1 hposs orc p.rng
  have hbatch := timed_batch_safe w hI1 hS1 htimed (filterTeleport_shape hposs htele)
  have hloop := pb_loop_total w nn C cfg fuel (timed ++ tele) { p.state with time := t } p.rng [p.state] p.micro
    hI1 hS1 hP1 hbatch.1 hbatch.2 (ps.timed hI1 hS1 hP1 htimed hposs htele)
  unfold smStep
  simp only [hp, except_bind_ok, hn, ht, htimed, hposs, htele]
  rcases hloop with ⟨out, hout, hnf, hIo, hSo, hPo⟩ | herr
  · simp only [hout, except_bind_ok, hnf]
    by_cases hd : isDone inst out.state = true
    · obtain ⟨e, he⟩ := lastDoneEnd_totalT hSo
      left
      simp [hd, he]
    · obtain ⟨poss', hposs'⟩ := pb_possibleTransitions_total w C (TotP.inv hPo hIo hSo) cfg
      left
      simp [hd, hposs']
  · right
    simp [herr]

end JSL
