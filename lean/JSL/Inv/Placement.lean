import JSL.Model.Compile

/-!
# Initial placement and outage assignment of the compiler (model: `Model/Compile.lean`)
-/

namespace JSL.Compile

theorem mem_firstOccs {x : Nat} : ∀ {l : List Nat}, x ∈ firstOccs l ↔ x ∈ l
  | [] => by simp [firstOccs]
  | a :: l => by
    simp only [firstOccs, List.mem_cons, List.mem_filter, mem_firstOccs (l := l), bne_iff_ne, ne_eq]
    constructor
    · rintro (h | ⟨h, _⟩)
      · exact Or.inl h
      · exact Or.inr h
    · rintro (h | h)
      · exact Or.inl h
      · by_cases hx : x = a
        · exact Or.inl hx
        · exact Or.inr ⟨h, hx⟩

theorem firstOccs_nodup : ∀ l : List Nat, (firstOccs l).Nodup
  | [] => by simp [firstOccs]
  | a :: l => by
    simp only [firstOccs, List.nodup_cons, List.mem_filter, bne_iff_ne, ne_eq, not_and]
    exact ⟨fun _ h => h trivial, (firstOccs_nodup l).filter _⟩

theorem firstOccs_of_nodup : ∀ {l : List Nat}, l.Nodup → firstOccs l = l
  | [], _ => rfl
  | a :: l, h => by
    rw [List.nodup_cons] at h
    simp only [firstOccs, firstOccs_of_nodup h.2]
    congr 1
    apply List.filter_eq_self.2
    intro x hx
    simp only [bne_iff_ne, ne_eq]
    rintro rfl
    exact h.1 hx

/-- first occurrences of a concatenation: those of the front part, then those of the back part that
the front part does not contain -/
theorem firstOccs_append : ∀ l r : List Nat,
    firstOccs (l ++ r) = firstOccs l ++ (firstOccs r).filter (fun x => !l.contains x)
  | [], r => by
    simp only [List.nil_append, firstOccs]
    exact (List.filter_eq_self.2 (by simp)).symm
  | a :: l, r => by
    simp only [List.cons_append, firstOccs, firstOccs_append l r, List.filter_append, List.filter_filter,
      List.contains_cons]
    congr 2
    apply List.filter_congr
    intro x _
    by_cases h : x = a
    · simp [h]
    · have h1 : (x != a) = true := by simp [h]
      have h2 : (x == a) = false := by simp [h]
      simp [h1, h2]

/-! ### stores -/

variable {inputId : Nat} {jobs : List (Nat × Option Nat)}

theorem mem_locatedIn {b j : Nat} :
    j ∈ locatedIn inputId jobs b ↔ ∃ sp, (j, sp) ∈ jobs ∧ jobLocation inputId sp = b := by
  simp only [locatedIn, List.mem_map, List.mem_filter, beq_iff_eq]
  constructor
  · rintro ⟨⟨j', sp⟩, ⟨hm, hl⟩, rfl⟩
    exact ⟨sp, hm, hl⟩
  · rintro ⟨sp, hm, hl⟩
    exact ⟨(j, sp), ⟨hm, hl⟩, rfl⟩

theorem locatedIn_nodup (hn : (jobs.map (·.1)).Nodup) (b : Nat) : (locatedIn inputId jobs b).Nodup := by
  unfold locatedIn
  exact (List.filter_sublist.map _).nodup hn

/-- the store has no duplicates, whatever is listed -/
theorem initStore_nodup (hn : (jobs.map (·.1)).Nodup) (b : Nat) (listed : Option (List Nat)) :
    (initStore inputId jobs b listed).Nodup := by
  cases listed with
  | none => exact locatedIn_nodup hn b
  | some l => exact firstOccs_nodup _

/-- listed jobs first, in the order written (first mention), then the located jobs that are not
listed, in job order -/
theorem initStore_listed (hn : (jobs.map (·.1)).Nodup) (b : Nat) (l : List Nat) :
    initStore inputId jobs b (some l) =
      firstOccs l ++ (locatedIn inputId jobs b).filter (fun x => !l.contains x) := by
  simp only [initStore, firstOccs_append, firstOccs_of_nodup (locatedIn_nodup hn b)]

theorem mem_initStore {b j : Nat} {listed : Option (List Nat)} :
    j ∈ initStore inputId jobs b listed ↔ (∃ l, listed = some l ∧ j ∈ l) ∨ j ∈ locatedIn inputId jobs b := by
  cases listed with
  | none => simp [initStore]
  | some l => simp [initStore, mem_firstOccs]

/-- a consistent listing names only jobs located in the buffer (what the compiler now insists on) -/
def ConsistentListing (inputId : Nat) (jobs : List (Nat × Option Nat)) (b : Nat) : Option (List Nat) → Prop
  | none => True
  | some l => ∀ j ∈ l, j ∈ locatedIn inputId jobs b

theorem mem_initStore_consistent {b j : Nat} {listed : Option (List Nat)}
    (hc : ConsistentListing inputId jobs b listed) :
    j ∈ initStore inputId jobs b listed ↔ j ∈ locatedIn inputId jobs b := by
  rw [mem_initStore]
  constructor
  · rintro (⟨l, rfl, hj⟩ | h)
    · exact hc j hj
    · exact h
  · exact Or.inr

/-! ### outages -/

theorem mem_outagesFor {α : Type} {names : List Text} {entries : List (Text × α)} {x : α} :
    x ∈ outagesFor names entries ↔ ∃ n, (n, x) ∈ entries ∧ n ∈ names := by
  simp only [outagesFor, List.mem_map, List.mem_filter, List.contains_iff_mem]
  constructor
  · rintro ⟨⟨n, y⟩, ⟨hm, hn⟩, rfl⟩
    exact ⟨n, hm, hn⟩
  · rintro ⟨n, hm, hn⟩
    exact ⟨(n, x), ⟨hm, hn⟩, rfl⟩

theorem outagesFor_append {α : Type} (names : List Text) (e₁ e₂ : List (Text × α)) :
    outagesFor names (e₁ ++ e₂) = outagesFor names e₁ ++ outagesFor names e₂ := by
  simp [outagesFor]

theorem outagesFor_sublist {α : Type} (names : List Text) (entries : List (Text × α)) :
    (outagesFor names entries).Sublist (entries.map (·.2)) :=
  List.filter_sublist.map _

theorem outagesFor_length {α : Type} (names : List Text) (entries : List (Text × α)) :
    (outagesFor names entries).length = entries.countP (fun e => names.contains e.1) := by
  simp [outagesFor, List.countP_eq_length_filter]

end JSL.Compile
