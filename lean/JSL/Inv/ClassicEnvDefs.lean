import JSL.Inv.ClassicSyncDefs
import JSL.Inv.Fresh
import JSL.Inv.AcceptBound
import JSL.Props.C18

/-!
# Steering an episode towards a target schedule: the interface between the step lemmas and the strategy

`envRun` runs a list of agent actions through `env.step`.  `StepOK` is what the steering agent
guarantees about an action with respect to the target schedule `S`: it accepts a machine start only
for an operation whose target start is now, and declines the last offer only when no operation
that could start now is due.  `StepIface` is what the state-machine side delivers in return for a
classic instance.
-/

namespace JSL

/-- run a list of agent actions; `.ok e` means every step returned -/
def envRun (orc : Oracle) (inst : Instance) (ec : EnvCfg) (st : RewardStatic) : EnvState → List AgentAct → Except Err EnvState
  | e, [] => .ok e
  | e, a :: as => do
    let out ← envStep orc inst ec st e a
    envRun orc inst ec st out.env as

/-- no operation that could start now (its job waits, its machine is idle) is due now or earlier -/
def NoneDueNow (S : Nat → Nat → Int) (s : State) : Prop :=
  ∀ j ∈ s.jobs, j.running = false → ∀ o, j.nextIdle? = some o →
    (∀ m ∈ s.machines, m.id = o.machine → m.st = .idle) → s.time < S o.job o.idx

/-- the action respects the target schedule -/
def StepOK (S : Nat → Nat → Int) (e : EnvState) (a : AgentAct) : Prop :=
  (a = .accept → ∀ tr ∈ e.res.possible.head?, tr.new = .m .setup → ∀ j ∈ e.res.state.jobs, tr.job = some j.id →
      ∀ o, j.nextIdle? = some o → S o.job o.idx = e.res.state.time) ∧
  (a = .decline → e.res.possible.length = 1 → NoneDueNow S e.res.state)

structure StepIface (orc : Oracle) (inst : Instance) (ec : EnvCfg) (st : RewardStatic) (s0 : State)
    (S : Nat → Nat → Int) : Prop where
  reset : ∀ r0, ∃ e0 mic, envReset orc inst ec s0 r0 = .ok (e0, mic) ∧ e0.res.success = true ∧
    SyncL inst S e0.res.state
  step : ∀ {e : EnvState}, EnvReach orc inst ec st s0 e → e.done = false → e.res.success = true → 0 ≤ e.mw.joker →
    SyncL inst S e.res.state → ∀ a, (a = .accept ∨ a = .decline) → StepOK S e a →
    ∃ out, envStep orc inst ec st e a = .ok out ∧ out.env.res.success = true ∧ out.obsRes.success = true ∧
      out.env.truncated = false ∧ out.env.mw.joker = e.mw.joker ∧
      out.env.terminated = isDone inst out.env.res.state ∧ out.env.done = isDone inst out.env.res.state ∧
      (∃ t, SyncL inst S { out.env.res.state with time := t }) ∧
      (out.env.done = false → SyncL inst S out.env.res.state)
  settled : ∀ {e : EnvState}, EnvReach orc inst ec st s0 e → e.res.possible ≠ [] →
    (∀ t ∈ e.res.state.transports, t.st = .idle) ∧ Bundle inst e.res.state

end JSL
