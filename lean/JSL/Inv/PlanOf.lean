import JSL.Inv.PlanLemmas
import JSL.Inv.StartGe
import JSL.Inv.Feasible

/-!
# The schedule recorded in a finished state, as a feasible plan of the instance
-/

namespace JSL

variable {orc : Oracle} {inst : Instance}

/-- configured constant duration of the operation a record belongs to (0 if none / stochastic) -/
def durDet (inst : Instance) (o : OpState) : Int :=
  match (inst.jobs.flatMap (·.ops)).find? (fun oc => oc.job == o.job && oc.idx == o.idx) with
  | some oc => (match oc.dur with | .det d => d | .stoch _ => 0)
  | none => 0

def planOp (inst : Instance) (o : OpState) : POp := (o.machine, durDet inst o, o.start.getD 0)

/-- the recorded schedule: per job its operations with configured duration and recorded start -/
def planOf (inst : Instance) (s : State) : Plan := s.jobs.map fun j => j.ops.map (planOp inst)

theorem map_eq_of_keys {α β γ δ} {k1 : α → γ} {k2 : β → γ} {f : α → δ} {g : β → δ} :
    ∀ {l1 : List α} {l2 : List β}, l1.map k1 = l2.map k2 → (∀ a ∈ l1, ∀ b ∈ l2, k1 a = k2 b → f a = g b) →
      l1.map f = l2.map g
  | [], [], _, _ => rfl
  | [], _ :: _, h, _ => by simp at h
  | _ :: _, [], h, _ => by simp at h
  | a :: as, b :: bs, h, hf => by
    simp only [List.map_cons, List.cons.injEq] at h
    simp only [List.map_cons]
    rw [hf a (by simp) b (by simp) h.1, map_eq_of_keys h.2 (fun x hx y hy => hf x (by simp [hx]) y (by simp [hy]))]

theorem durDet_of_cfg (w : WF inst) {oc : OpCfg} (hoc : oc ∈ inst.jobs.flatMap (·.ops)) {o : OpState}
    (hk : oc.job = o.job ∧ oc.idx = o.idx) {d : Int} (hd : oc.dur = .det d) : durDet inst o = d := by
  unfold durDet
  cases hf : (inst.jobs.flatMap (·.ops)).find? (fun oc => oc.job == o.job && oc.idx == o.idx) with
  | none =>
    have := List.find?_eq_none.mp hf oc hoc
    simp [hk.1, hk.2] at this
  | some oc' =>
    have hm := List.mem_of_find?_eq_some hf
    have hp : oc'.job = o.job ∧ oc'.idx = o.idx := by simpa using List.find?_some hf
    have : oc' = oc := opCfg_unique w hm hoc (by rw [hp.1, hk.1]) (by rw [hp.2, hk.2])
    subst this
    simp [hd]

/-- the plan describes the instance the lower bound is computed from -/
theorem planOf_proj (w : WF inst) {s : State} (hs : Shape inst s) (r : Rng)
    (hdet : ∀ jc ∈ inst.jobs, ∀ oc ∈ jc.ops, ∃ d, oc.dur = .det d) :
    (planOf inst s).proj = schedOf orc r inst := by
  unfold planOf Plan.proj schedOf
  rw [List.map_map]
  apply map_eq_of_keys hs.jobs
  intro j hj jc hjc hk
  simp only [jKey, jcKey, Prod.mk.injEq] at hk
  simp only [Function.comp, PJob.proj, List.map_map]
  apply map_eq_of_keys hk.2
  intro o ho oc hoc hko
  simp only [opKey, ocKey, Prod.mk.injEq] at hko
  obtain ⟨d, hd⟩ := hdet jc hjc oc hoc
  have hmem : oc ∈ inst.jobs.flatMap (·.ops) := List.mem_flatMap.mpr ⟨jc, hjc, hoc⟩
  simp only [Function.comp, planOp]
  rw [durDet_of_cfg w hmem ⟨hko.1.symm, hko.2.1.symm⟩ hd, hd]
  simp [TimeCfg.cur, hko.2.2]

theorem pairwise_of_nodup_key {α} {k : α → Nat} {R : α → α → Prop} : ∀ {l : List α}, (l.map k).Nodup →
    (∀ a ∈ l, ∀ b ∈ l, k a ≠ k b → R a b) → l.Pairwise R
  | [], _, _ => List.Pairwise.nil
  | x :: xs, hnd, h => by
    simp only [List.map_cons, List.nodup_cons, List.mem_map, not_exists, not_and] at hnd
    apply List.pairwise_cons.mpr
    refine ⟨?_, pairwise_of_nodup_key hnd.2 (fun a ha b hb => h a (by simp [ha]) b (by simp [hb]))⟩
    intro b hb
    exact h x (by simp) b (by simp [hb]) (fun e => hnd.1 b hb e.symm)

/-- the chain of one finished job -/
theorem chain_of_ops {now : Int} : ∀ (os : List OpState) (prev : Option Int) (t : Int), OpsOK now prev os →
    (∀ o ∈ os, o.st = .done) →
    (∀ o ∈ os, ∀ a b, o.start = some a → o.stop = some b → a + durDet inst o ≤ b) →
    (∀ p, prev = some p → t ≤ p) → (prev = none → ∀ o ∈ os, ∀ a, o.start = some a → t ≤ a) →
    ChainOK t (os.map (planOp inst))
  | [], _, _, _, _, _, _, _ => trivial
  | o :: os, prev, t, hok, hdone, hdur, hprev, hstart => by
    have hst := hdone o (by simp)
    simp only [OpsOK, hst] at hok
    obtain ⟨a, b, h1, h2, _, _, h5, h6⟩ := hok
    simp only [List.map_cons, ChainOK, planOp, POp.start, POp.stop, h1, Option.getD_some]
    refine ⟨?_, ?_⟩
    · cases hp : prev with
      | none => exact hstart hp o (by simp) a h1
      | some p => exact Int.le_trans (hprev p hp) (h5 p hp)
    · have hd := hdur o (by simp) a b h1 h2
      exact chain_of_ops os (some b) _ h6 (fun x hx => hdone x (by simp [hx]))
        (fun x hx => hdur x (by simp [hx])) (fun p hp => by simp at hp; subst hp; exact hd) (fun h => by cases h)

/-- **A finished state is a feasible plan of its instance** with makespan at most `C`. -/
theorem feasiblePlan_of_state (w : WF inst) {s : State} {now : Int} (hI : StructInv inst s)
    (hops : ∀ j ∈ s.jobs, OpsOK now none j.ops) (hF : Feasible inst s) (hD : DurInv inst s)
    (hstart : ∀ j ∈ s.jobs, ∀ o ∈ j.ops, ∀ a, o.start = some a → 0 ≤ a)
    (hdone : ∀ j ∈ s.jobs, ∀ o ∈ j.ops, o.st = .done)
    (hdet : ∀ jc ∈ inst.jobs, ∀ oc ∈ jc.ops, ∃ d, oc.dur = .det d) (hnn : ∀ jc ∈ inst.jobs, ∀ oc ∈ jc.ops, ∀ d, oc.dur = .det d → 0 ≤ d)
    {C : Int} (hC : ∀ j ∈ s.jobs, ∀ o ∈ j.ops, ∀ b, o.stop = some b → b ≤ C) :
    FeasiblePlan (planOf inst s) C ∧ (∀ pj ∈ planOf inst s, ∀ x ∈ pj, 0 ≤ x.dur) := by
  have hs := hI.shape
  -- every record has its configuration
  have hcfg : ∀ j ∈ s.jobs, ∀ o ∈ j.ops, ∃ oc ∈ inst.jobs.flatMap (·.ops), oc.job = o.job ∧ oc.idx = o.idx ∧
      ∃ d, oc.dur = .det d ∧ 0 ≤ d ∧ durDet inst o = d := by
    intro j hj o ho
    obtain ⟨jc, hjc, hk⟩ := hs.job_cfg hj
    simp only [jKey, jcKey, Prod.mk.injEq] at hk
    obtain ⟨oc, hoc, e⟩ := mem_of_map_eq hk.2 ho
    simp only [opKey, ocKey, Prod.mk.injEq] at e
    obtain ⟨d, hd⟩ := hdet jc hjc oc hoc
    have hmem : oc ∈ inst.jobs.flatMap (·.ops) := List.mem_flatMap.mpr ⟨jc, hjc, hoc⟩
    exact ⟨oc, hmem, e.1.symm, e.2.1.symm, d, hd, hnn jc hjc oc hoc d hd, durDet_of_cfg w hmem ⟨e.1.symm, e.2.1.symm⟩ hd⟩
  have hdur : ∀ j ∈ s.jobs, ∀ o ∈ j.ops, ∀ a b, o.start = some a → o.stop = some b → a + durDet inst o ≤ b := by
    intro j hj o ho a b ha hb
    obtain ⟨oc, hoc, e1, e2, d, hd, _, hdd⟩ := hcfg j hj o ho
    obtain ⟨a', b', h1, h2, h3, _⟩ := hD.done j hj o ho (hdone j hj o ho) d ⟨oc, hoc, e1, e2, hd⟩
    rw [ha] at h1; rw [hb] at h2; simp at h1 h2; subst h1 h2
    rw [hdd]; exact h3
  have hrec : ∀ j ∈ s.jobs, ∀ o ∈ j.ops, ∃ a b, o.start = some a ∧ o.stop = some b ∧ a ≤ b := by
    intro j hj o ho
    obtain ⟨a, b, h1, h2, h3, _⟩ := (OpsOK_mem _ _ (hops j hj) o ho).1 (hdone j hj o ho)
    exact ⟨a, b, h1, h2, h3⟩
  refine ⟨⟨?_, ?_, ?_⟩, ?_⟩
  · intro pj hpj
    obtain ⟨j, hj, rfl⟩ := List.mem_map.mp hpj
    exact chain_of_ops j.ops none 0 (hops j hj) (hdone j hj) (hdur j hj) (fun p hp => by cases hp)
      (fun _ o ho a ha => hstart j hj o ho a ha)
  · -- exclusivity
    have hflat : (planOf inst s).flatMap id = s.jobs.flatMap (fun j => j.ops.map (planOp inst)) := by
      unfold planOf; rw [List.flatMap_map]; rfl
    rw [hflat, List.pairwise_flatMap]
    have hdisj : ∀ j1 ∈ s.jobs, ∀ o1 ∈ j1.ops, ∀ j2 ∈ s.jobs, ∀ o2 ∈ j2.ops, (o1.job, o1.idx) ≠ (o2.job, o2.idx) →
        (planOp inst o1).mach = (planOp inst o2).mach → disjointOps (planOp inst o1) (planOp inst o2) := by
      intro j1 hj1 o1 ho1 j2 hj2 o2 ho2 hne hm
      obtain ⟨a1, b1, s1, e1, _⟩ := hrec j1 hj1 o1 ho1
      obtain ⟨a2, b2, s2, e2, _⟩ := hrec j2 hj2 o2 ho2
      have hd1 := hdur j1 hj1 o1 ho1 a1 b1 s1 e1
      have hd2 := hdur j2 hj2 o2 ho2 a2 b2 s2 e2
      have := hF.machineExclusive j1 hj1 o1 ho1 j2 hj2 o2 ho2 hm (by rw [hdone j1 hj1 o1 ho1]; simp)
        (by rw [hdone j2 hj2 o2 ho2]; simp) hne a1 b1 a2 b2 s1 e1 s2 e2
      simp only [disjointOps, planOp, POp.stop, POp.start, s1, s2, Option.getD_some]
      omega
    constructor
    · intro j hj
      rw [List.pairwise_map]
      apply pairwise_of_nodup_key (k := fun (o : OpState) => o.idx) (hs.ops_idx_nodup w hj)
      intro o1 ho1 o2 ho2 hne
      exact hdisj j hj o1 ho1 j hj o2 ho2 (fun e => hne (by simpa using (Prod.mk.inj e).2))
    · apply pairwise_of_nodup_key (k := fun (j : JobState) => j.id) (hs.jobsNodup w)
      intro j1 hj1 j2 hj2 hne x hx y hy
      obtain ⟨o1, ho1, rfl⟩ := List.mem_map.mp hx
      obtain ⟨o2, ho2, rfl⟩ := List.mem_map.mp hy
      exact hdisj j1 hj1 o1 ho1 j2 hj2 o2 ho2 (fun e => hne (by
        have := (Prod.mk.inj e).1
        rw [hs.ops_job w hj1 ho1, hs.ops_job w hj2 ho2] at this; exact this))
  · intro pj hpj x hx
    obtain ⟨j, hj, rfl⟩ := List.mem_map.mp hpj
    obtain ⟨o, ho, rfl⟩ := List.mem_map.mp hx
    obtain ⟨a, b, s1, e1, _⟩ := hrec j hj o ho
    have := hdur j hj o ho a b s1 e1
    have := hC j hj o ho b e1
    simp only [planOp, POp.stop, s1, Option.getD_some]
    omega
  · intro pj hpj x hx
    obtain ⟨j, hj, rfl⟩ := List.mem_map.mp hpj
    obtain ⟨o, ho, rfl⟩ := List.mem_map.mp hx
    obtain ⟨_, _, _, _, d, _, hd0, hdd⟩ := hcfg j hj o ho
    simp only [planOp, POp.dur, hdd]; exact hd0

/-- no recirculation in the instance means none in the plan -/
theorem planOf_nodup_mach {s : State} (hs : Shape inst s)
    (hnr : ∀ jc ∈ inst.jobs, (jc.ops.map (·.machine)).Nodup) : ∀ pj ∈ planOf inst s, (pj.map POp.mach).Nodup := by
  intro pj hpj
  obtain ⟨j, hj, rfl⟩ := List.mem_map.mp hpj
  obtain ⟨jc, hjc, hk⟩ := hs.job_cfg hj
  simp only [jKey, jcKey, Prod.mk.injEq] at hk
  have : (j.ops.map (planOp inst)).map POp.mach = jc.ops.map (·.machine) := by
    rw [List.map_map]
    have h2 := congrArg (List.map (fun k : Nat × Nat × Nat => k.2.2)) hk.2
    simpa [List.map_map, Function.comp_def, opKey, ocKey, planOp, POp.mach] using h2
  rw [this]; exact hnr jc hjc

end JSL
