import JSL.Inv.TotalEffect

/-!
# The batches the code builds are well-aimed, and stay so

* `timed_aim` / `offer_aim`: every transition `create_timed_transitions` builds from a state, and
  every transition on offer in it, is well-aimed (`Aim`) in that state;
* `timed_indep`: in `timed ++ teleports` the machine transitions come first, and no two transitions
  address the same component (`Indep`);
* `aim_step`: applying a transition keeps every later transition of the batch well-aimed;
* `TotPass`: the pass carrying `AgvFull ∧ Ready ∧ OutageInv ∧ OutShape ∧ AgvShape ∧ JobPlace` with the
  batch guard `FullGS ∧ Aim ∧ Indep`.
-/

namespace JSL

variable {orc : Oracle} {inst : Instance}

/-! ## generic list lemmas -/

theorem mapM_filterMap_mem {α β} {f : α → Except Err (Option β)} {l : List α} {r : List (Option β)}
    (h : l.mapM f = .ok r) {b : β} (hb : b ∈ r.filterMap id) : ∃ a ∈ l, f a = .ok (some b) := by
  obtain ⟨x, hx, e⟩ := List.mem_filterMap.mp hb
  simp at e; subst e
  exact (mapM_ok_mem h).2 _ hx

theorem mapM_filterMap_pairwiseT {α β} {f : α → Except Err (Option β)} {ka : α → Nat} {kb : β → Nat} :
    ∀ (l : List α) (r : List (Option β)), (∀ a ∈ l, ∀ b, f a = .ok (some b) → kb b = ka a) → (l.map ka).Nodup →
      l.mapM f = .ok r → (r.filterMap id).Pairwise (fun x y => kb x ≠ kb y)
  | [], r, _, _, h => by simp [List.mapM_nil] at h; subst h; simp
  | a :: as, r, hf, hnd, h => by
    rw [List.mapM_cons] at h
    obtain ⟨x, hx, h⟩ := except_bind_eq_ok h
    obtain ⟨xs, hxs, h⟩ := except_bind_eq_ok h
    simp at h; subst h
    simp only [List.map_cons, List.nodup_cons] at hnd
    have ih := mapM_filterMap_pairwiseT as xs (fun a' ha' => hf a' (by simp [ha'])) hnd.2 hxs
    cases x with
    | none => simpa only [List.filterMap_cons, id] using ih
    | some b0 =>
      simp only [List.filterMap_cons, id]
      rw [List.pairwise_cons]
      refine ⟨?_, ih⟩
      intro b hb e
      obtain ⟨a', ha', hfa⟩ := mapM_filterMap_mem hxs hb
      apply hnd.1
      rw [← hf a (by simp) b0 hx, e, hf a' (by simp [ha']) b hfa]
      exact List.mem_map.mpr ⟨a', ha', rfl⟩

/-- the number in a component id -/
def Comp.num : Comp → Nat
  | .m n => n
  | .t n => n
  | .b n => n

/-! ## what `create_timed_transport_transitions` builds -/

/-- what is known of an AGV transition and the AGV it addresses (the AGV clause of `Aim` without the dispatch) -/
def AgvAim (t : TransportState) (tr : Transition) : Prop :=
  ∃ ns hd, tr.new = .t ns ∧ agvHandler t.st ns = some hd ∧ hd ≠ .idleToWorking ∧
    (hd = .pickupToWaitingpickup ∨ hd = .waitingPickupToWaitingPickup ∨ hd = .pickupToTransit → tr.job = t.job) ∧
    (hd = .transitToOutage → ∃ x, tr.job = some x ∧ x ∈ t.buffer.store)

theorem timedTransport_aim {s : State} (hA : AgvShape s) {t : TransportState} (ht : t ∈ s.transports) {tr : Transition}
    (h : timedTransport inst s t = .ok (some tr)) : tr.comp = .t t.id ∧ t.st ≠ .idle ∧ AgvAim t tr := by
  unfold timedTransport at h
  cases hocc : t.occ with
  | none => simp [hocc] at h
  | dep b j tr' => exact absurd hocc (hA.noDep t ht b j tr')
  | «at» o =>
    simp only [hocc] at h
    split at h
    · cases hst : t.st with
      | idle => simp [hst, agvTimedCreator] at h
      | working => simp [hst, agvTimedCreator] at h
      | outage =>
        simp [hst, agvTimedCreator] at h; subst h
        exact ⟨rfl, by simp, .idle, .outageToIdle, rfl, by rw [hst]; rfl, by simp, by simp, by simp⟩
      | transit =>
        simp only [hst, agvTimedCreator] at h
        split at h
        · rename_i j hstore
          obtain ⟨js, hjs, h⟩ := except_bind_eq_ok h
          simp at h; subst h
          have hid := (getJob_ok hjs).2
          exact ⟨rfl, by simp, .outage, .transitToOutage, rfl, by rw [hst]; rfl, by simp, by simp,
            fun _ => ⟨js.id, rfl, by rw [hstore, hid]; simp⟩⟩
        · simp at h
      | pickup =>
        simp only [hst, agvTimedCreator] at h
        unfold agvIdleToPickTransition at h
        obtain ⟨jid, hjid, h⟩ := except_bind_eq_ok h
        obtain ⟨j, hj, h⟩ := except_bind_eq_ok h
        obtain ⟨rdy, _, h⟩ := except_bind_eq_ok h
        have hjj := (getJob_ok hj).2
        have htj : t.job = some j.id := by
          unfold optE at hjid
          cases htj : t.job with
          | none => simp [htj] at hjid
          | some x => simp [htj] at hjid; subst hjid; simp [hjj]
        have hnx : idleToPickNext t.st rdy = some .waitingpickup := by rw [hst]; cases rdy <;> rfl
        simp [hnx] at h; subst h
        exact ⟨rfl, by simp, .waitingpickup, .pickupToWaitingpickup, rfl, by rw [hst]; rfl, by simp, fun _ => htj.symm, by simp⟩
      | waitingpickup =>
        simp only [hst, agvTimedCreator] at h
        unfold agvIdleToPickTransition at h
        obtain ⟨jid, hjid, h⟩ := except_bind_eq_ok h
        obtain ⟨j, hj, h⟩ := except_bind_eq_ok h
        obtain ⟨rdy, _, h⟩ := except_bind_eq_ok h
        have hjj := (getJob_ok hj).2
        have htj : t.job = some j.id := by
          unfold optE at hjid
          cases htj : t.job with
          | none => simp [htj] at hjid
          | some x => simp [htj] at hjid; subst hjid; simp [hjj]
        cases rdy with
        | true =>
          have hnx : idleToPickNext t.st true = some .transit := by rw [hst]; rfl
          simp [hnx] at h; subst h
          exact ⟨rfl, by simp, .transit, .pickupToTransit, rfl, by rw [hst]; rfl, by simp, fun _ => htj.symm, by simp⟩
        | false =>
          have hnx : idleToPickNext t.st false = some .waitingpickup := by rw [hst]; rfl
          simp [hnx] at h; subst h
          exact ⟨rfl, by simp, .waitingpickup, .waitingPickupToWaitingPickup, rfl, by rw [hst]; rfl, by simp, fun _ => htj.symm, by simp⟩
    · simp at h

/-- an AGV transition that knows its AGV is well-aimed -/
theorem aim_of_agvAim {s : State} {t : TransportState} (ht : t ∈ s.transports)
    {tr : Transition} (hc : tr.comp = .t t.id) (h : AgvAim t tr) : Aim inst s tr := by
  obtain ⟨ns, hd, hn, hah, hne, hw, hdl⟩ := h
  refine ⟨fun mid e => (by rw [hc] at e; cases e), ?_, fun bid e => (by rw [hc] at e; cases e)⟩
  intro tid e
  rw [hc] at e
  injection e with e
  exact ⟨t, ht, e, ns, hd, hn, hah, fun e' => absurd e' hne, hw, hdl⟩

/-- a timed machine transition is well-aimed -/
theorem timedM_aim {s : State} (hS : SchedInv s) {tr : Transition} (h : TimedM s tr) : Aim inst s tr := by
  obtain ⟨m, hm, hc, hcase⟩ := h
  refine ⟨?_, fun tid e => (by rw [hc] at e; cases e), fun bid e => (by rw [hc] at e; cases e)⟩
  intro mid e
  rw [hc] at e
  injection e with e
  refine ⟨m, hm, e, ?_⟩
  rcases hcase with ⟨ns, hnext, hn, hj⟩ | ⟨hst, hn, j, hj, hin⟩
  · have hbusy : m.st ≠ .idle := by intro e'; rw [e'] at hnext; cases hnext
    obtain ⟨j, _, hstore, _⟩ := hS.busyHolds m hm hbusy
    refine ⟨ns, j.id, hn, by rw [hj, hstore]; rfl, ?_, fun _ => by rw [hstore]; simp⟩
    intro e'
    subst e'
    exfalso
    revert hnext; cases m.st <;> decide
  · exact ⟨.setup, j, hn, hj, fun _ => hin, fun e' => (by rcases e' with e' | e' <;> cases e')⟩

/-! ## what is on offer -/

theorem offer_aim (w : WF inst) {s : State} (hV : TotInv inst s) {cfg : SMConfig} {poss : List Transition}
    (hp : possibleTransitions inst cfg s = .ok poss) {tr : Transition} (htr : tr ∈ poss) : Aim inst s tr := by
  have hI := hV.struct
  have hs := hI.shape
  rcases offer_cases hp tr htr with ⟨j, hj, o, hap, hn, rfl⟩ | ⟨pt, hpt, hin⟩
  · obtain ⟨m, hgm, _, hloc, _⟩ := actionPossible_facts hV.sched hj hap hn
    have hm := getMachine_ok hgm
    have hinpre : j.id ∈ m.pre.store := by
      have h1 := hI.cons.located (j.id, j.loc) (List.mem_map.mpr ⟨j, hj, rfl⟩)
      simp only at h1
      rw [← hloc, (pre_storeAt w hs hm.1).1] at h1
      exact h1
    refine ⟨?_, fun tid e => (by cases e), fun bid e => (by cases e)⟩
    intro mid e
    simp only [Comp.m.injEq] at e
    exact ⟨m, hm.1, by rw [hm.2, e], .setup, j.id, rfl, rfl, fun _ => hinpre,
      fun e' => (by rcases e' with e' | e' <;> cases e')⟩
  · obtain ⟨t, ht, tc, j, hj, rfl, hst, _, _, _, hkind⟩ := dispatch_offer_facts hpt tr hin
    refine ⟨fun mid e => (by cases e), ?_, fun bid e => (by cases e)⟩
    intro tid e
    simp only [Comp.t.injEq] at e
    refine ⟨t, ht, e, .working, .idleToWorking, rfl, by rw [hst]; rfl, ?_, by simp, by simp⟩
    intro _
    refine ⟨j.id, rfl, ⟨j, hj, rfl⟩, ?_⟩
    intro j1 hj1 hid hout
    have : j1 = j := eq_of_mem_of_key_eq (key := fun (y : JobState) => y.id) (hs.jobsNodup w) hj1 hj hid
    subst this
    exact not_offered_in_output hV.full.route hj1 hout hkind

/-! ## independence -/

/-- an earlier transition `a` of a batch and a later one `b`: different components, and machine
transitions come first -/
def Indep (a b : Transition) : Prop :=
  a.comp ≠ b.comp ∧ ∀ mid, b.comp = .m mid → ∃ mid', a.comp = .m mid'

theorem teleportGreedy_pairwise_comp : ∀ (n : Nat) (l : List Transition),
    (teleportGreedy n l).Pairwise (fun a b => a.comp ≠ b.comp)
  | 0, _ => by simp [teleportGreedy]
  | n + 1, [] => by simp [teleportGreedy]
  | n + 1, t :: ts => by
    simp only [teleportGreedy]
    apply List.pairwise_cons.mpr
    refine ⟨?_, teleportGreedy_pairwise_comp n _⟩
    intro b hb
    have := mem_teleportGreedy n _ b hb
    have hf := (List.mem_filter.mp this).2
    simp only [Bool.and_eq_true, bne_iff_ne, ne_eq] at hf
    exact fun e => hf.2 e.symm

/-- the timed batch followed by well-aimed dispatches of idle AGVs (pairwise different AGVs): every
transition is well-aimed, and they are pairwise independent -/
theorem timed_aim_core (w : WF inst) {s : State} (hV : TotInv inst s) {tt tele : List Transition}
    (htt : timedTransitions inst s = .ok tt) (hteleA : ∀ tr ∈ tele, Aim inst s tr)
    (hteleC : tele.Pairwise (fun a b => a.comp ≠ b.comp))
    (hteleD : ∀ tr ∈ tele, ∃ t ∈ s.transports, tr.comp = .t t.id ∧ t.st = .idle) :
    (∀ tr ∈ tt ++ tele, Aim inst s tr) ∧ (tt ++ tele).Pairwise Indep := by
  have hI := hV.struct
  have hs := hI.shape
  unfold timedTransitions at htt
  obtain ⟨a, ha, htt⟩ := except_bind_eq_ok htt
  obtain ⟨b, hb, htt⟩ := except_bind_eq_ok htt
  simp at htt; subst htt
  unfold timedMachineTransitions at ha
  unfold timedTransportTransitions at hb
  cases hra : s.machines.mapM (timedMachine inst s.time) with
  | error e => simp [hra] at ha
  | ok ra =>
    simp [hra] at ha; subst ha
    cases hrb : s.transports.mapM (timedTransport inst s) with
    | error e => simp [hrb] at hb
    | ok rb =>
      simp [hrb] at hb; subst hb
      have hA := timedMachines_spec (inst := inst) s.machines (fun m hm => hm) (hs.machNodup w) ra hra
      have hAc : ∀ tr ∈ ra.filterMap id, ∃ mid, tr.comp = .m mid := by
        intro tr htr
        obtain ⟨_, m, _, e⟩ := hA.1 tr htr
        exact ⟨m.id, e⟩
      have hB : ∀ tr ∈ rb.filterMap id, ∃ t ∈ s.transports, tr.comp = .t t.id ∧ t.st ≠ .idle ∧ AgvAim t tr := by
        intro tr htr
        obtain ⟨t, ht, e⟩ := mapM_filterMap_mem hrb htr
        exact ⟨t, ht, timedTransport_aim hV.shape ht e⟩
      have hBp : (rb.filterMap id).Pairwise (fun x y => x.comp.num ≠ y.comp.num) := by
        apply mapM_filterMap_pairwiseT (f := timedTransport inst s) (ka := fun (t : TransportState) => t.id)
          (kb := fun (tr : Transition) => tr.comp.num) s.transports rb ?_ (hs.trNodup w) hrb
        intro t ht tr e
        have := (timedTransport_aim hV.shape ht e).1
        simp [this, Comp.num]
      have hT : ∀ tr ∈ rb.filterMap id ++ tele, ∃ t ∈ s.transports, tr.comp = .t t.id := by
        intro tr htr
        rcases List.mem_append.mp htr with h | h
        · obtain ⟨t, ht, e, _⟩ := hB tr h; exact ⟨t, ht, e⟩
        · obtain ⟨t, ht, e, _⟩ := hteleD tr h; exact ⟨t, ht, e⟩
      constructor
      · intro tr htr
        rcases List.mem_append.mp htr with h | h
        · rcases List.mem_append.mp h with h | h
          · exact timedM_aim hV.sched (hA.1 tr h).1
          · obtain ⟨t, ht, e, _, ha⟩ := hB tr h
            exact aim_of_agvAim ht e ha
        · exact hteleA tr h
      · rw [List.append_assoc]
        apply List.pairwise_append.mpr
        refine ⟨?_, ?_, ?_⟩
        · apply hA.2.imp_of_mem
          intro a b ha _ hne
          exact ⟨hne, fun _ _ => hAc a ha⟩
        · apply List.pairwise_append.mpr
          refine ⟨?_, ?_, ?_⟩
          · apply hBp.imp_of_mem
            intro a b _ hb' hne
            refine ⟨fun e => hne (by rw [e]), ?_⟩
            intro mid e
            obtain ⟨t, _, e', _⟩ := hB b hb'
            rw [e'] at e; cases e
          · apply hteleC.imp_of_mem
            intro a b _ hb' hne
            refine ⟨hne, ?_⟩
            intro mid e
            obtain ⟨t, _, e', _⟩ := hteleD b hb'
            rw [e'] at e; cases e
          · intro a ha' b hb'
            obtain ⟨t, ht, e, hni, _⟩ := hB a ha'
            obtain ⟨t', ht', e', hi⟩ := hteleD b hb'
            refine ⟨?_, ?_⟩
            · intro ec
              rw [e, e'] at ec
              injection ec with ec
              have : t = t' := eq_of_mem_of_key_eq (key := fun (y : TransportState) => y.id) (hs.trNodup w) ht ht' ec
              subst this
              exact hni hi
            · intro mid em
              rw [e'] at em; cases em
        · intro a ha' b hb'
          obtain ⟨mid, e⟩ := hAc a ha'
          obtain ⟨t, _, e'⟩ := hT b hb'
          refine ⟨by rw [e, e']; simp, ?_⟩
          intro mid' em
          rw [e'] at em; cases em

/-- **the timed batch followed by the teleports** -/
theorem timed_aim (w : WF inst) {s : State} (hV : TotInv inst s) {cfg : SMConfig} {tt poss tele : List Transition} {r : Rng}
    (htt : timedTransitions inst s = .ok tt) (hposs : possibleTransitions inst cfg s = .ok poss)
    (htele : filterTeleport orc inst r s poss = .ok tele) :
    (∀ tr ∈ tt ++ tele, Aim inst s tr) ∧ (tt ++ tele).Pairwise Indep := by
  have hteleP : ∀ tr ∈ tele, tr ∈ poss := by
    unfold filterTeleport at htele
    obtain ⟨l, hl, htele⟩ := except_bind_eq_ok htele
    simp at htele; subst htele
    intro tr htr
    exact (filterE_ok hl tr (mem_teleportGreedy _ _ _ htr)).1
  have hteleC : tele.Pairwise (fun a b => a.comp ≠ b.comp) := by
    unfold filterTeleport at htele
    obtain ⟨l, hl, htele⟩ := except_bind_eq_ok htele
    simp at htele; subst htele
    exact teleportGreedy_pairwise_comp _ _
  have hteleD : ∀ tr ∈ tele, ∃ t ∈ s.transports, tr.comp = .t t.id ∧ t.st = .idle := by
    intro tr htr
    have hn := filterTeleport_shape hposs htele tr htr
    rcases offer_cases hposs tr (hteleP tr htr) with ⟨j, _, o, _, _, rfl⟩ | ⟨pt, hpt, hin⟩
    · simp at hn
    · obtain ⟨t, ht, tc, j, hj, rfl, hst, _⟩ := dispatch_offer_facts hpt tr hin
      exact ⟨t, ht, rfl, hst⟩
  exact timed_aim_core w hV htt (fun tr htr => offer_aim w hV hposs (hteleP tr htr)) hteleC hteleD

theorem timedOnly_aim (w : WF inst) {s : State} (hV : TotInv inst s) {tt : List Transition}
    (htt : timedTransitions inst s = .ok tt) : (∀ tr ∈ tt, Aim inst s tr) ∧ tt.Pairwise Indep := by
  have := timed_aim_core w hV (tele := []) htt (by simp) List.Pairwise.nil (by simp)
  simpa using this

/-! ## applying a transition keeps the rest of the batch well-aimed -/

theorem aim_step (w : WF inst) {s s' : State} {r r' : Rng} (hV : TotInv inst s) {tr tr' : Transition}
    (hv : transitionValid s tr = .ok true) (hg : Guard s tr) (hind : Indep tr tr') (ha' : Aim inst s tr')
    (hu' : Unclaimed s tr') (h : applyTransition orc inst s r tr = .ok (s', r')) : Aim inst s' tr' := by
  have hI := hV.struct
  have hs := hI.shape
  have hjn := hs.jobsNodup w
  have htn := hs.trNodup w
  have hI' := applyTransition_struct w hI hv h
  have hjobs := job_ids_same hI hI'
  cases hc : tr.comp with
  | b bid =>
    unfold applyTransition at h
    simp only [hc] at h
    obtain ⟨_, _, h⟩ := except_bind_eq_ok h
    simp at h
  | m mid0 =>
    obtain ⟨m0, hm0, hm0id, M', hMid, hms, hts, _⟩ := mach_effectS w hc h
    obtain ⟨m0', hm0', hm0id', _, j, hj, J', hJid, hjs, hcase⟩ := mach_effectR w hI hV.sched hg hc h
    have : m0' = m0 := eq_of_mem_of_key_eq (key := fun (y : MachineState) => y.id) (hs.machNodup w) hm0' hm0
      (by rw [hm0id', hm0id])
    subst this
    have hmem : ∀ x, x ∈ s'.jobs ↔ (x = J' ∨ (x ∈ s.jobs ∧ x.id ≠ j.id)) := by
      intro x; rw [hjs]; exact mem_replaceJob hjn hj hJid x
    have hno := machine_buf_not_output w hs hm0'
    refine ⟨?_, ?_, ha'.notBuf⟩
    · intro mid hc'
      obtain ⟨m, hm, hmid, rest⟩ := ha'.mach mid hc'
      have hne : m.id ≠ m0'.id := by
        intro e
        apply hind.1
        rw [hc, hc', ← hm0id, ← hmid, e]
      exact ⟨m, by rw [hms]; exact (mem_replaceMachine (hs.machNodup w) hm0' hMid m).mpr (Or.inr ⟨hm, hne⟩), hmid, rest⟩
    · intro tid hc'
      obtain ⟨t, ht, htid, ns, hd, hn, hah, hdisp, hw, hdl⟩ := ha'.agv tid hc'
      refine ⟨t, by rw [hts]; exact ht, htid, ns, hd, hn, hah, ?_, hw, hdl⟩
      intro he
      obtain ⟨x, hx, hex, hall⟩ := hdisp he
      refine ⟨x, hx, (hjobs x).mp hex, ?_⟩
      intro j1 hj1 hid
      rcases (hmem j1).mp hj1 with rfl | ⟨hj1', _⟩
      · rcases hcase with ⟨_, e, _⟩ | ⟨_, _, _, e3, _⟩
        · rw [e]; exact hno.2.1
        · rcases e3 with e3 | e3
          · rw [e3]; exact hall j hj (by rw [← hJid, hid])
          · rw [e3]; exact hno.2.2
      · exact hall j1 hj1' hid
  | t tid0 =>
    obtain ⟨t0, t', ht0, ht0id, hid, hts, heff⟩ := agv_effectR w hI hc h
    have hmemT : ∀ x, x ∈ s'.transports ↔ (x = t' ∨ (x ∈ s.transports ∧ x.id ≠ t0.id)) := by
      intro x; rw [hts]; exact mem_replaceTransport htn ht0 hid x
    refine ⟨?_, ?_, ha'.notBuf⟩
    · intro mid hc'
      obtain ⟨mid', e⟩ := hind.2 mid hc'
      rw [hc] at e; cases e
    · intro tid hc'
      obtain ⟨t, ht, htid, ns, hd, hn, hah, hdisp, hw, hdl⟩ := ha'.agv tid hc'
      have hne : t.id ≠ t0.id := by
        intro e
        apply hind.1
        rw [hc, hc', ← ht0id, ← htid, e]
      refine ⟨t, (hmemT t).mpr (Or.inr ⟨ht, hne⟩), htid, ns, hd, hn, hah, ?_, hw, hdl⟩
      intro he
      obtain ⟨x, hx, hex, hall⟩ := hdisp he
      refine ⟨x, hx, (hjobs x).mp hex, ?_⟩
      have hnew : tr'.new = .t .working := by
        subst he
        rw [hn, (agvHandler_idleToWorking hah).2]
      have hfree := hu' hnew x hx
      intro j1 hj1 hxid
      cases heff with
      | dispatch j cur pick drop _ _ _ _ _ _ _ _ _ hjobs' _ => rw [hjobs'] at hj1; exact hall j1 hj1 hxid
      | keep _ _ _ _ _ hjobs' _ => rw [hjobs'] at hj1; exact hall j1 hj1 hxid
      | pickup j _ _ _ _ _ _ hj _ hjobs' _ =>
        rw [hjobs'] at hj1
        rcases (mem_replaceJob hjn hj (JobState.at_id j _) j1).mp hj1 with rfl | ⟨hj1', _⟩
        · exact (transport_buf_not_standalone w hs ht0).2
        · exact hall j1 hj1' hxid
      | deliverM j cur pick ms bss _ _ _ _ _ hms hj _ hjobs' _ =>
        rw [hjobs'] at hj1
        rcases (mem_replaceJob hjn hj (JobState.at_id j _) j1).mp hj1 with rfl | ⟨hj1', _⟩
        · exact (machine_buf_not_output w hs hms).1
        · exact hall j1 hj1' hxid
      | deliverB j cur pick b bss _ _ _ _ _ _ hj hin hjobs' _ _ =>
        rw [hjobs'] at hj1
        rcases (mem_replaceJob hjn hj (JobState.at_id j _) j1).mp hj1 with rfl | ⟨hj1', _⟩
        · exfalso
          have htrans : t0.st = .transit := by
            apply Classical.byContradiction
            intro hne'
            rw [hV.full.agv.empty t0 ht0 hne'] at hin
            cases hin
          have hown := hV.full.route.transitOwn t0 ht0 htrans j.id hin
          simp at hxid; subst hxid
          exact hfree t0 ht0 hown
        · exact hall j1 hj1' hxid

/-! ## machine transitions of a batch pass the table of valid transitions -/

/-- for the machine a transition addresses there is a handler from its current state -/
def MValid (s : State) (tr : Transition) : Prop :=
  ∀ mid, tr.comp = .m mid → ∀ m ∈ s.machines, m.id = mid → ∀ ns, tr.new = .m ns → ∃ h, machineHandler m.st ns = some h

theorem timedM_mvalid (w : WF inst) {s : State} (hs : Shape inst s) {tr : Transition} (h : TimedM s tr) : MValid s tr := by
  obtain ⟨m, hm, hc, hcase⟩ := h
  intro mid e m' hm' hid ns hn
  rw [hc] at e
  injection e with e
  have : m' = m := eq_of_mem_of_key_eq (key := fun (y : MachineState) => y.id) (hs.machNodup w) hm' hm (by rw [hid, e])
  subst this
  rcases hcase with ⟨ns', hnext, hn', _⟩ | ⟨hst, hn', _⟩
  · rw [hn'] at hn
    injection hn with hn
    subst hn
    revert hnext
    cases m'.st <;> simp [machineTimedNext] <;> intro e' <;> subst e' <;> exact ⟨_, rfl⟩
  · rw [hn'] at hn
    injection hn with hn
    subst hn
    rw [hst]; exact ⟨_, rfl⟩

theorem mvalid_of_agv {s : State} {tr : Transition} {tid : Nat} (hc : tr.comp = .t tid) : MValid s tr := by
  intro mid e; rw [hc] at e; cases e

theorem offer_mvalid (w : WF inst) {s : State} (hV : TotInv inst s) {cfg : SMConfig} {poss : List Transition}
    (hp : possibleTransitions inst cfg s = .ok poss) {tr : Transition} (htr : tr ∈ poss) : MValid s tr := by
  have hs := hV.struct.shape
  rcases offer_cases hp tr htr with ⟨j, hj, o, hap, hn, rfl⟩ | ⟨pt, hpt, hin⟩
  · obtain ⟨m, hgm, _, _, hst⟩ := actionPossible_facts hV.sched hj hap hn
    have hm := getMachine_ok hgm
    intro mid e m' hm' hid ns hnew
    simp only [Comp.m.injEq] at e
    have : m' = m := eq_of_mem_of_key_eq (key := fun (y : MachineState) => y.id) (hs.machNodup w) hm' hm.1 (by rw [hid, hm.2, e])
    subst this
    simp only [NewSt.m.injEq] at hnew
    subst hnew
    rw [hst]; exact ⟨_, rfl⟩
  · obtain ⟨t, ht, tc, j, hj, rfl, _⟩ := dispatch_offer_facts hpt tr hin
    exact mvalid_of_agv rfl

theorem mvalid_step (w : WF inst) {s s' : State} {r r' : Rng} (hI : StructInv inst s) {tr tr' : Transition}
    (hind : Indep tr tr') (hm' : MValid s tr') (h : applyTransition orc inst s r tr = .ok (s', r')) : MValid s' tr' := by
  have hs := hI.shape
  intro mid hc' m hm hid ns hn
  obtain ⟨mid0, hc⟩ := hind.2 mid hc'
  obtain ⟨m0, hm0, hm0id, M', hMid, hms, _, _⟩ := mach_effectS w hc h
  rw [hms] at hm
  rcases (mem_replaceMachine (hs.machNodup w) hm0 hMid m).mp hm with rfl | ⟨hm1, _⟩
  · exfalso
    apply hind.1
    rw [hc, hc', ← hm0id, ← hid, hMid]
  · exact hm' mid hc' m hm1 hid ns hn

/-- **a well-aimed transition of a batch passes validation** -/
theorem valid_true (w : WF inst) {s : State} (hV : TotInv inst s) {tr : Transition} (ha : Aim inst s tr)
    (hm : MValid s tr) : transitionValid s tr = .ok true := by
  have hI := hV.struct
  have hs := hI.shape
  cases hc : tr.comp with
  | b bid => exact absurd hc (ha.notBuf bid)
  | t tid =>
    obtain ⟨t, ht, hid, ns, hd, hn, hah, _⟩ := ha.agv tid hc
    have hgt := getTransport_of_mem (hs.trNodup w) ht
    rw [hid] at hgt
    unfold transitionValid
    simp only [hc, hgt, except_bind_ok, except_pure, transportTransitionValid, hn]
    congr 1
    revert hah
    cases t.st <;> cases ns <;> simp [agvHandler, transportValid]
  | m mid =>
    obtain ⟨m, hmm, hid, ns, x, hnew, hjob, hpre, hbuf⟩ := ha.mach mid hc
    obtain ⟨hd, hh⟩ := hm mid hc m hmm hid ns hnew
    have hgm := getMachine_of_mem (hs.machNodup w) hmm
    rw [hid] at hgm
    unfold transitionValid
    simp only [hc, hgm, except_bind_ok]
    unfold machineTransitionValid
    rw [hnew, hjob]
    cases hd with
    | idleToSetup =>
      obtain ⟨hst, hns⟩ := machineHandler_idleToSetup hh
      subst hns
      have hx := hpre rfl
      have hx' : x ∈ storeAt s m.pre.id := by rw [(pre_storeAt w hs hmm).1]; exact hx
      obtain ⟨j, hj, e⟩ := List.mem_map.mp (hI.cons.stored _ _ hx')
      simp only [Prod.mk.injEq] at e
      have hg : getJob s.jobs x = .ok j := by rw [← e.1]; exact getJob_of_mem (hs.jobsNodup w) hj
      obtain ⟨op, hop, hopm⟩ := hV.full.route.preNext m hmm x hx j hj e.1
      have hnp : ∀ o ∈ j.ops, o.st ≠ .processing :=
        not_processing_of_stored hI hV.sched w hj (by rw [e.1]; exact hx') (fun m2 hm2 => (internal_ne_pre_post hs w hm2 hmm).1)
      have hrun : j.running = false := by
        unfold JobState.running
        apply Bool.eq_false_iff.mpr
        intro h
        obtain ⟨o, ho, hp⟩ := List.any_eq_true.mp h
        exact hnp o ho (by simpa using hp)
      have hnn : j.nextNotDone = .ok op := by
        simp [JobState.nextNotDone, nextNotDone_eq_nextIdle (hV.sched.ops j hj) hrun, hop]
      simp [hst, machineAllowed, machineValid, machineJobCheck, hg, hnn, hopm]
    | setupToWorking =>
      obtain ⟨hst, hns⟩ := machineHandler_setupToWorking hh
      subst hns
      have hx := hbuf (Or.inl rfl)
      obtain ⟨j, hj, hstore, op, hop, hopm, _⟩ := hV.sched.busyHolds m hmm (by rw [hst]; decide)
      rw [hstore] at hx
      have hjx : x = j.id := by simpa using hx
      have hg : getJob s.jobs x = .ok j := by rw [hjx]; exact getJob_of_mem (hs.jobsNodup w) hj
      have hnn : j.nextNotDone = .ok op := by
        simp [JobState.nextNotDone, nextNotDone_of_processing (hV.sched.ops j hj) hop]
      simp [hst, machineAllowed, machineValid, machineJobCheck, hg, hnn, hopm]
    | workingToOutage =>
      obtain ⟨hst, hns⟩ := machineHandler_workingToOutage hh
      subst hns
      simp [hst, machineAllowed, machineValid]
    | outageToIdle =>
      obtain ⟨hst, hns⟩ := machineHandler_outageToIdle hh
      subst hns
      simp [hst, machineAllowed, machineValid]

theorem timedOnly_mvalid (w : WF inst) {s : State} (hI : StructInv inst s) (hS : SchedInv s) {tt : List Transition}
    (htt : timedTransitions inst s = .ok tt) : ∀ tr ∈ tt, MValid s tr := by
  have hs := hI.shape
  unfold timedTransitions at htt
  obtain ⟨a, ha, htt⟩ := except_bind_eq_ok htt
  obtain ⟨b, hb, htt⟩ := except_bind_eq_ok htt
  simp at htt; subst htt
  unfold timedMachineTransitions at ha
  unfold timedTransportTransitions at hb
  cases hra : s.machines.mapM (timedMachine inst s.time) with
  | error e => simp [hra] at ha
  | ok ra =>
    simp [hra] at ha; subst ha
    cases hrb : s.transports.mapM (timedTransport inst s) with
    | error e => simp [hrb] at hb
    | ok rb =>
      simp [hrb] at hb; subst hb
      have hA := timedMachines_spec (inst := inst) s.machines (fun m hm => hm) (hs.machNodup w) ra hra
      have hB := timedTransports_spec (inst := inst) hS s.transports (fun t ht => ht) rb hrb
      intro tr htr
      rcases List.mem_append.mp htr with h | h
      · exact timedM_mvalid w hs (hA.1 tr h).1
      · obtain ⟨⟨ns, e⟩, _⟩ := hB tr h
        intro mid _ m _ _ ns' hn
        rw [e] at hn; cases hn

theorem timed_mvalid (w : WF inst) {s : State} (hV : TotInv inst s) {cfg : SMConfig} {tt poss tele : List Transition} {r : Rng}
    (htt : timedTransitions inst s = .ok tt) (hposs : possibleTransitions inst cfg s = .ok poss)
    (htele : filterTeleport orc inst r s poss = .ok tele) : ∀ tr ∈ tt ++ tele, MValid s tr := by
  intro tr htr
  rcases List.mem_append.mp htr with h | h
  · exact timedOnly_mvalid w hV.struct hV.sched htt tr h
  · have hn := filterTeleport_shape hposs htele tr h
    intro mid _ m _ _ ns' hn'
    rw [hn] at hn'; cases hn'

/-! ## the pass -/

/-- the further invariants carried through `state.step` -/
structure TotP (inst : Instance) (s : State) : Prop where
  full : AgvFull inst s
  ready : Ready inst s
  out : OutageInv s
  outShape : OutShape inst s
  shape : AgvShape s
  place : JobPlace inst s

theorem TotP.inv {s : State} (hP : TotP inst s) (hI : StructInv inst s) (hS : SchedInv s) : TotInv inst s :=
  ⟨hI, hS, hP.full, hP.ready, hP.out, hP.outShape, hP.shape, hP.place⟩

theorem TotInv.toP {s : State} (hV : TotInv inst s) : TotP inst s :=
  ⟨hV.full, hV.ready, hV.out, hV.outShape, hV.shape, hV.place⟩

/-- the batch guard: the guards of the AGV pass, every transition well-aimed, pairwise independent -/
structure TotGS (inst : Instance) (s : State) (L : List Transition) : Prop where
  full : FullGS s L
  aim : ∀ tr ∈ L, Aim inst s tr
  mvalid : ∀ tr ∈ L, MValid s tr
  indep : L.Pairwise Indep

def TotPass (orc : Oracle) (inst : Instance) (cfg : SMConfig) (w : WF inst) (nn : NonNeg orc inst) (C : TotClass inst) :
    Pass orc inst cfg where
  P := TotP inst
  GS := TotGS inst
  Adm := AdmOffer inst cfg
  tail := fun h => ⟨(FullPass orc inst cfg w).tail h.full, fun tr htr => h.aim tr (by simp [htr]),
    fun tr htr => h.mvalid tr (by simp [htr]), (List.pairwise_cons.mp h.indep).2⟩
  step := fun {s s' r r' tr R} hI hS hP hv hsafe hfresh hgs ha => by
    have hf := (FullPass orc inst cfg w).step hI hS hP.full hv hsafe hfresh hgs.full ha
    have hV := hP.inv hI hS
    refine ⟨⟨hf.1, applyTransition_ready w C.tables hI hP.full hP.ready hv ha, applyTransition_outage w nn hI hP.out ha,
      applyTransition_outShape w hI hP.outShape ha, applyTransition_agvShape w C.flex hI hS hP.shape ha,
      applyTransition_jobPlace w hI hS hP.full hP.place hsafe.guard (hgs.aim tr (by simp)) ha⟩, hf.2, ?_,
      fun tr' htr' => mvalid_step w hI ((List.pairwise_cons.mp hgs.indep).1 tr' htr') (hgs.mvalid tr' (by simp [htr'])) ha,
      (List.pairwise_cons.mp hgs.indep).2⟩
    intro tr' htr'
    exact aim_step w hV hv hsafe.guard ((List.pairwise_cons.mp hgs.indep).1 tr' htr') (hgs.aim tr' (by simp [htr']))
      (fun hn x hx => hgs.full.claim.free tr' (by simp [htr']) hn x hx) ha
  advance := fun hI hS hP hle hpg =>
    ⟨(FullPass orc inst cfg w).advance hI hS hP.full hle hpg, ⟨hP.ready.tool, hP.ready.parked⟩, hP.out.advance hle,
     ⟨hP.outShape.mach, hP.outShape.agv⟩, ⟨hP.shape.noWorking, hP.shape.busyClaims, hP.shape.noDep, hP.shape.occSet⟩,
     ⟨hP.place.inputIdle, hP.place.claimNotOut⟩⟩
  timed := fun hI hS hP htt hposs htele =>
    have ht := timed_aim w (hP.inv hI hS) htt hposs htele
    ⟨(FullPass orc inst cfg w).timed hI hS hP.full htt hposs htele, ht.1,
      timed_mvalid w (hP.inv hI hS) htt hposs htele, ht.2⟩
  timedOnly := fun hI hS hP htt =>
    have ht := timedOnly_aim w (hP.inv hI hS) htt
    ⟨(FullPass orc inst cfg w).timedOnly hI hS hP.full htt, ht.1, timedOnly_mvalid w hI hS htt, ht.2⟩
  action := fun {s a} hI hS hP hadm => by
    refine ⟨(FullPass orc inst cfg w).action hI hS hP.full hadm, ?_, ?_, ?_⟩
    · rcases hadm with e | ⟨poss, hposs, tr, hp, e⟩
      · rw [e, sortedByTransport_nil]; intro _ h; cases h
      · rw [e, sortedByTransport_single]
        intro tr' htr'
        simp at htr'; subst htr'
        exact offer_aim w (hP.inv hI hS) hposs hp
    · rcases hadm with e | ⟨poss, hposs, tr, hp, e⟩
      · rw [e, sortedByTransport_nil]; intro _ h; cases h
      · rw [e, sortedByTransport_single]
        intro tr' htr'
        simp at htr'; subst htr'
        exact offer_mvalid w (hP.inv hI hS) hposs hp
    · rcases hadm with e | ⟨poss, hposs, tr, hp, e⟩
      · rw [e, sortedByTransport_nil]; exact List.Pairwise.nil
      · rw [e, sortedByTransport_single]; exact List.pairwise_singleton _ _

end JSL
