import JSL.Inv.ApproachTrace
import JSL.Inv.EnvPass

/-!
# `DepOwn` for instances with a single AGV

A `TimeDependency` is created by `_get_waiting_time` with the transition being handled, or copied
from the AGV assigned to the job at the release position.  With one AGV the copy is the AGV's own,
so every parked transition addresses the AGV it is parked at – in every exposed state.
-/

namespace JSL

variable {orc : Oracle} {inst : Instance}

/-- where a time dependency returned by `_get_waiting_time` comes from -/
theorem ap_getWaitingTime_dep_src {s : State} {tr : Transition} {b j : Nat} {tr' : Transition}
    (h : getWaitingTime inst s tr = .ok (.dep b j tr')) :
    tr' = tr ∨ ∃ t2 ∈ s.transports, t2.occ = .dep b j tr' := by
  unfold getWaitingTime at h
  obtain ⟨j0, _, h⟩ := except_bind_eq_ok h
  obtain ⟨bc, _, h⟩ := except_bind_eq_ok h
  cases hp : bc.parent with
  | none => simp [hp] at h
  | some p =>
    cases p with
    | t n => simp [hp] at h
    | b n => simp [hp] at h
    | m mid =>
      simp only [hp] at h
      obtain ⟨ms, _, h⟩ := except_bind_eq_ok h
      split at h
      · obtain ⟨rdy, _, h⟩ := except_bind_eq_ok h
        split at h
        · simp at h
        · unfold waitBehind at h
          obtain ⟨nxt, _, h⟩ := except_bind_eq_ok h
          obtain ⟨nj, _, h⟩ := except_bind_eq_ok h
          split at h
          · simp at h
          · cases htb : transportByJob s nxt with
            | none => simp [htb] at h; exact Or.inl h.2.2.symm
            | some t2 =>
              simp [htb] at h
              unfold transportByJob at htb
              exact Or.inr ⟨t2, List.mem_of_find?_eq_some htb, h⟩
      · unfold waitProcessing at h
        cases hpr : j0.processing? with
        | none => simp [hpr] at h
        | some op => simp [hpr] at h; split at h <;> simp at h

/-- the parked transition of a record after one application: the transition applied, or one that
was parked before -/
theorem ap_dep_src (w : WF inst) {s s' : State} {r r' : Rng} {tr : Transition}
    (hI : StructInv inst s) (h : applyTransition orc inst s r tr = .ok (s', r')) :
    ∀ t' ∈ s'.transports, t' ∈ s.transports ∨ (tr.comp = .t t'.id ∧ (∃ t0 ∈ s.transports, t'.id = t0.id) ∧
      ∀ b j tr', t'.occ = .dep b j tr' → tr' = tr ∨ ∃ t2 ∈ s.transports, t2.occ = .dep b j tr') := by
  have htn := hI.shape.trNodup w
  have h0 := h
  cases hc : tr.comp with
  | b bid =>
    unfold applyTransition at h
    simp only [hc] at h
    obtain ⟨_, _, h⟩ := except_bind_eq_ok h
    simp at h
  | m mid =>
    have htr := (machine_effect w hI hc h0).2.1
    exact fun t' ht' => Or.inl (by rw [htr] at ht'; exact ht')
  | t tid =>
    unfold applyTransition at h
    simp only [hc] at h
    obtain ⟨t0, ht0, h⟩ := except_bind_eq_ok h
    unfold handleTransportTransition at h
    obtain ⟨t, ht, h⟩ := except_bind_eq_ok h
    rw [ht0] at ht; simp at ht; subst ht
    have hmem := getTransport_ok ht0
    have key : ∀ (t' : TransportState), t'.id = t0.id → s'.transports = (s.replaceTransport t').transports →
        (∀ b j tr', t'.occ = .dep b j tr' → tr' = tr ∨ ∃ t2 ∈ s.transports, t2.occ = .dep b j tr') →
        ∀ x ∈ s'.transports, x ∈ s.transports ∨ (Comp.t tid = .t x.id ∧ (∃ t0 ∈ s.transports, x.id = t0.id) ∧
          ∀ b j tr', x.occ = .dep b j tr' → tr' = tr ∨ ∃ t2 ∈ s.transports, t2.occ = .dep b j tr') := by
      intro t' hid htr hocc x hx
      rw [htr] at hx
      rcases (mem_replaceTransport htn hmem.1 hid x).mp hx with rfl | ⟨hx0, _⟩
      · exact Or.inr ⟨by rw [hid, hmem.2], ⟨t0, hmem.1, hid⟩, hocc⟩
      · exact Or.inl hx0
    obtain ⟨tc, _, h⟩ := except_bind_eq_ok h
    split at h
    · simp at h
    · obtain ⟨hd, hh, h⟩ := except_bind_eq_ok h
      unfold agvHandlerOf at hh
      cases hn : tr.new with
      | m ns => simp [hn] at hh
      | t ns =>
        simp only [hn] at hh
        cases hah : agvHandler t0.st ns with
        | none => simp [hah] at hh
        | some hd' =>
          simp [hah] at hh; subst hh
          cases hd' with
          | idleToWorking =>
            obtain ⟨j, cur, target, src, bc, c, _, _, _, _, _, _, _, _, _, rfl⟩ := idleToWorking_spec h
            exact key (t0.toPickup cur bc.id target (s.time + c.cur orc r) j.id) rfl rfl
              (fun b j tr' ho => by simp [TransportState.toPickup] at ho)
          | pickupToWaitingpickup =>
            obtain ⟨occ, hocc, _, _, rfl⟩ := pickupToWaiting_spec h
            exact key (t0.toWaiting occ) rfl rfl (fun b j tr' ho => by
              simp only [TransportState.toWaiting] at ho; subst ho; exact ap_getWaitingTime_dep_src hocc)
          | waitingPickupToWaitingPickup =>
            obtain ⟨occ, hocc, _, rfl⟩ := waitingToWaiting_spec h
            exact key (t0.toWaiting occ) rfl rfl (fun b j tr' ho => by
              simp only [TransportState.toWaiting] at ho; subst ho; exact ap_getWaitingTime_dep_src hocc)
          | outageToIdle =>
            obtain ⟨_, rfl⟩ := agvOutageToIdle_spec h
            exact key t0.toIdle rfl rfl (fun b j tr' ho => Or.inr ⟨t0, hmem.1, by simpa [TransportState.toIdle] using ho⟩)
          | pickupToTransit =>
            obtain ⟨j, src, dst, tt, bss1, bss2, _, _, _, _, _, hcase⟩ := pickupToTransit_spec h
            refine key (t0.toTransit (s.time + tt) j.id bss2) rfl ?_
              (fun b j tr' ho => by simp [TransportState.toTransit] at ho)
            rcases hcase with ⟨fb, _, _, _, _, _, rfl⟩ | ⟨mid, ms, bs, ms', _, _, _, _, _, _, _, rfl⟩ <;> rfl
          | transitToOutage =>
            obtain ⟨j, cur, pick, drop, tc, outs, bss1, bss2, _, _, _, _, _, _, _, hcase⟩ := transitToOutage_spec h
            refine key (t0.toOutage j.id bss1 outs (s.time + occupiedFor outs) drop) rfl ?_
              (fun b j tr' ho => by simp [TransportState.toOutage] at ho)
            rcases hcase with ⟨mid, ms, _, _, _, _, rfl⟩ | ⟨bid, b, _, _, _, _, rfl⟩ <;> rfl

/-- with at most one AGV, one application keeps `DepOwn` -/
theorem ap_depOwn_step (w : WF inst) (hone : inst.transports.length ≤ 1) {s s' : State} {r r' : Rng} {tr : Transition}
    (hI : StructInv inst s) (hd : DepOwn s) (h : applyTransition orc inst s r tr = .ok (s', r')) : DepOwn s' := by
  have hlen : s.transports.length ≤ 1 := by
    have := congrArg List.length hI.shape.transports
    simp only [List.length_map] at this
    omega
  have huniq : ∀ x ∈ s.transports, ∀ y ∈ s.transports, x = y := by
    intro x hx y hy
    match hs : s.transports, hlen with
    | [], _ => rw [hs] at hx; cases hx
    | [z], _ => rw [hs] at hx hy; simp at hx hy; rw [hx, hy]
    | _ :: _ :: _, hl => simp at hl
  intro t' ht' b j tr' ho
  rcases ap_dep_src w hI h t' ht' with ht0 | ⟨hcomp, ⟨t0, ht0, hid0⟩, hsrc⟩
  · exact hd t' ht0 b j tr' ho
  · rcases hsrc b j tr' ho with rfl | ⟨t2, ht2, ho2⟩
    · exact hcomp
    · have hc2 := hd t2 ht2 b j tr' ho2
      rw [hc2, hid0, huniq t2 ht2 t0 ht0]

/-- `DepOwn` as a pass (instances with at most one AGV) -/
def DepOwnPass (orc : Oracle) (inst : Instance) (cfg : SMConfig) (w : WF inst) (hone : inst.transports.length ≤ 1) :
    Pass orc inst cfg where
  P := DepOwn
  GS := fun _ _ => True
  Adm := fun _ _ => True
  tail := fun _ => trivial
  step := fun hI _ hP _ _ _ _ ha => ⟨ap_depOwn_step w hone hI hP ha, trivial⟩
  advance := fun _ _ hP _ _ => hP
  timed := fun _ _ _ _ _ _ => trivial
  timedOnly := fun _ _ _ _ => trivial
  action := fun _ _ _ _ => trivial

/-- **with at most one AGV, every exposed state satisfies `DepOwn`** -/
theorem ap_exposed_depOwn {ec : EnvCfg} {st : RewardStatic} {s0 σ : State} (hst : Start orc inst s0)
    (hone : inst.transports.length ≤ 1) (h : Exposed orc inst ec st s0 σ) : DepOwn σ := by
  obtain ⟨w, _⟩ := initOKB_sound hst.init
  obtain ⟨t, ht⟩ := exposed_pass (DepOwnPass orc inst ec.sm w hone) hst (ap_depOwn_rest hst.rest) (fun _ _ _ => trivial) h
  exact ht

end JSL
