import JSL.Inv.Init

/-!
# The schedule invariant

`SchedInv` couples machines and jobs (a busy machine holds exactly the job whose processing
operation runs on it), orders the operation records of every job in time, keeps the operations
of one machine disjoint, and says that nothing pending lies in the past.
-/

namespace JSL

def allIdle (l : List OpState) : Prop := ∀ o ∈ l, o.st = .idle

/-- the operation records of one job, in order: DONE* · PROCESSING? · IDLE*, times chained -/
def OpsOK (now : Int) : Option Int → List OpState → Prop
  | _, [] => True
  | prev, o :: os =>
    match o.st with
    | .done => ∃ a b, o.start = some a ∧ o.stop = some b ∧ a ≤ b ∧ b ≤ now ∧
                 (∀ p, prev = some p → p ≤ a) ∧ OpsOK now (some b) os
    | .processing => ∃ a b, o.start = some a ∧ o.stop = some b ∧ a ≤ b ∧ a ≤ now ∧ now ≤ b ∧
                 (∀ p, prev = some p → p ≤ a) ∧ allIdle os
    | .idle => allIdle os
    | .transport => False

/-- two operation records do not overlap in time (as closed-open intervals) -/
def Disjoint2 (o₁ o₂ : OpState) : Prop :=
  ∀ a₁ b₁ a₂ b₂, o₁.start = some a₁ → o₁.stop = some b₁ → o₂.start = some a₂ → o₂.stop = some b₂ →
    b₁ ≤ a₂ ∨ b₂ ≤ a₁

structure SchedInv (s : State) : Prop where
  /-- an idle machine holds no job -/
  idleEmpty : ∀ m ∈ s.machines, m.st = .idle → m.buffer.store = []
  /-- a busy machine holds exactly the job whose processing operation runs on it until `occ` -/
  busyHolds : ∀ m ∈ s.machines, m.st ≠ .idle → ∃ j ∈ s.jobs, m.buffer.store = [j.id] ∧
      ∃ op, j.processing? = some op ∧ op.machine = m.id ∧ op.stop = m.occ ∧ m.occ ≠ none
  /-- a processing operation runs on a busy machine that holds its job -/
  procOnBusy : ∀ j ∈ s.jobs, ∀ op ∈ j.ops, op.st = .processing →
      ∃ m ∈ s.machines, m.id = op.machine ∧ m.st ≠ .idle ∧ m.buffer.store = [j.id]
  /-- per job: order and time chain -/
  ops : ∀ j ∈ s.jobs, OpsOK s.time none j.ops
  /-- per machine: a finished operation ends before a running one starts -/
  doneBeforeProc : ∀ j₁ ∈ s.jobs, ∀ o₁ ∈ j₁.ops, ∀ j₂ ∈ s.jobs, ∀ o₂ ∈ j₂.ops,
      o₁.machine = o₂.machine → o₁.st = .done → o₂.st = .processing →
      ∀ b₁ a₂, o₁.stop = some b₁ → o₂.start = some a₂ → b₁ ≤ a₂
  /-- per machine: finished operations are pairwise disjoint -/
  doneDisjoint : ∀ j₁ ∈ s.jobs, ∀ o₁ ∈ j₁.ops, ∀ j₂ ∈ s.jobs, ∀ o₂ ∈ j₂.ops,
      o₁.machine = o₂.machine → o₁.st = .done → o₂.st = .done → (o₁.job, o₁.idx) ≠ (o₂.job, o₂.idx) →
      Disjoint2 o₁ o₂
  /-- a busy AGV's arrival / waiting time is not in the past -/
  agvPending : ∀ t ∈ s.transports, t.st ≠ .idle → ∀ o, t.occ = .at o → s.time ≤ o
  /-- an idle AGV and an AGV in its drop-off outage claim no job -/
  freeNoClaim : ∀ t ∈ s.transports, t.st = .idle ∨ t.st = .outage → t.job = none
  /-- the transition parked in a time dependency is a "keep waiting" transition -/
  depWaiting : ∀ t ∈ s.transports, ∀ b j tr, t.occ = .dep b j tr → tr.new = .t .waitingpickup

/-- hypotheses on sampled values: every duration, travel, setup and outage time is non-negative
(the code clamps stochastic samples at 0; the DSL grammar only admits `\\d+` for job durations) -/
structure NonNeg (orc : Oracle) (inst : Instance) : Prop where
  orc : ∀ sid k, 0 ≤ orc sid k
  ops : ∀ j ∈ inst.jobs, ∀ o ∈ j.ops, ∀ t, o.dur = .det t → 0 ≤ t
  setup : ∀ m ∈ inst.machines, ∀ e ∈ m.setup, ∀ t, e.2 = .det t → 0 ≤ t
  travel : ∀ e ∈ inst.travel, ∀ t, e.2 = .det t → 0 ≤ t
  mout : ∀ m ∈ inst.machines, ∀ o ∈ m.outages, ∀ t, o.dur = .det t → 0 ≤ t
  tout : ∀ m ∈ inst.transports, ∀ o ∈ m.outages, ∀ t, o.dur = .det t → 0 ≤ t

theorem TimeCfg.cur_nonneg {orc : Oracle} (h : ∀ sid k, 0 ≤ orc sid k) (r : Rng) (c : TimeCfg)
    (hd : ∀ t, c = .det t → 0 ≤ t) : 0 ≤ c.cur orc r := by
  cases c with
  | det t => exact hd t rfl
  | stoch sid => exact h _ _

theorem TimeCfg.updRead_nonneg {orc : Oracle} (h : ∀ sid k, 0 ≤ orc sid k) (r : Rng) (c : TimeCfg)
    (hd : ∀ t, c = .det t → 0 ≤ t) : 0 ≤ (c.updRead orc r).1 := by
  cases c with
  | det t => exact hd t rfl
  | stoch sid => exact h _ _

theorem TimeCfg.readUpd_nonneg {orc : Oracle} (h : ∀ sid k, 0 ≤ orc sid k) (r : Rng) (c : TimeCfg)
    (hd : ∀ t, c = .det t → 0 ≤ t) : 0 ≤ (c.readUpd orc r).1 := by
  cases c with
  | det t => exact hd t rfl
  | stoch sid => exact h _ _

end JSL
