import JSL.Inv.ClassicRoom

/-!
# Totality of the timed machine transitions and of two time functions

For a busy machine that holds job `x` the three timed transitions SETUP → WORKING,
WORKING → OUTAGE and OUTAGE → IDLE pass validation and are applied without an exception
(the last two in a classic instance: no outage configured, post-buffers never full).
`force_jump_to_event` and `lastDoneEnd` never raise under the schedule invariant.
-/

namespace JSL

variable {orc : Oracle} {inst : Instance}

/-! ## what a busy machine holds -/

/-- the job held by a busy machine, found by its id, with its running record, which is also the
first not-done record and is routed to the machine -/
theorem busy_running (w : WF inst) {s : State} (hI : StructInv inst s) (hS : SchedInv s)
    {m : MachineState} (hm : m ∈ s.machines) (hb : m.st ≠ .idle) {x : Nat} (hx : m.buffer.store = [x]) :
    ∃ j ∈ s.jobs, j.id = x ∧ getJob s.jobs x = .ok j ∧ ∃ op, j.processing? = some op ∧
      j.nextNotDone = .ok op ∧ op.machine = m.id ∧ op ∈ j.ops ∧ op.st = .processing := by
  obtain ⟨j, hj, hst, op, hp, hmach, _, _⟩ := hS.busyHolds m hm hb
  have hid : j.id = x := by rw [hx] at hst; simpa using hst.symm
  have hg := getJob_of_mem (hI.shape.jobsNodup w) hj
  rw [hid] at hg
  have hnn := nextNotDone_of_processing (hS.ops j hj) hp
  have hnn' : j.nextNotDone = .ok op := by simp [JobState.nextNotDone, hnn]
  obtain ⟨_, _, _, _, hpst⟩ := processing?_split' hp
  exact ⟨j, hj, hid, hg, op, hp, hnn', hmach, (find?_mem_ops hp).1, hpst⟩

/-! ## SETUP → WORKING -/

/-- SETUP → WORKING -/
theorem setupToWorking_total (w : WF inst) {s : State} (hI : StructInv inst s) (hS : SchedInv s)
    {m : MachineState} (hm : m ∈ s.machines) (hst : m.st = .setup) {x : Nat} (hx : m.buffer.store = [x]) (r : Rng) :
    transitionValid s ⟨.m m.id, .m .working, some x⟩ = .ok true ∧
    ∃ s' r', applyTransition orc inst s r ⟨.m m.id, .m .working, some x⟩ = .ok (s', r') := by
  have hs := hI.shape
  have hgm := getMachine_of_mem (hs.machNodup w) hm
  obtain ⟨j, hj, hid, hgj, op, _, hnn, hmach, hop, _⟩ := busy_running w hI hS hm (by rw [hst]; simp) hx
  obtain ⟨oc, hoc, _, _⟩ := getOpCfg_of_mem w hs hj hop
  constructor
  · simp [transitionValid, hgm, machineTransitionValid, machineAllowed, machineValid, hst, machineJobCheck, hgj,
      hnn, hmach]
  · have hcont : m.buffer.store.contains j.id = true := by rw [hx, hid]; simp
    simp only [applyTransition, hgm, except_bind_ok, handleMachineTransition, hst, machineHandlerOf, machineHandler,
      except_pure, handleMachineSetupToWorking, hgj, hcont, Bool.not_true, Bool.false_eq_true, if_false,
      beginNextJobOnMachine, hnn, hoc]
    exact ⟨_, _, rfl⟩

/-! ## WORKING → OUTAGE -/

/-- in a classic instance the machine set to OUTAGE is due immediately: `occupiedFor [] = 0` -/
theorem newOutageStates_nil (now : Int) (comp : List OutageState) (r : Rng) :
    newOutageStates orc now comp [] r = .ok ([], r) := rfl

theorem occupiedFor_nil : occupiedFor [] = 0 := rfl

/-- WORKING → OUTAGE (no outage configured: `hC.noOutM`) -/
theorem workingToOutage_total (w : WF inst) (hC : Classic inst) {s : State} (hI : StructInv inst s) (hS : SchedInv s)
    {m : MachineState} (hm : m ∈ s.machines) (hst : m.st = .working) {x : Nat} (hx : m.buffer.store = [x]) (r : Rng) :
    transitionValid s ⟨.m m.id, .m .outage, some x⟩ = .ok true ∧
    ∃ s' r', applyTransition orc inst s r ⟨.m m.id, .m .outage, some x⟩ = .ok (s', r') := by
  have hs := hI.shape
  have hgm := getMachine_of_mem (hs.machNodup w) hm
  obtain ⟨j, hj, hid, hgj, op, hp, _, _, _, _⟩ := busy_running w hI hS hm (by rw [hst]; simp) hx
  obtain ⟨mc, hmc, hmcm, _⟩ := getMachineCfg_of_mem w hs hm
  have hout := hC.noOutM mc hmcm
  constructor
  · simp [transitionValid, hgm, machineTransitionValid, machineAllowed, machineValid, hst]
  · simp only [applyTransition, hgm, except_bind_ok, handleMachineTransition, hst, machineHandlerOf, machineHandler,
      except_pure, handleMachineWorkingToOutage, hmc, hout, newOutageStates_nil, getJobOpt, hgj,
      beginMachineOutage, hp]
    exact ⟨_, _, rfl⟩

/-- the effect of WORKING → OUTAGE in a classic instance: no sample is drawn, no outage record is
written, the machine and the running record are due *now* -/
theorem workingToOutage_classic (hC : Classic inst) {s s' : State} {r r' : Rng} {tr : Transition} {m : MachineState}
    (h : handleMachineWorkingToOutage orc inst s r tr m = .ok (s', r')) :
    r' = r ∧ ∃ (j : JobState) (op : OpState), j ∈ s.jobs ∧ tr.job = some j.id ∧ j.processing? = some op ∧
      s' = (s.replaceMachine (m.toOutage [] s.time)).replaceJob (j.replaceOp { op with stop := some s.time }) := by
  obtain ⟨mc, outs, j, op, hmc, _, hno, hj, htj, hp, rfl⟩ := workingToOutage_spec h
  rw [hC.noOutM mc hmc, newOutageStates_nil] at hno
  simp only [Except.ok.injEq, Prod.mk.injEq] at hno
  obtain ⟨rfl, rfl⟩ := hno
  exact ⟨rfl, j, op, hj, htj, hp, by simp [occupiedFor_nil]⟩

/-! ## OUTAGE → IDLE -/

/-- OUTAGE → IDLE (the post-buffer has room: `hC.roomPost` + `store_room`) -/
theorem outageToIdle_total (w : WF inst) (hC : Classic inst) {s : State} (hI : StructInv inst s) (hS : SchedInv s)
    {m : MachineState} (hm : m ∈ s.machines) (hst : m.st = .outage) {x : Nat} (hx : m.buffer.store = [x]) (r : Rng) :
    transitionValid s ⟨.m m.id, .m .idle, some x⟩ = .ok true ∧
    ∃ s' r', applyTransition orc inst s r ⟨.m m.id, .m .idle, some x⟩ = .ok (s', r') := by
  have hs := hI.shape
  have hgm := getMachine_of_mem (hs.machNodup w) hm
  obtain ⟨j, hj, hid, hgj, op, hp, _, _, _, _⟩ := busy_running w hI hS hm (by rw [hst]; simp) hx
  obtain ⟨mc, hmc, hmcm, hmcid⟩ := getMachineCfg_of_mem w hs hm
  constructor
  · simp [transitionValid, hgm, machineTransitionValid, machineAllowed, machineValid, hst]
  · have hin : j.id ∈ m.buffer.store := by rw [hx, hid]; simp
    obtain ⟨buf', hbuf⟩ := removeFromBuffer_of_mem (b := m.buffer) (x := j.id) hin
    -- the post-buffer does not hold `x`, so it has room
    have hnot : x ∉ m.post.store := by
      intro hpost
      have h1 : x ∈ storeAt s m.buffer.id := by
        rw [storeAt_of_mem (hs.bufNodup w) (mem_allBufs_of_machine hm).2.1, hx]; simp
      have h2 : x ∈ storeAt s m.post.id := by
        rw [storeAt_of_mem (hs.bufNodup w) (mem_allBufs_of_machine hm).2.2]; exact hpost
      exact (internal_ne_pre_post hs w hm hm).2 (unique_store hI.cons (hs.jobsNodup w) h1 h2)
    have hroom : (m.post.store.length : Int) < mc.post.cap := by
      have h1 := store_room w hI (mem_allBufs_of_machine hm).2.2 ⟨j, hj, hid⟩ hnot
      have h2 := hC.roomPost mc hmcm
      omega
    obtain ⟨post', hpost⟩ := putInBuffer_of_room
      (j.replaceOp { op with stop := some s.time, st := .done }) hroom
    simp only [applyTransition, hgm, except_bind_ok, handleMachineTransition, hst, machineHandlerOf, machineHandler,
      except_pure, handleMachineOutageToIdle, completeActiveOperation, hx, hgj, hp, replaceOp_id, hbuf, hmc, hpost]
    exact ⟨_, _, rfl⟩

/-! ## the time functions -/

/-- `mapM` returns when every element does -/
theorem mapM_ok_of_forall {α β} {f : α → Except Err β} : ∀ {l : List α}, (∀ x ∈ l, ∃ y, f x = .ok y) →
    ∃ r, l.mapM f = .ok r
  | [], _ => ⟨[], by simp [List.mapM_nil]⟩
  | a :: as, h => by
    obtain ⟨b, hb⟩ := h a (by simp)
    obtain ⟨bs, hbs⟩ := mapM_ok_of_forall (l := as) (fun x hx => h x (by simp [hx]))
    exact ⟨b :: bs, by rw [List.mapM_cons, hb, except_bind_ok, hbs, except_bind_ok, except_pure]⟩

/-- a bind returns when both parts do -/
theorem except_bind_total {ε α β} {x : Except ε α} {f : α → Except ε β} (hx : ∃ a, x = .ok a)
    (hf : ∀ a, ∃ b, f a = .ok b) : ∃ b, (x >>= f) = .ok b := by
  obtain ⟨a, rfl⟩ := hx
  exact hf a

/-- `force_jump_to_event` never raises when no busy AGV has `NoTime` as `occupied_till` -/
theorem forceJump_total_of_occ {s : State} (hS : SchedInv s)
    (hN : ∀ t ∈ s.transports, t.st ≠ .idle → t.occ ≠ .none) : ∃ t, forceJump s = .ok t := by
  unfold forceJump
  refine except_bind_total (mapM_ok_of_forall ?_) (fun pe => except_bind_total (mapM_ok_of_forall ?_) (fun te => ?_))
  · intro o ho
    obtain ⟨ho, hst⟩ := List.mem_filter.mp ho
    obtain ⟨j, hj, hoj⟩ := List.mem_flatMap.mp ho
    obtain ⟨_, b, _, hb, _⟩ := (OpsOK_mem _ _ (hS.ops j hj) o hoj).2.1 (by simpa using hst)
    exact ⟨b, by simp [hb]⟩
  · intro t ht
    obtain ⟨ht, hc⟩ := List.mem_filter.mp ht
    simp only [Bool.and_eq_true, bne_iff_ne, ne_eq] at hc
    have hn := hN t ht hc.1
    cases hocc : t.occ with
    | none => exact absurd hocc hn
    | «at» e => exact ⟨e, by simp⟩
    | dep b j tr => rw [hocc] at hc; simp at hc
  · cases minList pe <;> cases minList te <;> exact ⟨_, rfl⟩

/-- `force_jump_to_event` never raises: processing records have an end, busy AGVs a fixed time -/
theorem forceJump_total {s : State} (hS : SchedInv s) (hN : ∀ t ∈ s.transports, t.st ≠ .idle → ∃ e, t.occ = .at e) :
    ∃ t, forceJump s = .ok t :=
  forceJump_total_of_occ hS (fun t ht hst => by obtain ⟨e, he⟩ := hN t ht hst; rw [he]; simp)

/-- `lastDoneEnd` never raises: done records have an end -/
theorem lastDoneEnd_total {s : State} (hS : SchedInv s) : ∃ e, lastDoneEnd s = .ok e := by
  unfold lastDoneEnd
  refine except_bind_total (mapM_ok_of_forall ?_) (fun de => ?_)
  · intro o ho
    obtain ⟨ho, hst⟩ := List.mem_filter.mp ho
    obtain ⟨j, hj, hoj⟩ := List.mem_flatMap.mp ho
    obtain ⟨_, b, _, hb, _⟩ := (OpsOK_mem _ _ (hS.ops j hj) o hoj).1 (by simpa using hst)
    exact ⟨b, by simp [hb]⟩
  · cases de <;> exact ⟨_, rfl⟩

end JSL
