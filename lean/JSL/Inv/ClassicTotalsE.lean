import JSL.Inv.ClassicInvE
import JSL.Inv.ClassicAgvTotalA
import JSL.Inv.ClassicAgvTotalB
import JSL.Inv.ClassicMachTotal
import JSL.Inv.ClassicQueries

/-!
# Classic instances with early dispatch: totality of the AGV transitions for a running job

The counterparts of `getWaitingTime_classic`, `dispatch_total`, `dispatch_result`,
`pickupToWaiting_total`, `pickupToWaiting_result` (job at a pickup place) for a job that lies in the
internal buffer of a machine (`internalIds`), and the combined versions for `Pickable` jobs; the
re-wait WAITINGPICKUP → WAITINGPICKUP.
-/

namespace JSL

variable {orc : Oracle} {inst : Instance}

/-! ## the internal buffers -/

/-- an internal buffer id belongs to a configured machine -/
theorem internal_cfg {l : Nat} (hl : l ∈ internalIds inst) : ∃ mc ∈ inst.machines, mc.buf.id = l := by
  unfold internalIds at hl
  exact List.mem_map.mp hl

/-- an internal buffer is no pickup place -/
theorem internal_not_pickup (w : WF inst) {l : Nat} (hl : l ∈ internalIds inst) : l ∉ pickupPlaces inst := by
  obtain ⟨mc, hmc, rfl⟩ := internal_cfg hl
  have hnd := w.bufNodup
  unfold allBufCfgs at hnd
  simp only [List.map_append, List.map_flatMap] at hnd
  have h12 := (List.nodup_append.mp hnd).1
  have hd := (List.nodup_append.mp h12).2.2
  have h2 := (List.nodup_append.mp h12).2.1
  intro hp
  unfold pickupPlaces at hp
  rcases List.mem_append.mp hp with h | h
  · obtain ⟨bc, hbc, e⟩ := List.mem_map.mp h
    have hb := (List.mem_filter.mp hbc).1
    exact hd bc.id (List.mem_map.mpr ⟨bc, hb, rfl⟩) mc.buf.id
      (List.mem_flatMap.mpr ⟨mc, hmc, by simp⟩) e
  · obtain ⟨mc', hmc', e⟩ := List.mem_map.mp h
    by_cases hne : mc = mc'
    · subst hne
      obtain ⟨l1, l2, hl⟩ := List.append_of_mem hmc
      rw [hl] at h2
      simp only [List.flatMap_append, List.flatMap_cons, List.map_cons, List.map_nil] at h2
      have h3 := (List.nodup_append.mp h2).2.1
      have h4 := (List.nodup_append.mp h3).1
      simp at h4
      exact h4.2 e.symm
    · exact flatMap_nodup_disjoint (fun m : MachineCfg => List.map (·.id) [m.pre, m.buf, m.post]) inst.machines h2
        mc hmc mc' hmc' hne mc.buf.id (by simp) mc'.post.id (by simp) e.symm

/-- the machine state that owns an internal buffer -/
theorem internal_machine (w : WF inst) {s : State} (hs : Shape inst s) {l : Nat} (hl : l ∈ internalIds inst) :
    ∃ m ∈ s.machines, m.buffer.id = l := by
  obtain ⟨mc, hmc, rfl⟩ := internal_cfg hl
  obtain ⟨m, hm, hk⟩ := mem_of_map_eq hs.machines.symm hmc
  simp only [mKey, mcKey, Prod.mk.injEq] at hk
  exact ⟨m, hm, hk.2.2.1.symm⟩

/-- the configuration of an internal buffer: looked up, owned by its machine, one of `pickupBufs` -/
theorem getBufCfg_internal (w : WF inst) (hC : Classic inst) {s : State} (hs : Shape inst s) {l : Nat}
    (hl : l ∈ internalIds inst) :
    ∃ bc mc m, getBufCfg (allBufCfgs inst) l = .ok bc ∧ bc ∈ allBufCfgs inst ∧ bc.id = l ∧ bc ∈ pickupBufs inst ∧
      mc ∈ inst.machines ∧ bc = mc.buf ∧ bc.parent = some (.m mc.id) ∧
      m ∈ s.machines ∧ m.id = mc.id ∧ m.buffer.id = l ∧ getMachine s.machines mc.id = .ok m := by
  obtain ⟨mc, hmc, rfl⟩ := internal_cfg hl
  have hbc := (mem_allBufCfgs_of_machine hmc).2.1
  have hget := findE_of_mem (key := fun (y : BufCfg) => y.id) w.bufNodup hbc .invalidValue
  obtain ⟨m, hm, hk⟩ := mem_of_map_eq hs.machines.symm hmc
  simp only [mKey, mcKey, Prod.mk.injEq] at hk
  refine ⟨mc.buf, mc, m, hget, hbc, rfl, ?_, hmc, rfl, hC.parentBuf mc hmc, hm, hk.1.symm, hk.2.2.1.symm, ?_⟩
  · unfold pickupBufs
    exact List.mem_append.mpr (Or.inr (List.mem_flatMap.mpr ⟨mc, hmc, by simp⟩))
  · rw [hk.1]
    exact getMachine_of_mem (hs.machNodup w) hm

/-- a job in an internal buffer is the job its (busy) machine holds -/
theorem running_facts (w : WF inst) {s : State} (hI : StructInv inst s) (hS : SchedInv s)
    {j : JobState} (hj : j ∈ s.jobs) {m : MachineState} (hm : m ∈ s.machines) (hloc : m.buffer.id = j.loc) :
    m.st ≠ .idle ∧ m.buffer.store = [j.id] ∧ j.id ∉ m.post.store ∧
      ∃ op e, j.processing? = some op ∧ op.stop = some e ∧ m.occ = some e ∧ op.machine = m.id := by
  have hs := hI.shape
  have hbuf := (mem_allBufs_of_machine hm).2.1
  have hin : j.id ∈ m.buffer.store := by
    have h1 := hI.cons.located (j.id, j.loc) (List.mem_map.mpr ⟨j, hj, rfl⟩)
    simp only at h1
    rw [← hloc, storeAt_of_mem (hs.bufNodup w) hbuf] at h1
    exact h1
  have hbusy : m.st ≠ .idle := by
    intro e
    rw [hS.idleEmpty m hm e] at hin
    cases hin
  obtain ⟨j', hj', hst, op, hp, hmach, hstop, hocc⟩ := hS.busyHolds m hm hbusy
  have hid : j'.id = j.id := by
    have h := hin
    rw [hst] at h
    exact (List.mem_singleton.mp h).symm
  have : j' = j := eq_of_mem_of_key_eq (key := fun (y : JobState) => y.id) (hs.jobsNodup w) hj' hj hid
  subst this
  have hnot : j'.id ∉ m.post.store := by
    intro hpost
    have h1 : j'.id ∈ storeAt s m.buffer.id := by
      rw [storeAt_of_mem (hs.bufNodup w) hbuf]; exact hin
    have h2 : j'.id ∈ storeAt s m.post.id := by
      rw [storeAt_of_mem (hs.bufNodup w) (mem_allBufs_of_machine hm).2.2]; exact hpost
    exact (internal_ne_pre_post hs w hm hm).2 (unique_store hI.cons (hs.jobsNodup w) h1 h2)
  cases hocc' : m.occ with
  | none => exact absurd hocc' hocc
  | some e => exact ⟨hbusy, hst, hnot, op, e, hp, by rw [hstop, hocc'], rfl, hmach⟩

/-! ## the waiting time -/

/-- the waiting time for a running job is the end of its processing record -/
theorem getWaitingTime_running (w : WF inst) (hC : Classic inst) {s : State} (hI : StructInv inst s) (hS : SchedInv s)
    {j : JobState} (hj : j ∈ s.jobs) (hloc : j.loc ∈ internalIds inst) (c : Comp) (ns : NewSt) :
    ∃ op e, j.processing? = some op ∧ op.stop = some e ∧ getWaitingTime inst s ⟨c, ns, some j.id⟩ = .ok (.at e) := by
  have hs := hI.shape
  obtain ⟨bc, mc, m, hget, _, _, _, _, _, hpar, hm, _, hmb, hgm⟩ := getBufCfg_internal w hC hs hloc
  have hgj : getJobOpt s.jobs (some j.id) = .ok j := getJob_of_mem (hs.jobsNodup w) hj
  obtain ⟨_, _, hnot, op, e, hp, hstop, _, _⟩ := running_facts w hI hS hj hm hmb
  have hcont : m.post.store.contains j.id = false := by
    cases h : m.post.store.contains j.id with
    | false => rfl
    | true => exact absurd (List.contains_iff_mem.mp h) hnot
  refine ⟨op, e, hp, hstop, ?_⟩
  simp only [getWaitingTime, hgj, except_bind_ok, hget, hpar, hgm, hcont, Bool.false_eq_true, if_false,
    waitProcessing, hp, hstop, except_pure]

/-! ## IDLE → WORKING -/

/-- the configuration of the buffer of a `Pickable` job: looked up, one of `pickupBufs`, with a pickup
source that is a place of the shop -/
theorem getBufCfg_pickable (w : WF inst) (hC : Classic inst) {s : State} (hs : Shape inst s) {j : JobState}
    (hloc : Pickable inst j) :
    ∃ bc src, getBufCfg (allBufCfgs inst) j.loc = .ok bc ∧ bc.id = j.loc ∧ bc ∈ pickupBufs inst ∧
      pickupSource bc j.loc = .ok src ∧ src ∈ locsOf inst := by
  rcases hloc with hloc | hloc
  · obtain ⟨bc, hbc, hmem, hid, hpick, _⟩ := getBufCfg_pickupPlace w hC hloc
    obtain ⟨src, hsrc, hsl⟩ := pickupSource_locs w hC hmem (by rw [hid]; exact hloc)
    rw [hid] at hsrc
    exact ⟨bc, src, hbc, hid, hpick, hsrc, hsl⟩
  · obtain ⟨bc, mc, m, hget, _, hid, hpick, hmc, _, hpar, _⟩ := getBufCfg_internal w hC hs hloc
    refine ⟨bc, .m mc.id, hget, hid, hpick, by simp only [pickupSource, hpar, except_pure], ?_⟩
    unfold locsOf
    exact List.mem_append.mpr (Or.inl (List.mem_map.mpr ⟨mc, hmc, rfl⟩))

/-- IDLE → WORKING (dispatch) of an idle, parked AGV to a job at a pickup place or running in a machine -/
theorem dispatch_total_early (w : WF inst) (hC : Classic inst) {s : State} (hI : StructInv inst s) (hS : SchedInv s)
    (hR : Ready inst s) {t : TransportState} (ht : t ∈ s.transports) (hst : t.st = .idle)
    {j : JobState} (hj : j ∈ s.jobs) (hloc : Pickable inst j) (r : Rng) :
    transitionValid s ⟨.t t.id, .t .working, some j.id⟩ = .ok true ∧
    ∃ s' r', applyTransition orc inst s r ⟨.t t.id, .t .working, some j.id⟩ = .ok (s', r') := by
  have hs := hI.shape
  refine ⟨by rw [transitionValid_agv w hs ht, hst]; rfl, ?_⟩
  have hgt := getTransport_of_mem (hs.trNodup w) ht
  obtain ⟨tc, hgtc, _, hty⟩ := getTransportCfg_classic w hC hs ht
  obtain ⟨l, hl, hreach⟩ := hR.parked t ht (Or.inl hst)
  obtain ⟨d, hd⟩ := dropLoc_total hC.tables j
  obtain ⟨bc, src, hbc, hid, hpick, hsrc, _⟩ := getBufCfg_pickable w hC hs hloc
  obtain ⟨c, hc⟩ := Option.isSome_iff_exists.mp (hreach bc hpick src (by rw [hid]; exact hsrc))
  simp only [applyTransition, hgt, except_bind_ok, handleTransportTransition, hgtc, hty,
    Bool.not_true, Bool.false_eq_true, if_false, hst, agvHandlerOf, agvHandler, except_pure,
    handleAgvIdleToWorking, hl, getJob_of_mem (hs.jobsNodup w) hj, hd, hbc, hsrc, travelNoUpdate, hc]
  exact ⟨_, _, rfl⟩

/-- closed form, with the AGV parked at a place of the shop: due at once -/
theorem dispatch_result_early (w : WF inst) (hC : Classic inst) {s : State} (hI : StructInv inst s)
    {t : TransportState} (ht : t ∈ s.transports) (hst : t.st = .idle) {l : Loc} (hl : t.loc = .at l)
    (hlo : l ∈ locsOf inst) {j : JobState} (hj : j ∈ s.jobs) (hloc : Pickable inst j) (r : Rng) :
    ∃ d, dropLoc inst j JobState.nextIdleE = .ok d ∧
      applyTransition orc inst s r ⟨.t t.id, .t .working, some j.id⟩ =
        .ok (s.replaceTransport { t with loc := .route l j.loc d, st := .pickup, occ := .at s.time,
                                         job := some j.id }, r) := by
  have hs := hI.shape
  have hgt := getTransport_of_mem (hs.trNodup w) ht
  obtain ⟨tc, hgtc, _, hty⟩ := getTransportCfg_classic w hC hs ht
  obtain ⟨d, hd⟩ := dropLoc_total hC.tables j
  obtain ⟨bc, src, hbc, hid, _, hsrc, hsl⟩ := getBufCfg_pickable w hC hs hloc
  have htr := travelNoUpdate_classic (orc := orc) hC hlo hsl r
  refine ⟨d, hd, ?_⟩
  simp only [applyTransition, hgt, except_bind_ok, handleTransportTransition, hgtc, hty,
    Bool.not_true, Bool.false_eq_true, if_false, hst, agvHandlerOf, agvHandler, except_pure,
    handleAgvIdleToWorking, hl, getJob_of_mem (hs.jobsNodup w) hj, hd, hbc, hsrc, htr, hid, Int.add_zero]

/-! ## PICKUP → WAITINGPICKUP and WAITINGPICKUP → WAITINGPICKUP -/

/-- the waiting time for a `Pickable` job: "now" at a pickup place, the end of the processing record in a
machine -/
theorem getWaitingTime_pickable (w : WF inst) (hC : Classic inst) {s : State} (hI : StructInv inst s) (hS : SchedInv s)
    {j : JobState} (hj : j ∈ s.jobs) (hloc : Pickable inst j) (c : Comp) (ns : NewSt) :
    ∃ e, getWaitingTime inst s ⟨c, ns, some j.id⟩ = .ok (.at e) ∧
      (j.loc ∈ pickupPlaces inst → e = s.time) ∧
      (j.loc ∈ internalIds inst → ∃ op, j.processing? = some op ∧ op.stop = some e) := by
  rcases hloc with hloc | hloc
  · exact ⟨s.time, getWaitingTime_classic w hC hI hS hj hloc c ns, fun _ => rfl,
      fun h => absurd hloc (internal_not_pickup w h)⟩
  · obtain ⟨op, e, hp, hstop, hw⟩ := getWaitingTime_running w hC hI hS hj hloc c ns
    exact ⟨e, hw, fun h => absurd h (internal_not_pickup w hloc), fun _ => ⟨op, hp, hstop⟩⟩

/-- closed form of PICKUP → WAITINGPICKUP and of the re-wait: the AGV is WAITINGPICKUP with the waiting time
`getWaitingTime` returns -/
theorem wait_result_early (w : WF inst) (hC : Classic inst) {s : State} (hI : StructInv inst s) (hS : SchedInv s)
    {t : TransportState} (ht : t ∈ s.transports) (hst : t.st = .pickup ∨ t.st = .waitingpickup)
    {j : JobState} (hj : j ∈ s.jobs) (hloc : Pickable inst j) (r : Rng) :
    ∃ c, getWaitingTime inst s ⟨.t t.id, .t .waitingpickup, some j.id⟩ = .ok (.at c) ∧
      (j.loc ∈ pickupPlaces inst → c = s.time) ∧
      (j.loc ∈ internalIds inst → ∃ op, j.processing? = some op ∧ op.stop = some c) ∧
      applyTransition orc inst s r ⟨.t t.id, .t .waitingpickup, some j.id⟩ =
        .ok (s.replaceTransport { t with st := .waitingpickup, occ := .at c }, r) := by
  have hs := hI.shape
  have hgt := getTransport_of_mem (hs.trNodup w) ht
  obtain ⟨tc, hgtc, _, hty⟩ := getTransportCfg_classic w hC hs ht
  obtain ⟨c, hw, h1, h2⟩ := getWaitingTime_pickable w hC hI hS hj hloc (.t t.id) (.t .waitingpickup)
  refine ⟨c, hw, h1, h2, ?_⟩
  rcases hst with hst | hst
  · simp only [applyTransition, hgt, except_bind_ok, handleTransportTransition, hgtc, hty,
      Bool.not_true, Bool.false_eq_true, if_false, hst, agvHandlerOf, agvHandler, except_pure,
      handleAgvPickupToWaiting, Option.isNone_some, hw]
  · simp only [applyTransition, hgt, except_bind_ok, handleTransportTransition, hgtc, hty,
      Bool.not_true, Bool.false_eq_true, if_false, hst, agvHandlerOf, agvHandler, except_pure,
      handleAgvWaitingToWaiting, hw]

/-- PICKUP → WAITINGPICKUP -/
theorem pickupToWaiting_total_early (w : WF inst) (hC : Classic inst) {s : State} (hI : StructInv inst s) (hS : SchedInv s)
    {t : TransportState} (ht : t ∈ s.transports) (hst : t.st = .pickup)
    {j : JobState} (hj : j ∈ s.jobs) (hloc : Pickable inst j) (r : Rng) :
    transitionValid s ⟨.t t.id, .t .waitingpickup, some j.id⟩ = .ok true ∧
    ∃ s' r', applyTransition orc inst s r ⟨.t t.id, .t .waitingpickup, some j.id⟩ = .ok (s', r') := by
  refine ⟨by rw [transitionValid_agv w hI.shape ht, hst]; rfl, ?_⟩
  obtain ⟨c, _, _, _, h⟩ := wait_result_early (orc := orc) w hC hI hS ht (Or.inl hst) hj hloc r
  exact ⟨_, _, h⟩

/-- WAITINGPICKUP → WAITINGPICKUP -/
theorem rewait_total (w : WF inst) (hC : Classic inst) {s : State} (hI : StructInv inst s) (hS : SchedInv s)
    {t : TransportState} (ht : t ∈ s.transports) (hst : t.st = .waitingpickup)
    {j : JobState} (hj : j ∈ s.jobs) (hloc : Pickable inst j) (r : Rng) :
    transitionValid s ⟨.t t.id, .t .waitingpickup, some j.id⟩ = .ok true ∧
    ∃ s' r', applyTransition orc inst s r ⟨.t t.id, .t .waitingpickup, some j.id⟩ = .ok (s', r') := by
  refine ⟨by rw [transitionValid_agv w hI.shape ht, hst]; rfl, ?_⟩
  obtain ⟨c, _, _, _, h⟩ := wait_result_early (orc := orc) w hC hI hS ht (Or.inr hst) hj hloc r
  exact ⟨_, _, h⟩

end JSL
