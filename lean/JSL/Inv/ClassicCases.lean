import JSL.Inv.ClassicRoom

/-!
# Which handler a successful transition ran

`applyTransition` looks the component up, picks the handler from the generated dictionaries and
runs it.  These two lemmas give, for a successful application, the component, its state before
and the handler call – so that the closed forms of `Spec.lean` / `SpecAgv.lean` apply.
-/

namespace JSL

variable {orc : Oracle} {inst : Instance}

inductive AgvStep (orc : Oracle) (inst : Instance) (s s' : State) (r r' : Rng) (tr : Transition)
    (t0 : TransportState) : Prop
  | dispatch : t0.st = .idle → tr.new = .t .working →
      handleAgvIdleToWorking orc inst s r tr t0 = .ok (s', r') → AgvStep orc inst s s' r r' tr t0
  | wait1 : t0.st = .pickup → tr.new = .t .waitingpickup →
      handleAgvPickupToWaiting inst s r tr t0 = .ok (s', r') → AgvStep orc inst s s' r r' tr t0
  | wait2 : t0.st = .waitingpickup → tr.new = .t .waitingpickup →
      handleAgvWaitingToWaiting inst s r tr t0 = .ok (s', r') → AgvStep orc inst s s' r r' tr t0
  | pick : (t0.st = .pickup ∨ t0.st = .waitingpickup) → tr.new = .t .transit →
      handleAgvPickupToTransit orc inst s r tr t0 = .ok (s', r') → AgvStep orc inst s s' r r' tr t0
  | deliver : (t0.st = .transit ∨ t0.st = .working) → tr.new = .t .outage →
      handleAgvTransitToOutage orc inst s r tr t0 = .ok (s', r') → AgvStep orc inst s s' r r' tr t0
  | release : t0.st = .outage → tr.new = .t .idle →
      handleAgvOutageToIdle s r t0 = .ok (s', r') → AgvStep orc inst s s' r r' tr t0

theorem agv_step_cases {s s' : State} {r r' : Rng} {tr : Transition} {tid : Nat}
    (hc : tr.comp = .t tid) (h : applyTransition orc inst s r tr = .ok (s', r')) :
    ∃ t0 ∈ s.transports, t0.id = tid ∧ AgvStep orc inst s s' r r' tr t0 := by
  unfold applyTransition at h
  simp only [hc] at h
  obtain ⟨t0, ht0, h⟩ := except_bind_eq_ok h
  unfold handleTransportTransition at h
  obtain ⟨t, ht, h⟩ := except_bind_eq_ok h
  rw [ht0] at ht; simp at ht; subst ht
  have hmem := getTransport_ok ht0
  obtain ⟨tc, _, h⟩ := except_bind_eq_ok h
  split at h
  · simp at h
  · obtain ⟨hd, hh, h⟩ := except_bind_eq_ok h
    unfold agvHandlerOf at hh
    cases hn : tr.new with
    | m ns => simp [hn] at hh
    | t ns =>
      simp only [hn] at hh
      cases hah : agvHandler t0.st ns with
      | none => simp [hah] at hh
      | some hd' =>
        simp [hah] at hh; subst hh
        refine ⟨t0, hmem.1, hmem.2, ?_⟩
        cases hd' with
        | idleToWorking =>
          have hst := agvHandler_idleToWorking hah
          exact .dispatch hst.1 (by rw [hn, hst.2]) h
        | pickupToWaitingpickup =>
          have hst := agvHandler_pickupToWaiting hah
          exact .wait1 hst.2 (by rw [hn, hst.1]) h
        | waitingPickupToWaitingPickup =>
          have hst := agvHandler_waitingToWaiting hah
          exact .wait2 hst.2 (by rw [hn, hst.1]) h
        | outageToIdle =>
          have hst := agvHandler_outageToIdle hah
          exact .release hst.1 (by rw [hn, hst.2]) h
        | pickupToTransit =>
          have hst := agvHandler_pickupToTransit hah
          exact .pick hst.2 (by rw [hn, hst.1]) h
        | transitToOutage =>
          have hst := agvHandler_transitToOutage hah
          exact .deliver hst.2 (by rw [hn, hst.1]) h

inductive MachStep (orc : Oracle) (inst : Instance) (s s' : State) (r r' : Rng) (tr : Transition)
    (m0 : MachineState) : Prop
  | start : m0.st = .idle → tr.new = .m .setup →
      handleMachineIdleToSetup orc inst s r tr m0 = .ok (s', r') → MachStep orc inst s s' r r' tr m0
  | work : m0.st = .setup → tr.new = .m .working →
      handleMachineSetupToWorking orc inst s r tr m0 = .ok (s', r') → MachStep orc inst s s' r r' tr m0
  | out : m0.st = .working → tr.new = .m .outage →
      handleMachineWorkingToOutage orc inst s r tr m0 = .ok (s', r') → MachStep orc inst s s' r r' tr m0
  | idle : m0.st = .outage → tr.new = .m .idle →
      handleMachineOutageToIdle inst s r m0 = .ok (s', r') → MachStep orc inst s s' r r' tr m0

theorem mach_step_cases {s s' : State} {r r' : Rng} {tr : Transition} {mid : Nat}
    (hc : tr.comp = .m mid) (h : applyTransition orc inst s r tr = .ok (s', r')) :
    ∃ m0 ∈ s.machines, m0.id = mid ∧ MachStep orc inst s s' r r' tr m0 := by
  unfold applyTransition at h
  simp only [hc] at h
  obtain ⟨m0, hm0, h⟩ := except_bind_eq_ok h
  unfold handleMachineTransition at h
  obtain ⟨m, hm, h⟩ := except_bind_eq_ok h
  rw [hm0] at hm; simp at hm; subst hm
  have hmem := getMachine_ok hm0
  obtain ⟨hd, hh, h⟩ := except_bind_eq_ok h
  unfold machineHandlerOf at hh
  cases hn : tr.new with
  | t ns => simp [hn] at hh
  | m ns =>
    simp only [hn] at hh
    cases hah : machineHandler m0.st ns with
    | none => simp [hah] at hh
    | some hd' =>
      simp [hah] at hh; subst hh
      refine ⟨m0, hmem.1, hmem.2, ?_⟩
      cases hd' with
      | idleToSetup =>
        have hst := machineHandler_idleToSetup hah
        exact .start hst.1 (by rw [hn, hst.2]) h
      | setupToWorking =>
        have hst := machineHandler_setupToWorking hah
        exact .work hst.1 (by rw [hn, hst.2]) h
      | workingToOutage =>
        have hst := machineHandler_workingToOutage hah
        exact .out hst.1 (by rw [hn, hst.2]) h
      | outageToIdle =>
        have hst := machineHandler_outageToIdle hah
        exact .idle hst.1 (by rw [hn, hst.2]) h

/-- no transition addresses a buffer successfully -/
theorem apply_not_buffer {s s' : State} {r r' : Rng} {tr : Transition} {bid : Nat}
    (hc : tr.comp = .b bid) (h : applyTransition orc inst s r tr = .ok (s', r')) : False := by
  unfold applyTransition at h
  simp only [hc] at h
  obtain ⟨_, _, h⟩ := except_bind_eq_ok h
  simp at h

end JSL
