import JSL.Inv.ClassicFrame
import JSL.Inv.ClassicStep
import JSL.Inv.ClassicBatch
import JSL.Inv.ClassicQueries
import JSL.Inv.ClassicAgvTotalB

/-!
# The classic pass

`CPass`: the bundle (`AgvFull`, `Ready`, `CInv`) together with the duration invariant, as a `Pass`;
its batch guard adds `EnGS` (every transition of the batch is enabled) to the guards of the passes
it extends.  `cpass_total`: it meets the interface of the totality plumbing with the stage
measure and the property "in step with the target schedule `S`".
-/

namespace JSL

variable {orc : Oracle} {inst : Instance}

theorem admOffer_shaped {cfg : SMConfig} {s : State} {a : Action} (h : AdmOffer inst cfg s a) :
    ∀ tr ∈ a.transitions, OfferShaped tr := by
  rcases h with e | ⟨poss, hposs, tr, hp, e⟩
  · rw [e]; intro _ h; cases h
  · rw [e]; intro x hx; simp at hx; subst hx; exact offers_offerShaped hposs _ hp

def CPass (orc : Oracle) (inst : Instance) (cfg : SMConfig) (w : WF inst) (nn : NonNeg orc inst) (hC : Classic inst)
    (he : cfg.allowEarly = false) : Pass orc inst cfg where
  P := fun s => Bundle inst s ∧ DurInv inst s
  GS := fun s L => FullGS s L ∧ DueGS s L ∧ EnGS inst s L
  Adm := AdmOffer inst cfg
  tail := fun h => ⟨(FullPass orc inst cfg w).tail h.1, h.2.1.tail, h.2.2.tail⟩
  step := fun {s s' r r' tr R} hI hS hP hv hsafe hfresh hgs ha => by
    have h1 := (ReadyPass orc inst cfg w hC.tables).step hI hS ⟨hP.1.full, hP.1.ready⟩ hv hsafe hfresh hgs.1 ha
    have h2 := (DurPass orc inst cfg w nn).step hI hS hP.2 hv hsafe hfresh hgs.2.1 ha
    have h3 := cinv_step w hC hI hS hP.1 (hgs.2.2.en tr (by simp)) hv ha
    have h4 := enGS_step w hI hS hP.1.full hP.1.cinv hgs.2.2 ha
    exact ⟨⟨⟨h1.1.1, h1.1.2, h3⟩, h2.1⟩, h1.2, h2.2, h4⟩
  advance := fun {s t} hI hS hP hle hpend => by
    have h1 := (ReadyPass orc inst cfg w hC.tables).advance hI hS ⟨hP.1.full, hP.1.ready⟩ hle hpend
    exact ⟨⟨h1.1, h1.2, hP.1.cinv.time hle⟩, (DurPass orc inst cfg w nn).advance hI hS hP.2 hle hpend⟩
  timed := fun hI hS hP htt hposs htele =>
    ⟨(FullPass orc inst cfg w).timed hI hS hP.1.full htt hposs htele,
     (DurPass orc inst cfg w nn).timed hI hS hP.2 htt hposs htele, timed_enGS w hC he hI hS hP.1 htt hposs htele⟩
  timedOnly := fun hI hS hP htt =>
    ⟨(FullPass orc inst cfg w).timedOnly hI hS hP.1.full htt, (DurPass orc inst cfg w nn).timedOnly hI hS hP.2 htt,
     timedOnly_enGS w hC he hI hS hP.1 htt⟩
  action := fun hI hS hP hadm =>
    ⟨(FullPass orc inst cfg w).action hI hS hP.1.full hadm,
     (DurPass orc inst cfg w nn).action hI hS hP.2 (admOffer_shaped hadm), action_enGS w hC he hI hS hP.1 hadm⟩

theorem CInv.tame {s : State} (h : CInv inst s) : AgvTame inst s := ⟨h.noDep, h.noWorking, h.claimed⟩

/-- a job lying at a pickup place is not running -/
theorem pickup_not_running (w : WF inst) {s : State} (hI : StructInv inst s) (hS : SchedInv s) {j : JobState}
    (hj : j ∈ s.jobs) (hloc : j.loc ∈ pickupPlaces inst) : j.running = false := by
  cases hr : j.running with
  | false => rfl
  | true =>
    exfalso
    unfold JobState.running at hr
    obtain ⟨o, ho, hp⟩ := List.any_eq_true.mp hr
    have hp' : o.st = .processing := by simpa using hp
    obtain ⟨m, hm, _, _, hstore⟩ := hS.procOnBusy j hj o ho hp'
    -- the job is stored in the internal buffer of `m`, so it is located there
    have hb : m.buffer ∈ allBufStates s := (mem_allBufs_of_machine hm).2.1
    have hst : storeAt s m.buffer.id = m.buffer.store := storeAt_of_mem (hI.shape.bufNodup w) hb
    have hloc' := hI.cons.stored m.buffer.id j.id (by rw [hst, hstore]; simp)
    have h2 : (j.id, j.loc) ∈ locs s := List.mem_map.mpr ⟨j, hj, rfl⟩
    have he := unique_loc (hI.shape.jobsNodup w) hloc' h2
    -- an internal buffer is no pickup place
    rw [← he] at hloc
    unfold pickupPlaces at hloc
    rcases List.mem_append.mp hloc with h1 | h1
    · obtain ⟨b, hb', e⟩ := List.mem_map.mp h1
      have hb'' := (List.mem_filter.mp hb').1
      have : b.id ∈ s.buffers.map (·.id) := by rw [hI.shape.buffers]; exact List.mem_map.mpr ⟨b, hb'', rfl⟩
      obtain ⟨bs, hbs, e2⟩ := List.mem_map.mp this
      exact (ids_parts hI.shape w).1 bs hbs m hm |>.2.1 (by rw [e2, e])
    · rw [← hI.shape.postIds] at h1
      obtain ⟨m2, hm2, e⟩ := List.mem_map.mp h1
      exact (internal_ne_pre_post hI.shape w hm hm2).2 e.symm

end JSL
