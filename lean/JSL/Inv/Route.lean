import JSL.Inv.AgvPass

/-!
# Routes: where a claimed job is taken, and why a delivered job is finished
-/

namespace JSL

variable {orc : Oracle} {inst : Instance}

/-- what one AGV transition does, in enough detail for the route invariant -/
inductive AgvEffectR (inst : Instance) (s s' : State) (tr : Transition) (t0 t' : TransportState) : Prop
  | dispatch (j : JobState) (cur : Loc) (pick : Nat) (drop : Loc) : tr.new = .t .working → t0.st = .idle → t'.st = .pickup →
      t'.job = some j.id → t'.loc = .route cur pick drop → t'.buffer = t0.buffer → j ∈ s.jobs → tr.job = some j.id →
      dropOK inst j JobState.nextIdle? drop → s'.jobs = s.jobs → s'.machines = s.machines → AgvEffectR inst s s' tr t0 t'
  | keep : (t0.st = .pickup ∨ t0.st = .waitingpickup ∨ t0.st = .outage) → t'.st ≠ .transit → t'.job = t0.job →
      t'.loc = t0.loc → t'.buffer = t0.buffer → s'.jobs = s.jobs → s'.machines = s.machines → AgvEffectR inst s s' tr t0 t'
  | pickup (j : JobState) : tr.new = .t .transit → (t0.st = .pickup ∨ t0.st = .waitingpickup) → t'.st = .transit → t'.job = t0.job →
      t'.loc = t0.loc → t'.buffer.store = t0.buffer.store ++ [j.id] → j ∈ s.jobs → tr.job = some j.id →
      s'.jobs = (s.replaceJob (j.at t0.buffer.id)).jobs →
      (∀ m' ∈ s'.machines, ∃ m ∈ s.machines, m.id = m'.id ∧ ∀ x ∈ m'.pre.store, x ∈ m.pre.store) →
      AgvEffectR inst s s' tr t0 t'
  | deliverM (j : JobState) (cur : Loc) (pick : Nat) (ms : MachineState) (bss : BSS) : tr.new = .t .outage →
      (t0.st = .transit ∨ t0.st = .working) → t'.st = .outage → t'.job = none →
      t0.loc = .route cur pick (.m ms.id) → ms ∈ s.machines → j ∈ s.jobs → j.id ∈ t0.buffer.store →
      s'.jobs = (s.replaceJob (j.at ms.pre.id)).jobs → s'.machines = (s.replaceMachine (ms.withPre j.id bss)).machines →
      AgvEffectR inst s s' tr t0 t'
  | deliverB (j : JobState) (cur : Loc) (pick : Nat) (b : BufState) (bss : BSS) : tr.new = .t .outage →
      (t0.st = .transit ∨ t0.st = .working) → t'.st = .outage → t'.job = none →
      t0.loc = .route cur pick (.b b.id) → b ∈ s.buffers → j ∈ s.jobs → j.id ∈ t0.buffer.store →
      s'.jobs = (s.replaceJob (j.at b.id)).jobs → s'.machines = s.machines →
      s'.buffers = (s.replaceBuffer (b.withBack j.id bss)).buffers → AgvEffectR inst s s' tr t0 t'

theorem agv_effectR (w : WF inst) {s s' : State} {r r' : Rng} {tr : Transition} {tid : Nat} (hI : StructInv inst s)
    (hc : tr.comp = .t tid) (h : applyTransition orc inst s r tr = .ok (s', r')) :
    ∃ t0 t', t0 ∈ s.transports ∧ t0.id = tid ∧ t'.id = t0.id ∧ s'.transports = (s.replaceTransport t').transports ∧
      AgvEffectR inst s s' tr t0 t' := by
  have hs := hI.shape
  unfold applyTransition at h
  simp only [hc] at h
  obtain ⟨t0, ht0, h⟩ := except_bind_eq_ok h
  unfold handleTransportTransition at h
  obtain ⟨t, ht, h⟩ := except_bind_eq_ok h
  rw [ht0] at ht; simp at ht; subst ht
  have hmem := getTransport_ok ht0
  obtain ⟨tc, _, h⟩ := except_bind_eq_ok h
  split at h
  · simp at h
  · obtain ⟨hd, hh, h⟩ := except_bind_eq_ok h
    unfold agvHandlerOf at hh
    cases hn : tr.new with
    | m ns => simp [hn] at hh
    | t ns =>
      simp only [hn] at hh
      cases hah : agvHandler t0.st ns with
      | none => simp [hah] at hh
      | some hd' =>
        simp [hah] at hh; subst hh
        cases hd' with
        | idleToWorking =>
          have hst := agvHandler_idleToWorking hah
          obtain ⟨j, cur, target, src, bc, c, hj, htj, _, hdrop, _, _, _, _, _, rfl⟩ := idleToWorking_spec h
          exact ⟨t0, t0.toPickup cur bc.id target (s.time + c.cur orc r) j.id, hmem.1, hmem.2, rfl, rfl,
            .dispatch j cur bc.id target (by rw [hn, hst.2]) hst.1 rfl rfl rfl rfl hj htj hdrop rfl rfl⟩
        | pickupToWaitingpickup =>
          have hst := agvHandler_pickupToWaiting hah
          obtain ⟨occ, _, _, _, rfl⟩ := pickupToWaiting_spec h
          exact ⟨t0, t0.toWaiting occ, hmem.1, hmem.2, rfl, rfl,
            .keep (Or.inl hst.2) (by simp [TransportState.toWaiting]) rfl rfl rfl rfl rfl⟩
        | waitingPickupToWaitingPickup =>
          have hst := agvHandler_waitingToWaiting hah
          obtain ⟨occ, _, _, rfl⟩ := waitingToWaiting_spec h
          exact ⟨t0, t0.toWaiting occ, hmem.1, hmem.2, rfl, rfl,
            .keep (Or.inr (Or.inl hst.2)) (by simp [TransportState.toWaiting]) rfl rfl rfl rfl rfl⟩
        | outageToIdle =>
          have hst := agvHandler_outageToIdle hah
          obtain ⟨_, rfl⟩ := agvOutageToIdle_spec h
          exact ⟨t0, t0.toIdle, hmem.1, hmem.2, rfl, rfl,
            .keep (Or.inr (Or.inr hst.1)) (by simp [TransportState.toIdle]) rfl rfl rfl rfl rfl⟩
        | pickupToTransit =>
          have hst := agvHandler_pickupToTransit hah
          obtain ⟨j, src, dst, tt, bss1, bss2, hj, htj, _, _, _, hcase⟩ := pickupToTransit_spec h
          refine ⟨t0, t0.toTransit (s.time + tt) j.id bss2, hmem.1, hmem.2, rfl, ?_, ?_⟩
          · rcases hcase with ⟨fb, _, _, _, _, _, rfl⟩ | ⟨mid, ms, bs, ms', _, _, _, _, _, _, _, rfl⟩ <;> rfl
          · rcases hcase with ⟨fb, _, _, _, _, _, rfl⟩ | ⟨mid, ms, bs, ms', _, _, hms, _, hbs, _, hms', rfl⟩
            · exact .pickup j (by rw [hn, hst.1]) hst.2 rfl rfl rfl rfl hj htj rfl (fun m' hm' => ⟨m', hm', rfl, fun x hx => hx⟩)
            · refine .pickup j (by rw [hn, hst.1]) hst.2 rfl rfl rfl rfl hj htj rfl ?_
              intro m1 hm1
              have hid : ms'.id = ms.id ∧ ∀ x ∈ ms'.pre.store, x ∈ ms.pre.store := by
                obtain ⟨_, hwhich⟩ := bufOfMachine_ok hbs
                unfold replaceBufInMachine at hms'
                by_cases h1 : ((bs.without j.id bss1).id == ms.pre.id) = true
                · rw [if_pos h1] at hms'
                  simp at hms'; subst hms'
                  refine ⟨rfl, ?_⟩
                  intro x hx
                  have hbid : bs.id = ms.pre.id := by simpa [BufState.without] using h1
                  rcases hwhich with rfl | rfl | rfl
                  · simp [BufState.without] at hx; exact hx.1
                  · exact absurd hbid (machine_buf_ids_ne hs w hms).1.symm
                  · exact absurd hbid (machine_buf_ids_ne hs w hms).2.1.symm
                · rw [if_neg h1] at hms'
                  by_cases h2 : ((bs.without j.id bss1).id == ms.buffer.id) = true
                  · rw [if_pos h2] at hms'
                    simp at hms'; subst hms'; exact ⟨rfl, fun x hx => hx⟩
                  · rw [if_neg h2] at hms'
                    by_cases h3 : ((bs.without j.id bss1).id == ms.post.id) = true
                    · rw [if_pos h3] at hms'
                      simp at hms'; subst hms'; exact ⟨rfl, fun x hx => hx⟩
                    · rw [if_neg h3] at hms'; cases hms'
              have hm1' : m1 ∈ (s.replaceMachine ms').machines := hm1
              rcases (mem_replaceMachine (hs.machNodup w) hms hid.1 m1).mp hm1' with rfl | ⟨hy0, _⟩
              · exact ⟨ms, hms, hid.1.symm, hid.2⟩
              · exact ⟨m1, hy0, rfl, fun x hx => hx⟩
        | transitToOutage =>
          have hst := agvHandler_transitToOutage hah
          obtain ⟨j, cur, pick, drop, tc, outs, bss1, bss2, hj, _, hloc, hin, _, _, _, hcase⟩ := transitToOutage_spec h
          refine ⟨t0, t0.toOutage j.id bss1 outs (s.time + occupiedFor outs) drop, hmem.1, hmem.2, rfl, ?_, ?_⟩
          · rcases hcase with ⟨mid, ms, _, _, _, _, rfl⟩ | ⟨bid, b, _, _, _, _, rfl⟩ <;> rfl
          · rcases hcase with ⟨mid, ms, e1, hms, e2, _, rfl⟩ | ⟨bid, b, e1, hb, e2, _, rfl⟩
            · subst e2
              exact .deliverM j cur pick ms bss2 (by rw [hn, hst.1]) hst.2 rfl rfl (by rw [hloc, e1]) hms hj hin rfl rfl
            · subst e2
              exact .deliverB j cur pick b bss2 (by rw [hn, hst.1]) hst.2 rfl rfl (by rw [hloc, e1]) hb hj hin rfl rfl rfl


/-- replacing a record that is not idle by one that is not idle changes neither the next idle
operation nor whether any operation is idle -/
theorem replaceOp_keep_idle (j : JobState) (x : OpState) (hx : x.st ≠ .idle)
    (h : ∀ o ∈ j.ops, o.job = x.job ∧ o.idx = x.idx → o.st ≠ .idle) :
    (j.replaceOp x).nextIdle? = j.nextIdle? ∧ (j.replaceOp x).noOpIdle = j.noOpIdle := by
  unfold JobState.nextIdle? JobState.noOpIdle JobState.replaceOp
  simp only
  generalize j.ops = l at h
  induction l with
  | nil => simp
  | cons o os ih =>
    have ih' := ih (fun y hy => h y (by simp [hy]))
    have e1 : (x.st == OSt.idle) = false := by simpa using hx
    have e3 : (x.st != OSt.idle) = true := by simpa using hx
    by_cases hk : (o.job == x.job && o.idx == x.idx) = true
    · have hk' : o.job = x.job ∧ o.idx = x.idx := by simpa using hk
      have ho := h o (by simp) hk'
      have e2 : (o.st == OSt.idle) = false := by simpa using ho
      have e4 : (o.st != OSt.idle) = true := by simpa using ho
      simp only [List.map_cons, hk, if_true, List.find?_cons, e1, e2, List.all_cons, e3, e4, Bool.true_and]
      exact ih'
    · have hk2 : (o.job == x.job && o.idx == x.idx) = false := by simpa using hk
      simp only [List.map_cons, hk2, Bool.false_eq_true, if_false, List.find?_cons, List.all_cons]
      refine ⟨?_, by rw [ih'.2]⟩
      cases o.st == OSt.idle
      · exact ih'.1
      · rfl

/-- what one machine transition does, in enough detail for the route invariant -/
structure MachEffectR (s s' : State) (m0 : MachineState) : Prop where
  transports : s'.transports = s.transports
  job : ∃ j ∈ s.jobs, ∃ J' : JobState, J'.id = j.id ∧ s'.jobs = (s.replaceJob J').jobs ∧
    ((j.id ∈ m0.pre.store ∧ J'.loc = m0.buffer.id ∧
        ∀ m' ∈ s'.machines, ∃ m ∈ s.machines, m.id = m'.id ∧ (∀ x ∈ m'.pre.store, x ∈ m.pre.store) ∧
          (m'.id = m0.id → j.id ∉ m'.pre.store)) ∨
     (j.id ∈ m0.buffer.store ∧ J'.nextIdle? = j.nextIdle? ∧ J'.noOpIdle = j.noOpIdle ∧
        (J'.loc = j.loc ∨ J'.loc = m0.post.id) ∧
        ∀ m' ∈ s'.machines, ∃ m ∈ s.machines, m.id = m'.id ∧ ∀ x ∈ m'.pre.store, x ∈ m.pre.store))

theorem key_unique_in_list : ∀ {l : List OpState}, (l.map (fun o => (o.job, o.idx))).Nodup →
    ∀ {a b : OpState}, a ∈ l → b ∈ l → a.job = b.job ∧ a.idx = b.idx → a = b
  | [], _, _, _, ha, _, _ => by cases ha
  | x :: xs, hnd, a, b, ha, hb, hk => by
    simp only [List.map_cons, List.nodup_cons, List.mem_map, not_exists, not_and] at hnd
    rcases List.mem_cons.mp ha with rfl | ha'
    · rcases List.mem_cons.mp hb with rfl | hb'
      · rfl
      · exact absurd (by simp [hk.1, hk.2]) (hnd.1 b hb')
    · rcases List.mem_cons.mp hb with rfl | hb'
      · exact absurd (by simp [hk.1, hk.2]) (hnd.1 a ha')
      · exact key_unique_in_list hnd.2 ha' hb' hk

theorem key_unique_in_job (w : WF inst) {s : State} (hI : StructInv inst s) {j : JobState} (hj : j ∈ s.jobs)
    {a b : OpState} (ha : a ∈ j.ops) (hb : b ∈ j.ops) (hk : a.job = b.job ∧ a.idx = b.idx) : a = b :=
  key_unique_in_list (hI.shape.ops_key_nodup w hj) ha hb hk


theorem mach_effectR (w : WF inst) {s s' : State} {r r' : Rng} {tr : Transition} {mid : Nat} (hI : StructInv inst s)
    (hS : SchedInv s) (hg : Guard s tr) (hc : tr.comp = .m mid) (h : applyTransition orc inst s r tr = .ok (s', r')) :
    ∃ m0 ∈ s.machines, m0.id = mid ∧ MachEffectR s s' m0 := by
  have hs := hI.shape
  have hmn := hs.machNodup w
  have htr := (machine_effect w hI hc h).2.1
  unfold applyTransition at h
  simp only [hc] at h
  obtain ⟨m0, hm0, h⟩ := except_bind_eq_ok h
  unfold handleMachineTransition at h
  obtain ⟨m, hm, h⟩ := except_bind_eq_ok h
  rw [hm0] at hm; simp at hm; subst hm
  have hmem := getMachine_ok hm0
  refine ⟨m0, hmem.1, hmem.2, htr, ?_⟩
  obtain ⟨hd, hh, h⟩ := except_bind_eq_ok h
  unfold machineHandlerOf at hh
  -- machines of the new state: the replaced one, or untouched ones
  have mach : ∀ (M' : MachineState), M'.id = m0.id → (∀ x ∈ M'.pre.store, x ∈ m0.pre.store) →
      ∀ m' ∈ (s.replaceMachine M').machines, ∃ m ∈ s.machines, m.id = m'.id ∧ (∀ x ∈ m'.pre.store, x ∈ m.pre.store) ∧
        (m'.id = m0.id → m' = M') := by
    intro M' hid hsub m' hm'
    rcases (mem_replaceMachine hmn hmem.1 hid m').mp hm' with rfl | ⟨h0, hne⟩
    · exact ⟨m0, hmem.1, hid.symm, hsub, fun _ => rfl⟩
    · exact ⟨m', h0, rfl, fun x hx => hx, fun e => absurd e hne⟩
  cases hn : tr.new with
  | t ns => simp [hn] at hh
  | m ns =>
    simp only [hn] at hh
    cases hmh : machineHandler m0.st ns with
    | none => simp [hmh] at hh
    | some hd' =>
      simp [hmh] at hh; subst hh
      cases hd' with
      | idleToSetup =>
        obtain ⟨j, op, oc, mc, sd, b1, b2, hj, _, hjpre, _, _, _, _, _, _, _, _, rfl⟩ := idleToSetup_spec h
        refine ⟨j, hj, (j.replaceOp (opRec oc s.time (s.time + sd) m0.id)).at m0.buffer.id, rfl, rfl, Or.inl ⟨hjpre, rfl, ?_⟩⟩
        intro m' hm'
        obtain ⟨m, hm, e1, e2, e3⟩ := mach (m0.toSetup j.id b1 b2 (s.time + sd) oc.tool) rfl
          (by intro x hx; simp [MachineState.toSetup, BufState.without] at hx; exact hx.1) m' hm'
        refine ⟨m, hm, e1, e2, ?_⟩
        intro hid
        rw [e3 hid]
        simp [MachineState.toSetup, BufState.without]
      | setupToWorking =>
        have hst0 := (machineHandler_setupToWorking hmh).1
        obtain ⟨j, op, oc, d, hj, _, hjin, hnn, _, hocj, hoci, _, rfl⟩ := setupToWorking_spec h
        have hbusy : m0.st ≠ .idle := by rw [hst0]; simp
        obtain ⟨_, op0, hp0, _, _, _⟩ := busy_job hI hS w hmem.1 hbusy hj hjin
        have hop0 : op0 = op := by
          have := nextNotDone_of_processing (hS.ops j hj) hp0
          rw [hnn] at this; simpa using this.symm
        subst hop0
        obtain ⟨_, _, hl, _, hpst⟩ := processing?_split' hp0
        have hopmem : op0 ∈ j.ops := by rw [hl]; simp
        have hkeep := replaceOp_keep_idle j (opRec oc s.time (s.time + d) m0.id) (by simp [opRec]) (by
          intro o ho hk
          have : o = op0 := key_unique_in_job w hI hj ho hopmem ⟨by rw [hk.1]; simp [opRec, hocj], by rw [hk.2]; simp [opRec, hoci]⟩
          rw [this, hpst]; simp)
        refine ⟨j, hj, j.replaceOp (opRec oc s.time (s.time + d) m0.id), rfl, rfl, Or.inr ⟨hjin, hkeep.1, hkeep.2, Or.inl rfl, ?_⟩⟩
        intro m' hm'
        obtain ⟨m, hm, e1, e2, _⟩ := mach (m0.toWorking (s.time + d)) rfl (fun x hx => hx) m' hm'
        exact ⟨m, hm, e1, e2⟩
      | workingToOutage =>
        have hst0 := machineHandler_workingToOutage hmh
        obtain ⟨mc, outs, j, op, _, _, _, hj, htj, hp, rfl⟩ := workingToOutage_spec h
        have hjin : j.id ∈ m0.buffer.store := hg.ownJob mid hc (by rw [hn, hst0.2]) m0 hmem.1 hmem.2 j.id htj
        obtain ⟨_, _, hl, _, hpst⟩ := processing?_split' hp
        have hopmem : op ∈ j.ops := by rw [hl]; simp
        have hkeep := replaceOp_keep_idle j { op with stop := some (s.time + occupiedFor outs) } (by simp [hpst]) (by
          intro o ho hk
          have : o = op := key_unique_in_job w hI hj ho hopmem ⟨hk.1, hk.2⟩
          rw [this, hpst]; simp)
        refine ⟨j, hj, j.replaceOp { op with stop := some (s.time + occupiedFor outs) }, rfl, rfl,
          Or.inr ⟨hjin, hkeep.1, hkeep.2, Or.inl rfl, ?_⟩⟩
        intro m' hm'
        obtain ⟨m, hm, e1, e2, _⟩ := mach (m0.toOutage outs (s.time + occupiedFor outs)) rfl (fun x hx => hx) m' hm'
        exact ⟨m, hm, e1, e2⟩
      | outageToIdle =>
        obtain ⟨j, op, mc, rest, b1, b2, hstore, hj, hp, _, _, _, _, rfl⟩ := outageToIdle_spec h
        have hjin : j.id ∈ m0.buffer.store := by rw [hstore]; simp
        obtain ⟨_, _, hl, _, hpst⟩ := processing?_split' hp
        have hopmem : op ∈ j.ops := by rw [hl]; simp
        have hkeep := replaceOp_keep_idle j { op with stop := some s.time, st := .done } (by simp) (by
          intro o ho hk
          have : o = op := key_unique_in_job w hI hj ho hopmem ⟨hk.1, hk.2⟩
          rw [this, hpst]; simp)
        refine ⟨j, hj, (j.replaceOp { op with stop := some s.time, st := .done }).at m0.post.id, rfl, rfl,
          Or.inr ⟨hjin, hkeep.1, hkeep.2, Or.inr rfl, ?_⟩⟩
        intro m' hm'
        obtain ⟨m, hm, e1, e2, _⟩ := mach (m0.toIdle j.id b1 b2) rfl (fun x hx => hx) m' hm'
        exact ⟨m, hm, e1, e2⟩

end JSL
