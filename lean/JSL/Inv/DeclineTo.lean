import JSL.Props.C18

/-!
# Any offer can be chosen: declining down to it

The agent sees the offers one at a time (the head of `possible`).  If the list held is
`pre ++ tr :: post`, declining `pre.length` times returns normally each time, applies no transition,
leaves the shop state, the update counters, the truncation allowance and the "accepted since"
counter untouched, and presents `tr` as the head offer – at the middleware (`declineN`,
`decline_to_offer`) and at the environment (`envDeclineN`, `env_decline_to_offer`).
-/

namespace JSL

variable {orc : Oracle} {inst : Instance} {cfg : SMConfig} {mc : MwCfg} {fuel : Nat}

/-- `n` times "decline" through `middleware.step`; the ghost lists of applied transitions are
concatenated -/
def declineN (orc : Oracle) (inst : Instance) (cfg : SMConfig) (mc : MwCfg) (fuel : Nat) :
    Nat → SMResult → MwState → Rng → Except Err (SMResult × MwState × Rng × List State)
  | 0, res, m, r => pure (res, m, r, [])
  | n + 1, res, m, r => do
    let (res1, m1, r1, mic1) ← mwStep orc inst cfg mc fuel res m r .decline
    let (res2, m2, r2, mic2) ← declineN orc inst cfg mc fuel n res1 m1 r1
    pure (res2, m2, r2, mic1 ++ mic2)

/-- one decline with at least two offers held, as an equation -/
theorem mwStep_decline_many (res : SMResult) (m : MwState) (r : Rng) (o o' : Transition) (rest : List Transition)
    (hp : res.possible = o :: o' :: rest) :
    mwStep orc inst cfg mc fuel res m r .decline =
      .ok ({ state := res.state, subStates := res.subStates, action := noOpAction, success := true,
             done := false, possible := o' :: rest }, { m with noOpCnt := m.noOpCnt + 1 }, r, []) := by
  simp [mwStep, interpret, hp, noOpAction, MwState.addOp, noOpResult]

/-- **T2.**  With `pre ++ tr :: post` on offer, declining `pre.length` times succeeds, applies nothing
and ends with `tr :: post` on offer over the same state, with the same update counters and the same
allowance. -/
theorem decline_to_offer (pre : List Transition) (tr : Transition) (post : List Transition) :
    ∀ (res : SMResult) (m : MwState) (r : Rng), res.possible = pre ++ tr :: post →
    ∃ res' m', declineN orc inst cfg mc fuel pre.length res m r = .ok (res', m', r, []) ∧
      res'.state = res.state ∧ res'.subStates = res.subStates ∧ res'.possible = tr :: post ∧
      m'.joker = m.joker ∧ m'.actCnt = m.actCnt ∧ m'.noOpCnt = m.noOpCnt + pre.length ∧
      (pre = [] → res' = res ∧ m' = m) ∧
      (pre ≠ [] → res'.success = true ∧ res'.done = false ∧ res'.action = noOpAction) := by
  induction pre with
  | nil =>
    intro res m r hp
    exact ⟨res, m, by simp [declineN], rfl, rfl, by simpa using hp, rfl, rfl, by simp, fun _ => ⟨rfl, rfl⟩,
      fun h => absurd rfl h⟩
  | cons p pre' ih =>
    intro res m r hp
    obtain ⟨o', rest, e⟩ : ∃ o' rest, pre' ++ tr :: post = o' :: rest := by
      cases pre' with
      | nil => exact ⟨tr, post, rfl⟩
      | cons a as => exact ⟨a, as ++ tr :: post, rfl⟩
    have hp' : res.possible = p :: o' :: rest := by rw [hp, List.cons_append, e]
    have h1 := mwStep_decline_many (orc := orc) (inst := inst) (cfg := cfg) (mc := mc) (fuel := fuel) res m r p o' rest hp'
    obtain ⟨res', m', h2, e1, e2, e3, e4, e5, e6, _, e8⟩ :=
      ih { state := res.state, subStates := res.subStates, action := noOpAction, success := true,
           done := false, possible := o' :: rest } { m with noOpCnt := m.noOpCnt + 1 } r (by simp [e])
    refine ⟨res', m', ?_, e1, e2, e3, e4, e5, ?_, fun h => (by cases h), fun _ => ?_⟩
    · simp only [List.length_cons, declineN, h1, except_bind_ok, h2, except_pure, List.append_nil]
    · rw [e6]; simp only [List.length_cons]; omega
    · cases pre' with
      | nil =>
        simp only [List.length_nil, declineN, except_pure, Except.ok.injEq, Prod.mk.injEq] at h2
        obtain ⟨rfl, _⟩ := h2
        exact ⟨rfl, rfl, rfl⟩
      | cons a as => exact e8 (by simp)

/-- the statement of T2 in the form of a chain: the `k`-th intermediate result holds the offers from
the `k`-th on -/
theorem decline_prefix (res : SMResult) (m : MwState) (r : Rng) (k : Nat) (hk : k < res.possible.length) :
    ∃ res' m', declineN orc inst cfg mc fuel k res m r = .ok (res', m', r, []) ∧
      res'.state = res.state ∧ res'.possible = res.possible.drop k ∧
      m'.joker = m.joker ∧ m'.actCnt = m.actCnt := by
  have hsplit : res.possible = res.possible.take k ++ res.possible[k] :: res.possible.drop (k + 1) := by
    rw [← List.drop_eq_getElem_cons hk, List.take_append_drop]
  obtain ⟨res', m', h, e1, _, e3, e4, e5, _⟩ :=
    decline_to_offer (orc := orc) (inst := inst) (cfg := cfg) (mc := mc) (fuel := fuel) _ _ _ res m r hsplit
  have hlen : (res.possible.take k).length = k := by rw [List.length_take]; omega
  rw [hlen] at h
  exact ⟨res', m', h, e1, by rw [e3, ← List.drop_eq_getElem_cons hk], e4, e5⟩

/-! ## at the environment -/

/-- `n` times "decline" through `env.step`, collecting the ghost lists -/
def envDeclineN (orc : Oracle) (inst : Instance) (ec : EnvCfg) (st : RewardStatic) :
    Nat → EnvState → Except Err (EnvState × List State)
  | 0, e => pure (e, [])
  | n + 1, e => do
    let out ← envStep orc inst ec st e .decline
    let (e', mic) ← envDeclineN orc inst ec st n out.env
    pure (e', out.micro ++ mic)

/-- the hypotheses under which one more decline keeps the episode going: the episode is not over,
the shop is not done, the allowance is not used up, and the dense reward has a denominator -/
structure CanDecline (inst : Instance) (st : RewardStatic) (e : EnvState) : Prop where
  notDone : e.done = false
  shopOpen : isDone inst e.res.state = false
  allowance : 0 ≤ e.mw.joker
  numOps : st.numOps ≠ 0

/-- one decline at the environment with at least two offers held -/
theorem envStep_decline_many {ec : EnvCfg} {st : RewardStatic} {e : EnvState} (hc : CanDecline inst st e)
    (o o' : Transition) (rest : List Transition) (hp : e.res.possible = o :: o' :: rest) :
    ∃ out, envStep orc inst ec st e .decline = .ok out ∧ out.micro = [] ∧
      out.env.res.state = e.res.state ∧ out.env.res.subStates = e.res.subStates ∧
      out.env.res.possible = o' :: rest ∧ out.env.rng = e.rng ∧
      out.env.mw.joker = e.mw.joker ∧ out.env.mw.actCnt = e.mw.actCnt ∧
      out.env.done = false ∧ out.env.terminated = false ∧ out.env.truncated = false ∧
      out.obsRes = out.env.res ∧ out.obsDone = false ∧ out.makespan = none ∧
      out.env.histLen = e.histLen + 1 ∧ out.env.rwCnt = e.rwCnt + 1 ∧ CanDecline inst st out.env := by
  have h1 := mwStep_decline_many (orc := orc) (inst := inst) (cfg := ec.sm) (mc := ec.mw) (fuel := ec.fuel)
    e.res e.mw e.rng o o' rest hp
  have hj : ¬ (e.mw.joker < 0) := by have := hc.allowance; omega
  have hno : st.numOps ≠ 0 := hc.numOps
  unfold envStep
  simp only [hc.notDone, Bool.false_eq_true, if_false, h1, except_bind_ok, if_true, hc.shopOpen, hj,
    decide_false, Bool.or_false, rewardMake, sparseReward, denseReward, noOpAction, List.isEmpty_nil,
    Bool.not_false, hno, except_pure]
  refine ⟨_, rfl, rfl, rfl, rfl, rfl, rfl, rfl, rfl, rfl, rfl, rfl, rfl, rfl, ?_, rfl, rfl, ?_⟩
  · simp
  · exact ⟨rfl, hc.shopOpen, hc.allowance, hc.numOps⟩

/-- **T2 at the environment.**  With `pre ++ tr :: post` on offer in an environment state in which a
decline keeps the episode going, `pre.length` calls of `env.step(0)` return normally, apply no
transition, leave the shop state, the update counters and the allowance untouched, do not end the
episode, and present `tr`. -/
theorem env_decline_to_offer {ec : EnvCfg} {st : RewardStatic} (pre : List Transition) (tr : Transition)
    (post : List Transition) : ∀ (e : EnvState), CanDecline inst st e → e.res.possible = pre ++ tr :: post →
    ∃ e', envDeclineN orc inst ec st pre.length e = .ok (e', []) ∧
      e'.res.state = e.res.state ∧ e'.res.subStates = e.res.subStates ∧ e'.res.possible = tr :: post ∧
      e'.rng = e.rng ∧ e'.mw.joker = e.mw.joker ∧ e'.mw.actCnt = e.mw.actCnt ∧
      e'.histLen = e.histLen + pre.length ∧ CanDecline inst st e' := by
  induction pre with
  | nil =>
    intro e hc hp
    exact ⟨e, by simp [envDeclineN], rfl, rfl, by simpa using hp, rfl, rfl, rfl, by simp, hc⟩
  | cons p pre' ih =>
    intro e hc hp
    obtain ⟨o', rest, he⟩ : ∃ o' rest, pre' ++ tr :: post = o' :: rest := by
      cases pre' with
      | nil => exact ⟨tr, post, rfl⟩
      | cons a as => exact ⟨a, as ++ tr :: post, rfl⟩
    have hp' : e.res.possible = p :: o' :: rest := by rw [hp, List.cons_append, he]
    obtain ⟨out, h1, hmic, e1, e2, e3, e4, e5, e6, _, _, _, _, _, _, e7, _, hc'⟩ :=
      envStep_decline_many (orc := orc) (ec := ec) hc p o' rest hp'
    obtain ⟨e', h2, f1, f2, f3, f4, f5, f6, f7, hc''⟩ := ih out.env hc' (by rw [e3, he])
    refine ⟨e', ?_, by rw [f1, e1], by rw [f2, e2], f3, by rw [f4, e4], by rw [f5, e5], by rw [f6, e6], ?_, hc''⟩
    · simp only [List.length_cons, envDeclineN, h1, except_bind_ok, h2, except_pure, hmic, List.append_nil]
    · rw [f7, e7]; simp only [List.length_cons]; omega

/-- the states passed through are states of the episode -/
theorem envDeclineN_reach {ec : EnvCfg} {st : RewardStatic} {s0 : State} : ∀ (n : Nat) {e e' : EnvState} {mic : List State},
    EnvReach orc inst ec st s0 e → envDeclineN orc inst ec st n e = .ok (e', mic) → EnvReach orc inst ec st s0 e'
  | 0, e, e', mic, he, h => by
    simp only [envDeclineN, except_pure, Except.ok.injEq, Prod.mk.injEq] at h
    obtain ⟨rfl, _⟩ := h; exact he
  | n + 1, e, e', mic, he, h => by
    simp only [envDeclineN] at h
    obtain ⟨out, hout, h⟩ := except_bind_eq_ok h
    obtain ⟨⟨e1, mic1⟩, h1, h⟩ := except_bind_eq_ok h
    simp only [except_pure, Except.ok.injEq, Prod.mk.injEq] at h
    obtain ⟨rfl, _⟩ := h
    exact envDeclineN_reach n (EnvReach.step he hout) h1

/-! ## the hypotheses along an episode -/

/-- while an episode goes on the allowance is not used up, provided it was not negative to begin with -/
theorem envReach_allowance {ec : EnvCfg} {st : RewardStatic} {s0 : State} (hj : 0 ≤ ec.mw.jokerInit)
    {e : EnvState} (h : EnvReach orc inst ec st s0 e) : e.done = false → 0 ≤ e.mw.joker := by
  induction h with
  | reset h =>
    intro _
    unfold envReset mwReset at h
    obtain ⟨⟨res, mw, r', mic'⟩, h1, h⟩ := except_bind_eq_ok h
    obtain ⟨⟨res', r'', mic''⟩, _, h1⟩ := except_bind_eq_ok h1
    simp at h1 h
    obtain ⟨_, rfl, _, _⟩ := h1
    obtain ⟨rfl, _⟩ := h
    exact hj
  | @step e a out _ h ih =>
    intro hd
    unfold envStep at h
    split at h
    · simp at h
    · obtain ⟨⟨res', mw, r, mic⟩, hm, h⟩ := except_bind_eq_ok h
      simp only at h
      obtain ⟨⟨rew, cnt⟩, _, h⟩ := except_bind_eq_ok h
      simp at h; subst h
      by_cases hs : res'.success = true
      · simp only [hs, if_true, Bool.or_eq_false_iff, decide_eq_false_iff_not] at hd ⊢
        omega
      · simp [hs] at hd

/-- **T2 along every episode.**  In every environment state of every episode that is not over, with
`pre ++ tr :: post` on offer: `pre.length` declines lead – without applying any transition – to an
environment state of the same episode over the same shop state that offers `tr`.  Needed: the
initial allowance is not negative (otherwise the very first decline truncates) and `numOps ≠ 0`
(otherwise the dense reward divides by zero). -/
theorem envReach_decline_to_offer {ec : EnvCfg} {st : RewardStatic} {s0 : State} (hst : Start orc inst s0)
    (hj : 0 ≤ ec.mw.jokerInit) (hn : st.numOps ≠ 0) {e : EnvState} (h : EnvReach orc inst ec st s0 e)
    (hd : e.done = false) (pre : List Transition) (tr : Transition) (post : List Transition)
    (hp : e.res.possible = pre ++ tr :: post) :
    ∃ e', envDeclineN orc inst ec st pre.length e = .ok (e', []) ∧ EnvReach orc inst ec st s0 e' ∧
      e'.done = false ∧ e'.res.state = e.res.state ∧ e'.res.possible = tr :: post ∧
      e'.rng = e.rng ∧ e'.mw.joker = e.mw.joker ∧ e'.mw.actCnt = e.mw.actCnt := by
  have hne : e.res.possible ≠ [] := by rw [hp]; simp
  have hc : CanDecline inst st e := ⟨hd, (envReach_inv hst h).notDone hne, envReach_allowance hj h hd, hn⟩
  obtain ⟨e', h1, e1, _, e3, e4, e5, e6, _, hc'⟩ := env_decline_to_offer (orc := orc) (ec := ec) pre tr post e hc hp
  exact ⟨e', h1, envDeclineN_reach _ h h1, hc'.notDone, e1, e3, e4, e5, e6⟩

end JSL
