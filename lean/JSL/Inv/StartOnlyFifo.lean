import JSL.Inv.StartOnly
import JSL.Inv.Applies

/-!
# `PreFlex` is needed: with ordered pre-buffers operations start without an accepted offer

`ExFifo.inst` is the example instance (2 jobs × 2 machines, one AGV, total tables) with FIFO
pre-buffers and a long first operation of job 1.  It meets every guard of `Start`.  Its episodes
never offer a machine start at all; machines take their jobs themselves:

* `fifo_dispatch_starts` – accepting the very first offer (an AGV dispatch) starts an operation
  inside the same step;
* `fifo_decline_starts` – after `reset, 1, 0, 1, 1` the environment holds a single offer (a
  dispatch); **declining it** (forced jump) starts the operation of the job that was waiting in the
  pre-buffer of machine 1.

So "only an accepted machine start takes a record out of IDLE" holds for FLEX pre-buffers only.
-/

namespace JSL

namespace ExFifo

def bcF (id : Nat) (cap : Int) (role : BufRole) (parent : Option Comp) : BufCfg :=
  { id := id, type := .fifo, cap := cap, role := role, parent := parent }

def mcF (id pre post buf : Nat) : MachineCfg :=
  { id := id, outages := [], setup := [((0, 0), .det 0)], pre := bcF pre Ex.big .component (some (.m id)),
    post := Ex.bc post Ex.big .component (some (.m id)), buf := Ex.bc buf 1 .component (some (.m id)) }

def inst : Instance :=
  { jobs := [{ id := 0, ops := [{ job := 0, idx := 0, machine := 0, dur := .det 3, tool := 0 },
                                { job := 0, idx := 1, machine := 1, dur := .det 2, tool := 0 }] },
             { id := 1, ops := [{ job := 1, idx := 0, machine := 1, dur := .det 20, tool := 0 },
                                { job := 1, idx := 1, machine := 0, dur := .det 1, tool := 0 }] }],
    travel := ExT.instT.travel,
    machines := [mcF 0 0 1 2, mcF 1 3 4 5],
    buffers := ExT.instT.buffers,
    transports := ExT.instT.transports }

theorem start : Start ExT.orc0 inst Ex.s0 :=
  ⟨by decide, by decide, by decide, by decide, fun _ _ => Int.le_refl 0⟩

/-- run a script of agent actions -/
def runScript : List AgentAct → EnvState → Except Err EnvState
  | [], e => .ok e
  | a :: as, e => do
    let out ← envStep ExT.orc0 inst ExT.ec ExT.st e a
    runScript as out.env

theorem runScript_reach : ∀ (as : List AgentAct) {e e' : EnvState},
    EnvReach ExT.orc0 inst ExT.ec ExT.st Ex.s0 e → runScript as e = .ok e' → EnvReach ExT.orc0 inst ExT.ec ExT.st Ex.s0 e'
  | [], e, e', he, h => by simp [runScript] at h; subst h; exact he
  | a :: as, e, e', he, h => by
    simp only [runScript] at h
    obtain ⟨out, hout, h⟩ := except_bind_eq_ok h
    exact runScript_reach as (EnvReach.step he hout) h

/-- some record of `s'` that is not idle has only idle counterparts in `s` -/
def startedB (s s' : State) : Bool :=
  s'.jobs.any fun j' => j'.ops.any fun o' => o'.st != .idle &&
    s.jobs.all fun j => !(j.id == j'.id) || j.ops.all fun o => !(o.job == o'.job && o.idx == o'.idx) || o.st == .idle

theorem startedB_sound {s s' : State} (h : startedB s s' = true) : ¬ NoStartSince s s' := by
  intro hns
  simp only [startedB, List.any_eq_true, Bool.and_eq_true, List.all_eq_true, Bool.or_eq_true,
    Bool.not_eq_true', beq_eq_false_iff_ne, bne_iff_ne, beq_iff_eq, Bool.and_eq_false_iff] at h
  obtain ⟨j', hj', o', ho', hni, hall⟩ := h
  obtain ⟨j, hj, e, o, ho, k1, k2, hn⟩ := hns j' hj' o' ho' hni
  rcases hall j hj with h1 | h1
  · exact h1 e
  · rcases h1 o ho with h2 | h2
    · rcases h2 with h3 | h3
      · exact h3 k1
      · exact h3 k2
    · exact hn h2

/-- reset, the script, then the action `a`: does the last step start an operation while `n` offers
were held, the first of them not a machine start? -/
def lastStepStarts (script : List AgentAct) (a : AgentAct) (n : Nat) : Bool :=
  match envReset ExT.orc0 inst ExT.ec Ex.s0 ExT.r0 with
  | .error _ => false
  | .ok (e, _) =>
    match runScript script e with
    | .error _ => false
    | .ok e1 =>
      match envStep ExT.orc0 inst ExT.ec ExT.st e1 a with
      | .error _ => false
      | .ok out =>
        e1.res.possible.length == n && e1.res.possible.all (fun tr => tr.new != .m .setup) &&
          startedB e1.res.state out.env.res.state

theorem lastStepStarts_sound {script : List AgentAct} {a : AgentAct} {n : Nat} (h : lastStepStarts script a n = true) :
    ∃ e out, EnvReach ExT.orc0 inst ExT.ec ExT.st Ex.s0 e ∧ envStep ExT.orc0 inst ExT.ec ExT.st e a = .ok out ∧
      e.res.possible.length = n ∧ (∀ tr ∈ e.res.possible, tr.new ≠ .m .setup) ∧
      ¬ NoStartSince e.res.state out.env.res.state := by
  unfold lastStepStarts at h
  split at h
  · cases h
  · rename_i e mic hreset
    split at h
    · cases h
    · rename_i e1 h1
      split at h
      · cases h
      · rename_i out hout
        simp only [Bool.and_eq_true, beq_iff_eq, List.all_eq_true, bne_iff_ne] at h
        exact ⟨e1, out, runScript_reach _ (EnvReach.reset hreset) h1, hout, h.1.1, h.1.2, startedB_sound h.2⟩

end ExFifo

/-- **`PreFlex` cannot be dropped (decline).**  An instance meeting every guard of `Start`, an
environment state of one of its episodes holding exactly one offer (an AGV dispatch), and the
`env.step(0)` that declines it: afterwards a record has left `IDLE` that was idle before. -/
theorem fifo_decline_starts : Start ExT.orc0 ExFifo.inst Ex.s0 ∧
    ∃ e out, EnvReach ExT.orc0 ExFifo.inst ExT.ec ExT.st Ex.s0 e ∧
      envStep ExT.orc0 ExFifo.inst ExT.ec ExT.st e .decline = .ok out ∧
      e.res.possible.length = 1 ∧ (∀ tr ∈ e.res.possible, tr.new ≠ .m .setup) ∧
      ¬ NoStartSince e.res.state out.env.res.state :=
  ⟨ExFifo.start, ExFifo.lastStepStarts_sound (script := [.accept, .decline, .accept, .accept]) (by decide)⟩

/-- **`PreFlex` cannot be dropped (accepted dispatch).**  Right after `reset`, accepting the head
offer – an AGV dispatch – starts an operation inside the same step. -/
theorem fifo_dispatch_starts :
    ∃ e out, EnvReach ExT.orc0 ExFifo.inst ExT.ec ExT.st Ex.s0 e ∧
      envStep ExT.orc0 ExFifo.inst ExT.ec ExT.st e .accept = .ok out ∧
      e.res.possible.length = 2 ∧ (∀ tr ∈ e.res.possible, tr.new ≠ .m .setup) ∧
      ¬ NoStartSince e.res.state out.env.res.state :=
  ExFifo.lastStepStarts_sound (script := []) (by decide)

/-- non-vacuity of the positive theorems: the example instances have FLEX pre-buffers -/
example : PreFlex Ex.inst ∧ PreFlex ExT.instT := by
  constructor <;> intro mc h <;> simp [Ex.inst, ExT.instT, Ex.mc, Ex.bc] at h <;> rcases h with rfl | rfl <;> rfl

end JSL
