import JSL.Inv.Defs

/-! Frame lemmas: how `allBufStates` and the component lists change under the four
replace-by-id operations of the handlers. -/

namespace JSL

theorem mem_allBufs (s : State) (b : BufState) :
    b ∈ allBufStates s ↔
      b ∈ s.buffers ∨ (∃ x ∈ s.machines, b = x.pre ∨ b = x.buffer ∨ b = x.post) ∨
      (∃ t ∈ s.transports, b = t.buffer) := by
  simp [allBufStates, List.mem_flatMap, or_assoc, eq_comm]

@[simp] theorem allBufs_replaceJob (s : State) (j : JobState) :
    allBufStates (s.replaceJob j) = allBufStates s := rfl

@[simp] theorem replaceJob_machines (s : State) (j : JobState) : (s.replaceJob j).machines = s.machines := rfl
@[simp] theorem replaceJob_transports (s : State) (j : JobState) : (s.replaceJob j).transports = s.transports := rfl
@[simp] theorem replaceJob_buffers (s : State) (j : JobState) : (s.replaceJob j).buffers = s.buffers := rfl
@[simp] theorem replaceJob_time (s : State) (j : JobState) : (s.replaceJob j).time = s.time := rfl
@[simp] theorem replaceMachine_jobs (s : State) (m : MachineState) : (s.replaceMachine m).jobs = s.jobs := rfl
@[simp] theorem replaceMachine_transports (s : State) (m : MachineState) : (s.replaceMachine m).transports = s.transports := rfl
@[simp] theorem replaceMachine_buffers (s : State) (m : MachineState) : (s.replaceMachine m).buffers = s.buffers := rfl
@[simp] theorem replaceMachine_time (s : State) (m : MachineState) : (s.replaceMachine m).time = s.time := rfl
@[simp] theorem replaceTransport_jobs (s : State) (t : TransportState) : (s.replaceTransport t).jobs = s.jobs := rfl
@[simp] theorem replaceTransport_machines (s : State) (t : TransportState) : (s.replaceTransport t).machines = s.machines := rfl
@[simp] theorem replaceTransport_buffers (s : State) (t : TransportState) : (s.replaceTransport t).buffers = s.buffers := rfl
@[simp] theorem replaceTransport_time (s : State) (t : TransportState) : (s.replaceTransport t).time = s.time := rfl
@[simp] theorem replaceBuffer_jobs (s : State) (b : BufState) : (s.replaceBuffer b).jobs = s.jobs := rfl
@[simp] theorem replaceBuffer_machines (s : State) (b : BufState) : (s.replaceBuffer b).machines = s.machines := rfl
@[simp] theorem replaceBuffer_transports (s : State) (b : BufState) : (s.replaceBuffer b).transports = s.transports := rfl
@[simp] theorem replaceBuffer_time (s : State) (b : BufState) : (s.replaceBuffer b).time = s.time := rfl

theorem mem_replaceJob {s : State} (hnd : (s.jobs.map (·.id)).Nodup) {j j' : JobState} (hj : j ∈ s.jobs)
    (hid : j'.id = j.id) (x : JobState) :
    x ∈ (s.replaceJob j').jobs ↔ (x = j' ∨ (x ∈ s.jobs ∧ x.id ≠ j.id)) :=
  mem_replace (key := fun (y : JobState) => y.id) hnd hj hid x

theorem mem_replaceMachine {s : State} (hnd : (s.machines.map (·.id)).Nodup) {m m' : MachineState}
    (hm : m ∈ s.machines) (hid : m'.id = m.id) (x : MachineState) :
    x ∈ (s.replaceMachine m').machines ↔ (x = m' ∨ (x ∈ s.machines ∧ x.id ≠ m.id)) :=
  mem_replace (key := fun (y : MachineState) => y.id) hnd hm hid x

theorem mem_replaceTransport {s : State} (hnd : (s.transports.map (·.id)).Nodup) {t t' : TransportState}
    (ht : t ∈ s.transports) (hid : t'.id = t.id) (x : TransportState) :
    x ∈ (s.replaceTransport t').transports ↔ (x = t' ∨ (x ∈ s.transports ∧ x.id ≠ t.id)) :=
  mem_replace (key := fun (y : TransportState) => y.id) hnd ht hid x

theorem mem_replaceBuffer {s : State} (hnd : (s.buffers.map (·.id)).Nodup) {b b' : BufState}
    (hb : b ∈ s.buffers) (hid : b'.id = b.id) (x : BufState) :
    x ∈ (s.replaceBuffer b').buffers ↔ (x = b' ∨ (x ∈ s.buffers ∧ x.id ≠ b.id)) :=
  mem_replace (key := fun (y : BufState) => y.id) hnd hb hid x

/-- distinct members of `allBufStates` have distinct ids (under `Shape`/`WF`) -/
theorem allBufs_inj {inst : Instance} {s : State} (hs : Shape inst s) (w : WF inst) {a b : BufState}
    (ha : a ∈ allBufStates s) (hb : b ∈ allBufStates s) (h : a.id = b.id) : a = b :=
  eq_of_mem_of_key_eq (key := fun (y : BufState) => y.id) (hs.bufNodup w) ha hb h

end JSL
