import JSL.Inv.ClassicInv
import JSL.Inv.StartOnly

/-!
# Interface of the totality plumbing

`TotalHyp ps μ B Q`: what the generic plumbing (`JSL.Inv.ClassicTotal`) needs to know about a pass
`ps` in order to show that `state.step` **returns** (never raises, never runs out of fuel):

* every transition of a guarded batch that is not a machine start passes validation and applies;
* the query functions return in every state satisfying the invariants;
* the batches the code builds from such a state contain no machine start (FLEX pre-buffers), and
  the purely timed batch contains no dispatch;
* a measure `μ ≤ B`, independent of the clock, that every applied transition other than a start or a
  dispatch decreases;
* a further property `Q` of states that is kept by every such transition and by every jump of the
  clock that happens while nothing is on offer.
-/

namespace JSL

variable {orc : Oracle} {inst : Instance} {cfg : SMConfig}

structure TotalHyp (ps : Pass orc inst cfg) (μ : State → Nat) (B : Nat) (Q : State → Prop) : Prop where
  apply : ∀ {s tr R} (r : Rng), StructInv inst s → SchedInv s → ps.P s → ps.GS s (tr :: R) → tr.new ≠ .m .setup →
    transitionValid s tr = .ok true ∧ ∃ s' r', applyTransition orc inst s r tr = .ok (s', r')
  timed : ∀ {s}, StructInv inst s → SchedInv s → ps.P s → ∃ tt, timedTransitions inst s = .ok tt
  poss : ∀ {s}, StructInv inst s → SchedInv s → ps.P s → ∃ poss, possibleTransitions inst cfg s = .ok poss
  count : ∀ {s}, StructInv inst s → SchedInv s → ps.P s → ∃ n, numPossibleEvents inst cfg s = .ok n
  tele : ∀ {s poss} (r : Rng), StructInv inst s → SchedInv s → ps.P s → possibleTransitions inst cfg s = .ok poss →
    ∃ tele, filterTeleport orc inst r s poss = .ok tele
  force : ∀ {s}, StructInv inst s → SchedInv s → ps.P s → ∃ t, forceJump s = .ok t
  lastDone : ∀ {s}, SchedInv s → ∃ e, lastDoneEnd s = .ok e
  noStartTimed : ∀ {s tt}, StructInv inst s → SchedInv s → timedTransitions inst s = .ok tt → ∀ tr ∈ tt, tr.new ≠ .m .setup
  noStartTele : ∀ {s poss tele} {r : Rng}, possibleTransitions inst cfg s = .ok poss →
    filterTeleport orc inst r s poss = .ok tele → ∀ tr ∈ tele, tr.new ≠ .m .setup
  noDispatchTimed : ∀ {s tt}, SchedInv s → timedTransitions inst s = .ok tt → ∀ tr ∈ tt, tr.new ≠ .t .working
  μ_time : ∀ s t, μ { s with time := t } = μ s
  μ_le : ∀ {s}, StructInv inst s → μ s ≤ B
  μ_step : ∀ {s tr R r s' r'}, StructInv inst s → SchedInv s → ps.P s → ps.GS s (tr :: R) → tr.new ≠ .m .setup →
    tr.new ≠ .t .working → applyTransition orc inst s r tr = .ok (s', r') → μ s' + 1 ≤ μ s
  q_step : ∀ {s tr R r s' r'}, StructInv inst s → SchedInv s → ps.P s → ps.GS s (tr :: R) → tr.new ≠ .m .setup →
    applyTransition orc inst s r tr = .ok (s', r') → Q s → Q s'
  q_jump : ∀ {s t}, StructInv inst s → SchedInv s → ps.P s → Q s → numPossibleEvents inst cfg s = .ok 0 →
    forceJump s = .ok t → Q { s with time := t }

end JSL
