import JSL.Inv.Batch

/-!
# The batch `create_timed_transitions` builds is safe and fresh in the state it is built from
-/

namespace JSL

variable {orc : Oracle} {inst : Instance}

/-- what `create_timed_machine_transitions` produces for one machine -/
def TimedM (s : State) (tr : Transition) : Prop :=
  ∃ m ∈ s.machines, tr.comp = .m m.id ∧
    ((∃ ns, machineTimedNext m.st = some ns ∧ tr.new = .m ns ∧ tr.job = m.buffer.store.head?) ∨
     (m.st = .idle ∧ tr.new = .m .setup ∧ ∃ j, tr.job = some j ∧ j ∈ m.pre.store))

theorem timedMachine_spec {s : State} {m : MachineState} (hm : m ∈ s.machines) {tr : Transition}
    (h : timedMachine inst s.time m = .ok (some tr)) : TimedM s tr ∧ tr.comp = .m m.id := by
  unfold timedMachine at h
  split at h
  · rename_i ns hns
    cases hst : m.buffer.store with
    | nil => simp [hst] at h
    | cons j rest =>
      simp [hst] at h; subst h
      have : machineTimedNext m.st = some ns := by
        split at hns
        · exact hns
        · simp at hns
      exact ⟨⟨m, hm, rfl, Or.inl ⟨ns, this, rfl, by simp [hst]⟩⟩, rfl⟩
  · split at h
    · rename_i hidle
      unfold machineSetupTransition at h
      split at h
      · obtain ⟨pc, _, h⟩ := except_bind_eq_ok h
        cases hn : nextJobFromBuffer m.pre pc with
        | none => simp [hn] at h
        | some j =>
          simp [hn] at h; subst h
          have hj : j ∈ m.pre.store := by
            unfold nextJobFromBuffer at hn
            split at hn
            · exact List.mem_of_mem_head? hn
            · exact List.mem_of_getLast? hn
            · simp at hn
          exact ⟨⟨m, hm, rfl, Or.inr ⟨by simpa using hidle, rfl, j, rfl, hj⟩⟩, rfl⟩
      · simp at h
    · simp at h

/-- the machine part of the timed batch -/
theorem timedMachines_spec {s : State} : ∀ (ms : List MachineState), (∀ m ∈ ms, m ∈ s.machines) →
    (ms.map (·.id)).Nodup → ∀ r, ms.mapM (timedMachine inst s.time) = .ok r →
    (∀ tr ∈ r.filterMap id, TimedM s tr ∧ ∃ m ∈ ms, tr.comp = .m m.id) ∧
    (r.filterMap id).Pairwise (fun a b => a.comp ≠ b.comp)
  | [], _, _, r, h => by simp [List.mapM_nil] at h; subst h; simp
  | m :: ms, hsub, hnd, r, h => by
    rw [List.mapM_cons] at h
    obtain ⟨x, hx, h⟩ := except_bind_eq_ok h
    obtain ⟨xs, hxs, h⟩ := except_bind_eq_ok h
    simp at h; subst h
    simp only [List.map_cons, List.nodup_cons] at hnd
    have ih := timedMachines_spec ms (fun y hy => hsub y (by simp [hy])) hnd.2 xs hxs
    cases x with
    | none =>
      simp only [List.filterMap_cons, id]
      exact ⟨fun tr htr => by
        obtain ⟨h1, y, hy, h2⟩ := ih.1 tr htr; exact ⟨h1, y, by simp [hy], h2⟩, ih.2⟩
    | some tr0 =>
      have h0 := timedMachine_spec (hsub m (by simp)) hx
      simp only [List.filterMap_cons, id]
      constructor
      · intro tr htr
        rcases List.mem_cons.mp htr with rfl | htr
        · exact ⟨h0.1, m, by simp, h0.2⟩
        · obtain ⟨h1, y, hy, h2⟩ := ih.1 tr htr; exact ⟨h1, y, by simp [hy], h2⟩
      · rw [List.pairwise_cons]
        refine ⟨?_, ih.2⟩
        intro b hb
        obtain ⟨_, y, hy, h2⟩ := ih.1 b hb
        rw [h0.2, h2]
        intro e
        simp at e
        exact hnd.1 (List.mem_map.mpr ⟨y, hy, e.symm⟩)

/-- the new state of a transition is a transport state -/
def IsT (tr : Transition) : Prop := ∃ ns, tr.new = .t ns

/-- what `create_timed_transport_transitions` produces -/
theorem timedTransport_spec {s : State} (hS : SchedInv s) {t : TransportState} (ht : t ∈ s.transports) {tr : Transition}
    (h : timedTransport inst s t = .ok (some tr)) :
    IsT tr ∧ (tr.new = .t .transit → ∃ j ∈ s.jobs, tr.job = some j.id ∧ readyForPickup inst s j = .ok true) := by
  unfold timedTransport at h
  cases hocc : t.occ with
  | none => simp [hocc] at h
  | dep b j tr' =>
    simp only [hocc] at h
    obtain ⟨res, _, h⟩ := except_bind_eq_ok h
    split at h
    · simp at h; subst h
      have := hS.depWaiting t ht b j tr' hocc
      exact ⟨⟨_, this⟩, by rw [this]; simp⟩
    · simp at h
  | «at» o =>
    simp only [hocc] at h
    split at h
    · cases hcr : agvTimedCreator t.st with
      | idleToPick =>
        simp only [hcr] at h
        unfold agvIdleToPickTransition at h
        obtain ⟨jid, _, h⟩ := except_bind_eq_ok h
        obtain ⟨j, hj, h⟩ := except_bind_eq_ok h
        obtain ⟨rdy, hrdy, h⟩ := except_bind_eq_ok h
        simp at h
        cases hnx : idleToPickNext t.st rdy with
        | none => simp [hnx] at h
        | some ns =>
          simp [hnx] at h; subst h
          refine ⟨⟨ns, rfl⟩, ?_⟩
          intro hns
          simp at hns; subst hns
          have : rdy = true := by
            cases rdy
            · exfalso; revert hnx; cases t.st <;> decide
            · rfl
          subst this
          exact ⟨j, (getJob_ok hj).1, rfl, hrdy⟩
      | pickupToDrop =>
        simp only [hcr] at h
        split at h
        · obtain ⟨js, _, h⟩ := except_bind_eq_ok h
          simp at h; subst h
          exact ⟨⟨_, rfl⟩, by simp⟩
        · simp at h
      | dropToIdle => simp [hcr] at h; subst h; exact ⟨⟨_, rfl⟩, by simp⟩
      | raises => simp [hcr] at h
      | none => simp [hcr] at h
    · simp at h

theorem timedTransports_spec {s : State} (hS : SchedInv s) : ∀ (ts : List TransportState), (∀ t ∈ ts, t ∈ s.transports) →
    ∀ r, ts.mapM (timedTransport inst s) = .ok r →
    ∀ tr ∈ r.filterMap id, IsT tr ∧
      (tr.new = .t .transit → ∃ j ∈ s.jobs, tr.job = some j.id ∧ readyForPickup inst s j = .ok true)
  | [], _, r, h => by simp [List.mapM_nil] at h; subst h; simp
  | t :: ts, hsub, r, h => by
    rw [List.mapM_cons] at h
    obtain ⟨x, hx, h⟩ := except_bind_eq_ok h
    obtain ⟨xs, hxs, h⟩ := except_bind_eq_ok h
    simp at h; subst h
    have ih := timedTransports_spec hS ts (fun y hy => hsub y (by simp [hy])) xs hxs
    intro tr htr
    cases x with
    | none => simp only [List.filterMap_cons, id] at htr; exact ih tr htr
    | some tr0 =>
      simp only [List.filterMap_cons, id] at htr
      rcases List.mem_cons.mp htr with rfl | htr
      · exact timedTransport_spec hS (hsub t (by simp)) hx
      · exact ih tr htr

theorem Shape.postIds {s : State} (hs : Shape inst s) :
    s.machines.map (·.post.id) = inst.machines.map (·.post.id) := by
  have := congrArg (List.map (fun k : Nat × Nat × Nat × Nat => k.2.2.2)) hs.machines
  simpa [List.map_map, Function.comp_def, mKey, mcKey] using this

/-- a job that is ready for pickup sits in a standalone buffer or a post-buffer: not in any
machine's internal buffer or pre-buffer, and it is not being processed -/
theorem ready_facts (w : WF inst) {s : State} (hI : StructInv inst s) (hS : SchedInv s) {j : JobState} (hj : j ∈ s.jobs)
    (h : readyForPickup inst s j = .ok true) :
    (∀ m ∈ s.machines, m.buffer.id ≠ j.loc ∧ m.pre.id ≠ j.loc) ∧ (∀ o ∈ j.ops, o.st ≠ .processing) := by
  have hs := hI.shape
  unfold readyForPickup at h
  obtain ⟨bs, hbs, h⟩ := except_bind_eq_ok h
  obtain ⟨bc, _, h⟩ := except_bind_eq_ok h
  have hbs' := getBufState_ok hbs
  have hkind : pickupBufferKind inst j.loc = true := by
    rw [← hbs'.2]
    cases hidx : bs.store.idxOf? j.id with
    | some p => simp [hidx] at h; exact h.1
    | none =>
      simp only [hidx] at h
      split at h
      · simp at h
      · cases hpn : posNone bc.type with
        | none => simp [hpn] at h
        | some r => simp [hpn] at h; exact h.1
  have hne : ∀ m ∈ s.machines, m.buffer.id ≠ j.loc ∧ m.pre.id ≠ j.loc := by
    intro m hm
    unfold pickupBufferKind at hkind
    simp only [Bool.or_eq_true, List.contains_iff_mem] at hkind
    rcases hkind with hk | hk
    · rw [← hs.buffers] at hk
      obtain ⟨b, hb, e⟩ := List.mem_map.mp hk
      have := (ids_parts hs w).1 b hb m hm
      rw [← e]; exact ⟨this.2.1.symm, this.1.symm⟩
    · rw [← hs.postIds] at hk
      obtain ⟨m2, hm2, e⟩ := List.mem_map.mp hk
      rw [← e]
      refine ⟨(internal_ne_pre_post hs w hm hm2).2, ?_⟩
      by_cases e2 : m.id = m2.id
      · have : m = m2 := eq_of_mem_of_key_eq (key := fun (y : MachineState) => y.id) (hs.machNodup w) hm hm2 e2
        subst this; exact (machine_buf_ids_ne hs w hm).2.1
      · exact machines_bufs_ne hs w hm hm2 e2 _ (by simp) _ (by simp)
  refine ⟨hne, ?_⟩
  exact not_processing_of_stored hI hS w hj (hI.cons.located (j.id, j.loc) (List.mem_map.mpr ⟨j, hj, rfl⟩))
    (fun m hm => (hne m hm).1)

/-- **The timed batch is safe and fresh.**  The transitions `create_timed_transitions` builds from a
state (followed by any offer-shaped AGV dispatches – the teleports) meet their side conditions in
that state, and applying them one after the other keeps it so. -/
theorem timed_batch_safe (w : WF inst) {s : State} (hI : StructInv inst s) (hS : SchedInv s)
    {tt tele : List Transition} (htt : timedTransitions inst s = .ok tt)
    (htele : ∀ tr ∈ tele, tr.new = .t .working) : Safe s (tt ++ tele) ∧ Fresh (tt ++ tele) := by
  have hs := hI.shape
  unfold timedTransitions at htt
  obtain ⟨a, ha, htt⟩ := except_bind_eq_ok htt
  obtain ⟨b, hb, htt⟩ := except_bind_eq_ok htt
  simp at htt; subst htt
  unfold timedMachineTransitions at ha
  unfold timedTransportTransitions at hb
  cases hra : s.machines.mapM (timedMachine inst s.time) with
  | error e => simp [hra] at ha
  | ok ra =>
    simp [hra] at ha; subst ha
    cases hrb : s.transports.mapM (timedTransport inst s) with
    | error e => simp [hrb] at hb
    | ok rb =>
      simp [hrb] at hb; subst hb
      have hA := timedMachines_spec (inst := inst) s.machines (fun m hm => hm) (hs.machNodup w) ra hra
      have hB := timedTransports_spec (inst := inst) hS s.transports (fun t ht => ht) rb hrb
      -- everything after the machine part has a transport state as its new state
      have hT : ∀ tr ∈ rb.filterMap id ++ tele, IsT tr ∧
          (tr.new = .t .transit → ∃ j ∈ s.jobs, tr.job = some j.id ∧ readyForPickup inst s j = .ok true) := by
        intro tr htr
        rcases List.mem_append.mp htr with h | h
        · exact hB tr h
        · exact ⟨⟨_, htele tr h⟩, by rw [htele tr h]; simp⟩
      have hMnew : ∀ tr ∈ ra.filterMap id, ∃ ns, tr.new = .m ns := by
        intro tr htr
        obtain ⟨⟨m, _, _, h⟩, _⟩ := hA.1 tr htr
        rcases h with ⟨ns, _, h, _⟩ | ⟨_, h, _⟩ <;> exact ⟨_, h⟩
      rw [List.append_assoc]
      constructor
      · constructor
        · intro tr htr mid hc hn m hm hid x hx
          rcases List.mem_append.mp htr with h | h
          · obtain ⟨⟨m', hm', hc', hcase⟩, _⟩ := hA.1 tr h
            have : m' = m := by
              apply eq_of_mem_of_key_eq (key := fun (y : MachineState) => y.id) (hs.machNodup w) hm' hm
              rw [hc] at hc'; simp at hc'; rw [hid]; exact hc'.symm
            subst this
            rcases hcase with ⟨ns, _, _, hjob⟩ | ⟨_, hnew, _⟩
            · rw [hx] at hjob; exact List.mem_of_mem_head? hjob.symm
            · rw [hnew] at hn; simp at hn
          · obtain ⟨⟨ns, e⟩, _⟩ := hT tr h
            rw [e] at hn; simp at hn
        · intro tr htr tid hc hn j hj hx
          rcases List.mem_append.mp htr with h | h
          · obtain ⟨ns, e⟩ := hMnew tr h; rw [e] at hn; simp at hn
          · obtain ⟨j', hj', hx', hrdy⟩ := (hT tr h).2 hn
            have : j' = j := by
              apply eq_of_mem_of_key_eq (key := fun (y : JobState) => y.id) (hs.jobsNodup w) hj' hj
              rw [hx] at hx'; simpa using hx'.symm
            subst this
            exact (ready_facts w hI hS hj' hrdy).2
      · show List.Pairwise FreshRel _
        rw [List.pairwise_append]
        refine ⟨?_, ?_, ?_⟩
        · apply hA.2.imp_of_mem
          intro a b ha hb hne
          refine ⟨?_, ?_⟩
          · intro mid hc _ e; exact hne (by rw [e, hc])
          · intro _ hn
            obtain ⟨ns, e⟩ := hMnew b hb; rw [e] at hn; simp at hn
        · apply List.pairwise_of_forall_mem_list
          intro a ha b hb
          refine ⟨?_, ?_⟩
          · intro mid _ hn
            obtain ⟨⟨ns, e⟩, _⟩ := hT b hb; rw [e] at hn; simp at hn
          · intro hn
            obtain ⟨⟨ns, e⟩, _⟩ := hT a ha; rw [e] at hn; simp at hn
        · intro a ha b hb
          refine ⟨?_, ?_⟩
          · intro mid _ hn
            obtain ⟨⟨ns, e⟩, _⟩ := hT b hb; rw [e] at hn; simp at hn
          · intro hsetup hn x hx hax
            obtain ⟨j, hj, hbj, hrdy⟩ := (hT b hb).2 hn
            obtain ⟨⟨m, hm, _, hcase⟩, _⟩ := hA.1 a ha
            have hjx : x = j.id := by rw [hx] at hbj; simpa using hbj
            subst hjx
            have hinpre : j.id ∈ m.pre.store := by
              rcases hcase with ⟨ns, hnext, hnew, _⟩ | ⟨_, _, j0, hj0, hin⟩
              · rw [hsetup] at hnew; simp at hnew; subst hnew
                exfalso; revert hnext; cases m.st <;> decide
              · rw [hax] at hj0; simp at hj0; subst hj0; exact hin
            have h1 : j.id ∈ storeAt s m.pre.id := by
              rw [storeAt_of_mem (hs.bufNodup w) (mem_allBufs_of_machine hm).1]; exact hinpre
            have h2 : j.id ∈ storeAt s j.loc := hI.cons.located (j.id, j.loc) (List.mem_map.mpr ⟨j, hj, rfl⟩)
            have := unique_store hI.cons (hs.jobsNodup w) h1 h2
            exact ((ready_facts w hI hS hj hrdy).1 m hm).2 this

end JSL
