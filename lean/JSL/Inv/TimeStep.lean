import JSL.Inv.SchedSmStep

/-!
# The clock along `state.step`

Applying transitions never touches the clock; only the time machines do, and they only move it
forward, to the earliest pending event.  When the loop of timed transitions ends, nothing is due.
-/

namespace JSL

variable {orc : Oracle} {inst : Instance}

theorem applyTransition_time {s s' : State} {r r' : Rng} {tr : Transition}
    (h : applyTransition orc inst s r tr = .ok (s', r')) : s'.time = s.time := by
  unfold applyTransition at h
  cases hc : tr.comp with
  | m mid =>
    simp only [hc] at h
    obtain ⟨m0, hm0, h⟩ := except_bind_eq_ok h
    unfold handleMachineTransition at h
    obtain ⟨m, hm, h⟩ := except_bind_eq_ok h
    obtain ⟨hd, hh, h⟩ := except_bind_eq_ok h
    cases hd with
    | idleToSetup => obtain ⟨_, _, _, _, _, _, _, _, _, _, _, _, _, _, _, _, _, _, rfl⟩ := idleToSetup_spec h; rfl
    | setupToWorking => obtain ⟨_, _, _, _, _, _, _, _, _, _, _, _, rfl⟩ := setupToWorking_spec h; rfl
    | workingToOutage => obtain ⟨_, _, _, _, _, _, _, _, _, _, rfl⟩ := workingToOutage_spec h; rfl
    | outageToIdle => obtain ⟨_, _, _, _, _, _, _, _, _, _, _, _, _, rfl⟩ := outageToIdle_spec h; rfl
  | t tid =>
    simp only [hc] at h
    obtain ⟨t0, ht0, h⟩ := except_bind_eq_ok h
    unfold handleTransportTransition at h
    obtain ⟨t, ht, h⟩ := except_bind_eq_ok h
    obtain ⟨tc, _, h⟩ := except_bind_eq_ok h
    split at h
    · simp at h
    · obtain ⟨hd, hh, h⟩ := except_bind_eq_ok h
      cases hd with
      | idleToWorking => obtain ⟨_, _, _, _, _, _, _, _, _, _, _, _, _, _, _, rfl⟩ := idleToWorking_spec h; rfl
      | pickupToWaitingpickup => obtain ⟨_, _, _, _, rfl⟩ := pickupToWaiting_spec h; rfl
      | waitingPickupToWaitingPickup => obtain ⟨_, _, _, rfl⟩ := waitingToWaiting_spec h; rfl
      | outageToIdle => obtain ⟨_, rfl⟩ := agvOutageToIdle_spec h; rfl
      | pickupToTransit =>
        obtain ⟨j, src, dst, tt, bss1, bss2, _, _, _, _, _, hcase⟩ := pickupToTransit_spec h
        rcases hcase with ⟨fb, _, _, _, _, _, rfl⟩ | ⟨mid, ms, bs, ms', _, _, _, _, _, _, _, rfl⟩ <;> rfl
      | transitToOutage =>
        obtain ⟨j, cur, pick, drop, tc, outs, bss1, bss2, _, _, _, _, _, _, _, hcase⟩ := transitToOutage_spec h
        rcases hcase with ⟨mid, ms, _, _, _, _, rfl⟩ | ⟨bid, b, _, _, _, _, rfl⟩ <;> rfl
  | b bid =>
    simp only [hc] at h
    obtain ⟨_, _, h⟩ := except_bind_eq_ok h
    simp at h

end JSL

namespace JSL

variable {orc : Oracle} {inst : Instance}

theorem processTransitions_time : ∀ (L : List Transition) (s : State) (r : Rng) (o : ProcOut),
    processTransitions orc inst L s r = .ok o → o.state.time = s.time ∧ ∀ σ ∈ o.micro, σ.time = s.time
  | [], s, r, o, h => by simp [processTransitions] at h; subst h; simp
  | tr :: trs, s, r, o, h => by
    simp only [processTransitions] at h
    obtain ⟨v, _, h⟩ := except_bind_eq_ok h
    split at h
    · obtain ⟨⟨s1, r1⟩, ha, h⟩ := except_bind_eq_ok h
      obtain ⟨o1, ho1, h⟩ := except_bind_eq_ok h
      simp at h; subst h
      have e := applyTransition_time ha
      have ih := processTransitions_time trs s1 r1 o1 ho1
      refine ⟨by simpa [e] using ih.1, ?_⟩
      intro σ hσ
      simp at hσ
      rcases hσ with rfl | hσ
      · exact e
      · rw [ih.2 σ hσ, e]
    · obtain ⟨o1, ho1, h⟩ := except_bind_eq_ok h
      simp at h; subst h
      exact processTransitions_time trs s r o1 ho1

/-- nothing is due: `create_timed_transitions` yields no transition -/
def Quiet (inst : Instance) (s : State) : Prop := timedTransitions inst s = .ok []

theorem mapM_filterMap_nil {α β} {f : α → Except Err (Option β)} : ∀ {l : List α} {r : List (Option β)},
    l.mapM f = .ok r → r.filterMap id = [] → ∀ a ∈ l, f a = .ok none
  | [], r, _, _ => by simp
  | a :: as, r, h, hn => by
    rw [List.mapM_cons] at h
    obtain ⟨x, hx, h⟩ := except_bind_eq_ok h
    obtain ⟨xs, hxs, h⟩ := except_bind_eq_ok h
    simp at h; subst h
    cases x with
    | some v => simp at hn
    | none =>
      have hn' : xs.filterMap id = [] := by simpa using hn
      intro b hb
      rcases List.mem_cons.mp hb with rfl | hb
      · exact hx
      · exact mapM_filterMap_nil hxs hn' b hb

theorem Quiet.parts {s : State} (h : Quiet inst s) :
    (∀ m ∈ s.machines, timedMachine inst s.time m = .ok none) ∧
    (∀ t ∈ s.transports, timedTransport inst s t = .ok none) := by
  unfold Quiet timedTransitions at h
  obtain ⟨a, ha, h⟩ := except_bind_eq_ok h
  obtain ⟨b, hb, h⟩ := except_bind_eq_ok h
  simp at h
  obtain ⟨rfl, rfl⟩ := h
  unfold timedMachineTransitions at ha
  unfold timedTransportTransitions at hb
  cases hma : s.machines.mapM (timedMachine inst s.time) with
  | error e => simp [hma, Except.map] at ha
  | ok ra =>
    cases hmb : s.transports.mapM (timedTransport inst s) with
    | error e => simp [hmb, Except.map] at hb
    | ok rb =>
      simp [hma, Except.map] at ha
      simp [hmb, Except.map] at hb
      exact ⟨mapM_filterMap_nil hma (by simpa using ha), mapM_filterMap_nil hmb (by simpa using hb)⟩

/-- when nothing is due, every busy machine that holds a job is occupied strictly beyond now -/
theorem Quiet.machine {s : State} (h : Quiet inst s) {m : MachineState} (hm : m ∈ s.machines)
    (hb : m.st ≠ .idle) (hne : m.buffer.store ≠ []) : dueAt m.occ s.time = false := by
  have := h.parts.1 m hm
  unfold timedMachine at this
  cases hd : dueAt m.occ s.time with
  | false => rfl
  | true =>
    exfalso
    simp only [hd, if_true] at this
    cases hst : m.st with
    | idle => exact hb hst
    | setup | working | outage =>
      simp only [hst, machineTimedNext] at this
      cases hs : m.buffer.store with
      | nil => exact hne hs
      | cons j rest => simp [hs] at this

/-- when nothing is due, every busy AGV with a fixed arrival / waiting time has it strictly ahead -/
theorem Quiet.transport {s : State} (h : Quiet inst s) {t : TransportState} (ht : t ∈ s.transports)
    (hb : t.st ≠ .idle) {o : Int} (ho : t.occ = .at o) : s.time < o := by
  have := h.parts.2 t ht
  unfold timedTransport at this
  rw [ho] at this
  simp only at this
  by_cases hle : o ≤ s.time
  · exfalso
    simp only [hle, if_true] at this
    cases hst : t.st with
    | idle => exact hb hst
    | working => simp [hst, agvTimedCreator] at this
    | outage => simp [hst, agvTimedCreator] at this
    | transit =>
      simp only [hst, agvTimedCreator] at this
      split at this
      · obtain ⟨js, _, this⟩ := except_bind_eq_ok this; simp at this
      · simp at this
    | pickup | waitingpickup =>
      simp only [hst, agvTimedCreator] at this
      unfold agvIdleToPickTransition at this
      obtain ⟨jid, _, this⟩ := except_bind_eq_ok this
      obtain ⟨j, _, this⟩ := except_bind_eq_ok this
      obtain ⟨ready, _, this⟩ := except_bind_eq_ok this
      cases ready <;> simp [hst, idleToPickNext] at this
  · omega

/-- the `while timed_transitions` loop: the clock never goes back, and when the loop ends without
failure nothing is due -/
theorem timedLoop_clock (w : WF inst) (nn : NonNeg orc inst) {cfg : SMConfig} :
    ∀ (fuel : Nat) (tt : List Transition) (s : State) (r : Rng) (subs mic : List State) (out : LoopOut),
      StructInv inst s → SchedInv s → Safe s tt → Fresh tt → (tt = [] → Quiet inst s) →
      timedLoop orc inst cfg fuel tt s r subs mic = .ok out →
      s.time ≤ out.state.time ∧ (out.failed = false → Quiet inst out.state) ∧
      (∀ σ ∈ out.subs, σ ∈ subs ∨ s.time ≤ σ.time) ∧ (∀ σ ∈ out.micro, σ ∈ mic ∨ s.time ≤ σ.time) := by
  intro fuel
  induction fuel with
  | zero =>
    intro tt s r subs mic out _ _ _ _ hq h
    cases tt with
    | nil =>
      simp [timedLoop] at h; subst h
      exact ⟨Int.le_refl _, fun _ => hq rfl, fun σ hσ => Or.inl hσ, fun σ hσ => Or.inl hσ⟩
    | cons a as => simp [timedLoop] at h
  | succ n ih =>
    intro tt s r subs mic out hI hS hsafe hfresh hq h
    cases tt with
    | nil =>
      simp [timedLoop] at h; subst h
      exact ⟨Int.le_refl _, fun _ => hq rfl, fun σ hσ => Or.inl hσ, fun σ hσ => Or.inl hσ⟩
    | cons a as =>
      simp only [timedLoop] at h
      obtain ⟨o, ho, h⟩ := except_bind_eq_ok h
      have hp := processTransitions_sched w nn _ _ _ _ hI hS hsafe hfresh ho
      have hpI := processTransitions_struct w _ _ _ _ hI ho
      have hpt := processTransitions_time _ _ _ _ ho
      split at h
      · simp at h; subst h
        refine ⟨by simp [hpt.1], by simp, fun σ hσ => Or.inl hσ, ?_⟩
        intro σ hσ
        rcases List.mem_append.mp hσ with hσ | hσ
        · exact Or.inl hσ
        · right; rw [hpt.2 σ hσ]; exact Int.le_refl _
      · obtain ⟨t, ht, h⟩ := except_bind_eq_ok h
        obtain ⟨tt', htt', h⟩ := except_bind_eq_ok h
        have hadv := jumpToEvent_spec hp.1 ht
        have hS' := hp.1.advance hadv.1 hadv.2
        have hI' := hpI.1.time t
        have hsf := timed_batch_safe w (tele := []) hI' hS' htt' (by simp)
        simp only [List.append_nil] at hsf
        have hle : s.time ≤ t := by rw [← hpt.1]; exact hadv.1
        have := ih _ _ _ _ _ _ hI' hS' hsf.1 hsf.2 (by intro e; subst e; exact htt') h
        refine ⟨Int.le_trans hle this.1, this.2.1, ?_, ?_⟩
        · intro σ hσ
          rcases this.2.2.1 σ hσ with h1 | h1
          · rcases List.mem_append.mp h1 with h1 | h1
            · exact Or.inl h1
            · simp at h1; subst h1; exact Or.inr hle
          · exact Or.inr (Int.le_trans hle h1)
        · intro σ hσ
          rcases this.2.2.2 σ hσ with h1 | h1
          · rcases List.mem_append.mp h1 with h1 | h1
            · exact Or.inl h1
            · right; rw [hpt.2 σ h1]; exact Int.le_refl _
          · exact Or.inr (Int.le_trans hle h1)

/-- **The clock along one `state.step`** with an admissible action from a state satisfying the
invariants: it never goes back – in the returned state (unless the shop is done, when it is
stamped with the makespan), in every sub-state and in the post-state of every applied
transition – and when the step succeeds without finishing the shop, nothing is due. -/
theorem smStep_clock (w : WF inst) (nn : NonNeg orc inst) {cfg : SMConfig} {fuel : Nat} {s0 : State} {r : Rng}
    {a : Action} {res : SMResult} {r' : Rng} {mic : List State} (hI : StructInv inst s0) (hS : SchedInv s0)
    (ha : Admissible a) (h : smStep orc inst cfg fuel s0 r a = .ok (res, r', mic)) :
    (∀ σ ∈ mic, s0.time ≤ σ.time) ∧ (∀ σ ∈ res.subStates, s0.time ≤ σ.time) ∧
      (res.done = false → s0.time ≤ res.state.time) ∧
      (res.success = true → res.done = false → Quiet inst res.state) ∧
      (res.success = true → res.done = false → ∃ p t,
        processTransitions orc inst (sortedByTransport a.transitions) s0 r = .ok p ∧
        runTimeMachine inst cfg p.state a.tm = .ok t ∧ t ≤ res.state.time) := by
  unfold smStep at h
  obtain ⟨p, hp, h⟩ := except_bind_eq_ok h
  have hsf := offerShaped_safe (s := s0) (L := sortedByTransport a.transitions)
    (fun tr htr => ha.shaped tr (mem_sortedByTransport htr))
  have hp' := processTransitions_sched w nn _ _ _ _ hI hS hsf.1 hsf.2 hp
  have hpI := processTransitions_struct w _ _ _ _ hI hp
  have hpt := processTransitions_time _ _ _ _ hp
  have hmic0 : ∀ σ ∈ p.micro, s0.time ≤ σ.time := fun σ hσ => by rw [hpt.2 σ hσ]; exact Int.le_refl _
  split at h
  · simp at h
    obtain ⟨rfl, _, rfl⟩ := h
    exact ⟨hmic0, by simp [hpt.1], fun _ => Int.le_refl _, by simp, by simp⟩
  · simp only at h
    obtain ⟨t, ht, h⟩ := except_bind_eq_ok h
    obtain ⟨timed, htimed, h⟩ := except_bind_eq_ok h
    obtain ⟨poss, hposs, h⟩ := except_bind_eq_ok h
    obtain ⟨tele, htele, h⟩ := except_bind_eq_ok h
    obtain ⟨out, hout, h⟩ := except_bind_eq_ok h
    have hadv := runTimeMachine_spec hp'.1 ha.tm ht
    have hS1 := hp'.1.advance hadv.1 hadv.2
    have hI1 := hpI.1.time t
    have hbatch := timed_batch_safe w hI1 hS1 htimed (filterTeleport_shape hposs htele)
    have hle : s0.time ≤ t := by rw [← hpt.1]; exact hadv.1
    have hq : timed ++ tele = [] → Quiet inst { p.state with time := t } := by
      intro e
      have : timed = [] := (List.append_eq_nil_iff.mp e).1
      subst this; exact htimed
    have hl := timedLoop_clock w nn _ _ _ _ _ _ _ hI1 hS1 hbatch.1 hbatch.2 hq hout
    have hsubs : ∀ σ ∈ out.subs, s0.time ≤ σ.time := by
      intro σ hσ
      rcases hl.2.2.1 σ hσ with h1 | h1
      · simp at h1; subst h1; simp [hpt.1]
      · exact Int.le_trans hle h1
    have hmics : ∀ σ ∈ out.micro, s0.time ≤ σ.time := by
      intro σ hσ
      rcases hl.2.2.2 σ hσ with h1 | h1
      · exact hmic0 σ h1
      · exact Int.le_trans hle h1
    split at h
    · simp at h
      obtain ⟨rfl, _, rfl⟩ := h
      exact ⟨hmics, hsubs, fun _ => Int.le_refl _, by simp, by simp⟩
    · rename_i hnf
      split at h
      · obtain ⟨e, _, h⟩ := except_bind_eq_ok h
        simp at h
        obtain ⟨rfl, _, rfl⟩ := h
        exact ⟨hmics, fun σ hσ => hsubs σ ((List.dropLast_sublist _).subset hσ), by simp, by simp, by simp⟩
      · obtain ⟨poss', _, h⟩ := except_bind_eq_ok h
        simp at h
        obtain ⟨rfl, _, rfl⟩ := h
        exact ⟨hmics, fun σ hσ => hsubs σ ((List.dropLast_sublist _).subset hσ),
          fun _ => Int.le_trans hle hl.1, fun _ _ => hl.2.1 (by simpa using hnf),
          fun _ _ => ⟨p, t, hp, ht, hl.1⟩⟩

end JSL
