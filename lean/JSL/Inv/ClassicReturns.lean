import JSL.Inv.ClassicIface
import JSL.Props.C06
import JSL.Props.C12
import JSL.Props.C18

/-!
# Classic runs: target-free consequences of the totality plumbing

* `classic_step_returns`, `classic_reset_returns`, `classic_run_invariant` – no step of a classic run
  ever raises;
* `classic_dispatch_accept` – Stage B: a dispatch can always be completed;
* `classic_decline_last` – Stage C: declining the last offer moves the clock to the earliest end of a
  running operation.
-/

namespace JSL

variable {orc : Oracle} {inst : Instance} {ec : EnvCfg} {st : RewardStatic} {s0 : State}

/-- `state.step` from a state with the invariants returns successfully, and its result holds offers or
has the shop finished (the trivial property: pure totality) -/
theorem classic_smStep_returns (hR : ClassicRun orc inst ec st s0) {s : State}
    (hI : StructInv inst s) (hS : SchedInv s) (hP : Bundle inst s ∧ DurInv inst s) {r : Rng} {a : Action}
    (ha : Admissible a) (hadm : AdmOffer inst ec.sm s a)
    (hact : a.transitions = [] ∨ ∃ tr, a.transitions = [tr] ∧ transitionValid s tr = .ok true ∧
        ∃ s' r', applyTransition orc inst s r tr = .ok (s', r')) :
    ∃ res r' mic, smStep orc inst ec.sm ec.fuel s r a = .ok (res, r', mic) ∧ res.success = true ∧
      (res.possible ≠ [] ∨ isDone inst res.state = true) := by
  have hC := hR.classic
  obtain ⟨res, r', mic, hs, hsuc, _, _, _, _⟩ :=
    smStep_total (CPass orc inst ec.sm hR.wf hR.nn hC hR.early) (cpass_total_true hR.wf hR.nn hC hR.early) hR.wf hR.nn
      hI hS hP ha hadm hR.fuel hact (fun _ _ _ => trivial) (fun _ _ _ _ _ => trivial)
  refine ⟨res, r', mic, hs, hsuc, ?_⟩
  rcases (smStep_spec hs).2 with h1 | h1 | h1
  · rw [h1.1] at hsuc; cases hsuc
  · exact Or.inr h1.2.2.2
  · have hnodep : NoDep s := fun t ht hb => by
      obtain ⟨c, hc, _⟩ := hP.1.cinv.agvDue t ht hb; exact ⟨c, hc⟩
    exact Or.inl (smStep_offers hR.wf hR.nn hC.flex hC.hasAgv hI hS ⟨hP.1.full, hnodep⟩ ha hadm hs hsuc h1.2.1)

/-- accepting the head offer in a classic run: `env.step` returns the result of a `state.step` that
returns successfully -/
theorem classic_accept_core (hR : ClassicRun orc inst ec st s0) {e : EnvState} (h : EnvReach orc inst ec st s0 e)
    (hd : e.done = false) (hj : 0 ≤ e.mw.joker) {tr : Transition} {rest : List Transition}
    (hp : e.res.possible = tr :: rest) :
    ∃ out res' r' mic, envStep orc inst ec st e .accept = .ok out ∧
      smStep orc inst ec.sm ec.fuel e.res.state e.rng { transitions := [tr], noOp := false, tm := .jumpToEvent } =
        .ok (res', r', mic) ∧
      out.env.res = res' ∧ res'.success = true ∧ out.env.truncated = false ∧ out.env.mw.joker = e.mw.joker ∧
      out.env.terminated = isDone inst res'.state ∧ out.env.done = isDone inst res'.state ∧
      (res'.possible ≠ [] ∨ isDone inst res'.state = true) := by
  have hC := hR.classic
  have hst := hR.start
  have w := hR.wf
  have hne : e.res.possible ≠ [] := by rw [hp]; simp
  obtain ⟨hI, hS, hB, hD⟩ := envReach_live hR h hne
  have hi := envReach_inv hst h
  obtain ⟨poss, hposs, hsub⟩ := hi.offersFrom hne
  have hl := hi.live hne
  have htr : tr ∈ e.res.possible := by rw [hp]; simp
  have hadmA : Admissible { transitions := [tr], noOp := false, tm := .jumpToEvent } :=
    ⟨fun x hx => by simp at hx; subst hx; exact hl.2 x htr, by simp⟩
  have hadmO : AdmOffer inst ec.sm e.res.state { transitions := [tr], noOp := false, tm := .jumpToEvent } :=
    Or.inr ⟨poss, hposs, tr, hsub tr htr, rfl⟩
  have hv := offers_valid w hI hS hposs tr (hsub tr htr)
  obtain ⟨s1, r1, happ⟩ :=
    env_offer_applies hst hC.tables (readyB_sound (classicStartB_facts hR.startOK).1) h tr htr
  obtain ⟨res', r', mic, hs, hs', hoff⟩ :=
    classic_smStep_returns hR hI hS ⟨hB, hD⟩ (r := e.rng) hadmA hadmO (Or.inr ⟨tr, rfl, hv, s1, r1, happ⟩)
  obtain ⟨out, hout, e1, e2, e3, e4, e5, _⟩ :=
    envStep_accept_of_smStep (st := st) hd hR.numOps hR.norm hj hp hs hs'
  exact ⟨out, res', r', mic, hout, hs, e1, hs', e2, e5, e3, e4, hoff⟩

/-- declining the last offer in a classic run: `env.step` returns the result of a `state.step` with the
forced jump that returns successfully -/
theorem classic_decline_last_core (hR : ClassicRun orc inst ec st s0) {e : EnvState}
    (h : EnvReach orc inst ec st s0 e) (hd : e.done = false) (hj : 0 ≤ e.mw.joker) {tr : Transition}
    (hp : e.res.possible = [tr]) :
    ∃ out res' r' mic, envStep orc inst ec st e .decline = .ok out ∧
      smStep orc inst ec.sm ec.fuel e.res.state e.rng { transitions := [], noOp := true, tm := .forceJump } =
        .ok (res', r', mic) ∧
      out.env.res = res' ∧ res'.success = true ∧ out.env.truncated = false ∧ out.env.mw.joker = e.mw.joker ∧
      out.env.terminated = isDone inst res'.state ∧ out.env.done = isDone inst res'.state ∧
      (res'.possible ≠ [] ∨ isDone inst res'.state = true) := by
  have hne : e.res.possible ≠ [] := by rw [hp]; simp
  obtain ⟨hI, hS, hB, hD⟩ := envReach_live hR h hne
  have hadmA : Admissible { transitions := [], noOp := true, tm := .forceJump } :=
    ⟨fun x hx => by simp at hx, by simp⟩
  obtain ⟨res', r', mic, hs, hs', hoff⟩ :=
    classic_smStep_returns hR hI hS ⟨hB, hD⟩ (r := e.rng) hadmA (Or.inl rfl) (Or.inl rfl)
  obtain ⟨out, hout, e1, e2, e3, e4, e5, _⟩ :=
    envStep_decline_last_of_smStep (st := st) hd hR.numOps hR.norm hj hR.trunc hp hs hs' hoff
  exact ⟨out, res', r', mic, hout, hs, e1, hs', e2, e5, e3, e4, hoff⟩

/-! ## (1) no step of a classic run ever raises -/

theorem classic_step_returns (hR : ClassicRun orc inst ec st s0) {e : EnvState} (h : EnvReach orc inst ec st s0 e)
    (hd : e.done = false) (hs : e.res.success = true) (hj : 0 ≤ e.mw.joker) (a : AgentAct)
    (ha : a = .accept ∨ a = .decline) :
    ∃ out, envStep orc inst ec st e a = .ok out ∧ out.env.res.success = true ∧ out.env.truncated = false ∧
      out.env.mw.joker = e.mw.joker ∧ out.env.terminated = isDone inst out.env.res.state ∧
      out.env.done = isDone inst out.env.res.state := by
  obtain ⟨hne, _⟩ := classic_offers hR h hd hs (envReach_running hR h hd).2
  cases hp : e.res.possible with
  | nil => exact absurd hp hne
  | cons tr rest =>
    rcases ha with rfl | rfl
    · obtain ⟨out, res', _, _, hout, _, e1, hs', e2, e5, e3, e4, _⟩ := classic_accept_core hR h hd hj hp
      subst e1
      exact ⟨out, hout, hs', e2, e5, e3, e4⟩
    · cases rest with
      | cons o' rest' =>
        obtain ⟨out, hout, e1, e2, e3, e4, e5, _⟩ :=
          envStep_decline_many_total (orc := orc) (inst := inst) (ec := ec) (st := st) hd hR.numOps hR.norm hj hp
        refine ⟨out, hout, by rw [e1], e2, e5, by rw [e3, e1], by rw [e4, e1]⟩
      | nil =>
        obtain ⟨out, res', _, _, hout, _, e1, hs', e2, e5, e3, e4, _⟩ := classic_decline_last_core hR h hd hj hp
        subst e1
        exact ⟨out, hout, hs', e2, e5, e3, e4⟩

theorem classic_reset_returns (hR : ClassicRun orc inst ec st s0) (r0 : Rng) :
    ∃ e0 mic, envReset orc inst ec s0 r0 = .ok (e0, mic) ∧ e0.res.success = true ∧ e0.done = false ∧
      0 ≤ e0.mw.joker := by
  obtain ⟨res, r', mic, hs, hsuc, _⟩ :=
    classic_smStep_returns hR hR.struct0 hR.sched0 (cpass_init hR) (r := r0) admissible_noOp (Or.inl rfl) (Or.inl rfl)
  have hreset : envReset orc inst ec s0 r0 =
      .ok ({ res := res, histLen := 0, histNoOps := 0, lastNoOp := false, terminated := false, truncated := false,
             done := false, mw := { joker := ec.mw.jokerInit, noOpCnt := 0, actCnt := 0 }, rng := r', rwCnt := 0 },
           mic) := by
    simp [envReset, mwReset, hs]
  exact ⟨_, _, hreset, hsuc, rfl, hR.joker⟩

/-- the invariant kept along an episode: successful result, allowance not negative.  The state after
a step of (1) is again reachable, and – unless the episode is over – satisfies the hypotheses of (1). -/
theorem classic_run_invariant (hR : ClassicRun orc inst ec st s0) {e : EnvState} (h : EnvReach orc inst ec st s0 e)
    (hd : e.done = false) (hs : e.res.success = true) (hj : 0 ≤ e.mw.joker) (a : AgentAct)
    (ha : a = .accept ∨ a = .decline) :
    ∃ out, envStep orc inst ec st e a = .ok out ∧ EnvReach orc inst ec st s0 out.env ∧
      out.env.res.success = true ∧ 0 ≤ out.env.mw.joker ∧ out.env.truncated = false ∧
      out.env.done = isDone inst out.env.res.state := by
  obtain ⟨out, hout, h1, h2, h3, _, h5⟩ := classic_step_returns hR h hd hs hj a ha
  exact ⟨out, hout, EnvReach.step h hout, h1, by rw [h3]; exact hj, h2, h5⟩

/-! ## (2) Stage B: a dispatch can always be completed -/

theorem classic_dispatch_accept (hR : ClassicRun orc inst ec st s0) {e : EnvState} (h : EnvReach orc inst ec st s0 e)
    (hd : e.done = false) (hs : e.res.success = true) (hj : 0 ≤ e.mw.joker) {tr : Transition} {rest : List Transition}
    (hp : e.res.possible = tr :: rest) (hdisp : tr.new = .t .working) :
    ∃ out, envStep orc inst ec st e .accept = .ok out ∧ out.env.truncated = false ∧
      NoStartSince e.res.state out.env.res.state ∧
      (out.env.done = false → out.env.res.possible ≠ [] ∧
        ∀ t ∈ out.env.res.state.transports, t.st = .idle ∧ t.job = none ∧ t.buffer.store = []) := by
  have _ := hs
  obtain ⟨out, res', r', mic, hout, hsm, e1, hs', e2, _, _, e4, hoff⟩ := classic_accept_core hR h hd hj hp
  have hne : e.res.possible ≠ [] := by rw [hp]; simp
  obtain ⟨hI, hS, _, _⟩ := envReach_live hR h hne
  have hl := (envReach_inv hR.start h).live hne
  have htr : tr ∈ e.res.possible := by rw [hp]; simp
  have hadmA : Admissible { transitions := [tr], noOp := false, tm := .jumpToEvent } :=
    ⟨fun x hx => by simp at hx; subst hx; exact hl.2 x htr, by simp⟩
  have hns : NoSetup ({ transitions := [tr], noOp := false, tm := .jumpToEvent } : Action).transitions := by
    intro x hx
    simp at hx; subst hx
    rw [hdisp]; simp
  have hno := (smStep_starts_nothing hR.wf hR.nn (preFlex_of_classic hR.classic) hI hS hadmA hns hsm).1
  subst e1
  refine ⟨out, hout, e2, hno, fun hdone => ?_⟩
  have hnd : isDone inst out.env.res.state = false := by rw [← e4]; exact hdone
  have hne' : out.env.res.possible ≠ [] := by
    rcases hoff with h1 | h1
    · exact h1
    · rw [hnd] at h1; cases h1
  exact ⟨hne', (classic_settled hR (EnvReach.step h hout) hne').1⟩

/-! ## (3) Stage C: declining everything moves the clock to the earliest end of a running operation -/

theorem classic_decline_last (hR : ClassicRun orc inst ec st s0) {e : EnvState} (h : EnvReach orc inst ec st s0 e)
    (hd : e.done = false) (hs : e.res.success = true) (hj : 0 ≤ e.mw.joker) {tr : Transition}
    (hp : e.res.possible = [tr]) :
    ∃ out t, envStep orc inst ec st e .decline = .ok out ∧ out.env.truncated = false ∧
      NoStartSince e.res.state out.env.res.state ∧ forceJump e.res.state = .ok t ∧ e.res.state.time < t ∧
      (out.env.done = false → t ≤ out.env.res.state.time) ∧
      ((∃ j ∈ e.res.state.jobs, ∃ o ∈ j.ops, o.st = .processing ∧ o.stop = some t ∧
          ∀ j' ∈ e.res.state.jobs, ∀ o' ∈ j'.ops, o'.st = .processing → ∀ b, o'.stop = some b → t ≤ b) ∨
       ((∀ j ∈ e.res.state.jobs, ∀ o ∈ j.ops, o.st ≠ .processing) ∧ t = e.res.state.time + 1)) := by
  have _ := hs
  obtain ⟨out, res', r', mic, hout, hsm, e1, hs', e2, _, _, e4, _⟩ := classic_decline_last_core hR h hd hj hp
  have hne : e.res.possible ≠ [] := by rw [hp]; simp
  obtain ⟨hI, hS, hB, _⟩ := envReach_live hR h hne
  have hidle := (classic_settled hR h hne).1
  have hadmA : Admissible { transitions := [], noOp := true, tm := .forceJump } :=
    ⟨fun x hx => by simp at hx, by simp⟩
  have hno := (smStep_starts_nothing hR.wf hR.nn (preFlex_of_classic hR.classic) hI hS hadmA
    (by simp; exact NoSetup.nil) hsm).1
  obtain ⟨t, ht⟩ := forceJump_total hS (fun x hx hb => absurd (hidle x hx).1 hb)
  have hlt := c12_forced_jump_strict hR.start h hne ht
  obtain ⟨_, hmin, _, hcase⟩ := c12_jump_exact hS ht
  subst e1
  refine ⟨out, t, hout, e2, hno, ht, hlt, fun hdone => ?_, ?_⟩
  · have hnd : isDone inst out.env.res.state = false := by rw [← e4]; exact hdone
    have hrd : out.env.res.done = false := by
      rcases (smStep_spec hsm).2 with h1 | h1 | h1
      · exact h1.2.1
      · rw [hnd] at h1; cases h1.2.2.2
      · exact h1.2.1
    obtain ⟨p, t', hp', ht', hle⟩ := (smStep_clock hR.wf hR.nn hI hS hadmA hsm).2.2.2.2 hs' hrd
    have hps := process_nil_state hp'
    rw [hps] at ht'
    simp only [runTimeMachine] at ht'
    rw [ht] at ht'
    cases ht'
    exact hle
  · rcases hcase with ⟨j, hjm, o, ho, hst, hstop⟩ | ⟨x, hx, hb, _⟩ | ⟨h1, _, h3⟩
    · exact Or.inl ⟨j, hjm, o, ho, hst, hstop, hmin⟩
    · exact absurd (hidle x hx).1 hb
    · exact Or.inr ⟨h1, h3⟩

end JSL
