import JSL.Model.Obs

/-!
# Canonical rendering shared (by specification) with `harness/canon.py`
-/

namespace JSL

def optInt : Option Int → String
  | none => "-"
  | some i => toString i

def Loc.canon : Loc → String
  | .m n => s!"m{n}"
  | .b n => s!"b{n}"

def Comp.canon : Comp → String
  | .m n => s!"m{n}"
  | .t n => s!"t{n}"
  | .b n => s!"b{n}"

def NewSt.canon : NewSt → String
  | .m s => "M." ++ s.pyName
  | .t s => "T." ++ s.pyName

def Transition.canon (t : Transition) : String :=
  s!"{t.comp.canon}>{t.new.canon}:{match t.job with | some j => toString j | none => "-"}"

def joinWith (sep : String) (l : List String) : String := sep.intercalate l

def BufState.canon (b : BufState) : String :=
  s!"{b.id}/{b.bss.pyName}/[{joinWith "," (b.store.map toString)}]"

def OutageState.canon (o : OutageState) : String :=
  match o.st with
  | .active s e => s!"{o.id}:A:{s}:{e}"
  | .inactive l => s!"{o.id}:I:{optInt l}"

def outsCanon (l : List OutageState) : String := "{" ++ joinWith "," (l.map (·.canon)) ++ "}"

def OpState.canon (o : OpState) : String :=
  s!"({o.idx},{o.st.pyName},{optInt o.start},{optInt o.stop},{o.machine})"

def JobState.canon (j : JobState) : String :=
  s!"J{j.id}@{j.loc}:{joinWith "" (j.ops.map (·.canon))}"

def MachineState.canon (m : MachineState) : String :=
  s!"M{m.id},{m.st.pyName},{optInt m.occ},{m.tool},pre={m.pre.canon},buf={m.buffer.canon},post={m.post.canon},out={outsCanon m.outages}"

def Occ.canon : Occ → String
  | .none => "-"
  | .at t => toString t
  | .dep b j tr => s!"dep({b},{j},{tr.canon})"

def TLoc.canon : TLoc → String
  | .at l => l.canon
  | .route c p d => s!"({c.canon},b{p},{d.canon})"

def TransportState.canon (t : TransportState) : String :=
  s!"T{t.id},{t.st.pyName},{t.occ.canon},{t.loc.canon},{match t.job with | some j => toString j | none => "-"},buf={t.buffer.canon},out={outsCanon t.outages}"

def State.canon (s : State) : String :=
  s!"t={s.time}|{joinWith ";" (s.jobs.map (·.canon))}|{joinWith ";" (s.machines.map (·.canon))}|{joinWith ";" (s.transports.map (·.canon))}|{joinWith ";" (s.buffers.map fun b => "B" ++ b.canon)}"

def offersCanon (l : List Transition) : String := joinWith " " (l.map (·.canon))

def b01 (b : Bool) : String := if b then "1" else "0"

def ratCanon (q : Rat) : String := s!"{q.num}/{q.den}"

end JSL
