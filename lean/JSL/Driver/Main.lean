import JSL.Driver.Canon
import JSL.Model.Check
import JSL.Model.ObsSpace
import JSL.Model.Guards
import JSL.Model.Compile
import JSL.Model.Classic
import JSL.Model.Roomy
import JSL.Model.FuelBound

/-!
# Line-protocol driver

Reads scenario descriptions and commands from stdin, runs the executable model, prints one
canonical line per observable.  See `harness/proto.py` for the writer of the same protocol.
-/

open JSL

structure Scen where
  jobs : Array JobCfg := #[]
  travel : Array ((Loc × Loc) × TimeCfg) := #[]
  machines : Array MachineCfg := #[]
  buffers : Array BufCfg := #[]
  transports : Array TransportCfg := #[]
  orc : Array (Array Int) := #[]
  time : Int := 0
  sjobs : Array JobState := #[]
  smachines : Array MachineState := #[]
  stransports : Array TransportState := #[]
  sbuffers : Array BufState := #[]
  cfg : EnvCfg := { sm := ⟨true⟩, mw := ⟨5, false⟩, rw := ⟨1, 0, -1⟩, fuel := 100000 }
  obsKind : Nat := 0     -- 0 binary-simple, 1 binary-oparray
  env : Option EnvState := none

def ints (l : List String) : List Int := l.map fun s => s.toInt?.getD 0
def nat (i : Int) : Nat := i.toNat

def mkTC (a b : Int) : TimeCfg := if a == 0 then .det b else .stoch (nat b)
def mkLoc (a b : Int) : Loc := if a == 0 then .m (nat b) else .b (nat b)
def mkComp (a b : Int) : Option Comp :=
  if a == 0 then some (.m (nat b)) else if a == 1 then some (.t (nat b))
  else if a == 2 then some (.b (nat b)) else none
def mkBufType (i : Int) : BufType := BufType.all.getD (nat i) default
def mkBufRole (i : Int) : BufRole := BufRole.all.getD (nat i) default
def mkBSS (i : Int) : BSS := BSS.all.getD (nat i) default
def mkMSt (i : Int) : MSt := MSt.all.getD (nat i) default
def mkTSt (i : Int) : TSt := TSt.all.getD (nat i) default
def mkOSt (i : Int) : OSt := OSt.all.getD (nat i) default
def mkTrType (i : Int) : TrType := TrType.all.getD (nat i) default

def mkBufCfg : List Int → BufCfg
  | [id, ty, cap, role, pk, pn] =>
    { id := nat id, type := mkBufType ty, cap := cap, role := mkBufRole role, parent := mkComp pk pn }
  | _ => default

def mkBufState : List Int → BufState
  | id :: bss :: _n :: js => { id := nat id, bss := mkBSS bss, store := js.map nat }
  | _ => default

def mkOutSt (kind a b : Int) : OutSt :=
  if kind == 0 then .inactive none else if kind == 1 then .inactive (some a) else .active a b

def optI (has v : Int) : Option Int := if has == 0 then none else some v

def updArr {α} (a : Array α) (p : α → Bool) (f : α → α) : Array α := a.map fun x => if p x then f x else x

def Scen.instance (sc : Scen) : Instance :=
  { jobs := sc.jobs.toList, travel := sc.travel.toList, machines := sc.machines.toList,
    buffers := sc.buffers.toList, transports := sc.transports.toList }

def Scen.state (sc : Scen) : State :=
  { jobs := sc.sjobs.toList, time := sc.time, machines := sc.smachines.toList,
    transports := sc.stransports.toList, buffers := sc.sbuffers.toList }

def Scen.oracle (sc : Scen) : Oracle := fun sid k =>
  match sc.orc[sid]? with
  | some row => row.getD k (row.getD (row.size - 1) 0)
  | none => 0

def Scen.rewardStatic (sc : Scen) (r : Rng) : Except Err RewardStatic := do
  let inst := sc.instance
  let sched := schedOf sc.oracle r inst
  let lb ← match lowerBound sched with | some l => pure l | none => throw .valueError
  pure { tmax := maxAllowedTime sched, lb := lb, numJobs := inst.jobs.length,
         numOps := (inst.jobs.flatMap (·.ops)).length }

def header (sc : Scen) (key : String) (v : List Int) : Option Scen :=
  match key, v with
  | "JOB", [id] => some { sc with jobs := sc.jobs.push { id := nat id, ops := [] } }
  | "OP", [job, idx, machine, tool, a, b] =>
    some { sc with jobs := updArr sc.jobs (·.id == nat job) fun j =>
      { j with ops := j.ops ++ [{ job := nat job, idx := nat idx, machine := nat machine,
                                   dur := mkTC a b, tool := nat tool }] } }
  | "TRAVEL", [a0, a1, b0, b1, c, d] =>
    some { sc with travel := sc.travel.push ((mkLoc a0 a1, mkLoc b0 b1), mkTC c d) }
  | "MACH", id :: rest =>
    let m : MachineCfg := {
      id := nat id, outages := [], setup := [], pre := mkBufCfg (rest.take 6),
      buf := mkBufCfg ((rest.drop 6).take 6), post := mkBufCfg ((rest.drop 12).take 6) }
    some { sc with machines := sc.machines.push m }
  | "MOUT", [mid, oid, f0, f1, d0, d1] =>
    some { sc with machines := updArr sc.machines (·.id == nat mid) fun m =>
      { m with outages := m.outages ++ [{ id := nat oid, freq := mkTC f0 f1, dur := mkTC d0 d1 }] } }
  | "MSETUP", [mid, o, n, a, b] =>
    some { sc with machines := updArr sc.machines (·.id == nat mid) fun m =>
      { m with setup := m.setup ++ [((nat o, nat n), mkTC a b)] } }
  | "BUF", l => some { sc with buffers := sc.buffers.push (mkBufCfg l) }
  | "TR", id :: ty :: rest =>
    let t : TransportCfg := { id := nat id, type := mkTrType ty, outages := [], buf := mkBufCfg rest }
    some { sc with transports := sc.transports.push t }
  | "TOUT", [tid, oid, f0, f1, d0, d1] =>
    some { sc with transports := updArr sc.transports (·.id == nat tid) fun t =>
      { t with outages := t.outages ++ [{ id := nat oid, freq := mkTC f0 f1, dur := mkTC d0 d1 }] } }
  | "ORC", sid :: vals =>
    let a := sc.orc
    let a := if a.size ≤ nat sid then a ++ Array.replicate (nat sid + 1 - a.size) #[] else a
    some { sc with orc := a.set! (nat sid) vals.toArray }
  | "TIME", [t] => some { sc with time := t }
  | "SJOB", [id, loc] => some { sc with sjobs := sc.sjobs.push { id := nat id, ops := [], loc := nat loc } }
  | "SOP", [job, idx, st, hs, s, he, e, machine] =>
    some { sc with sjobs := updArr sc.sjobs (·.id == nat job) fun j =>
      { j with ops := j.ops ++ [{ job := nat job, idx := nat idx, start := optI hs s, stop := optI he e,
                                   machine := nat machine, st := mkOSt st }] } }
  | "SMACH", [id, st, ho, o, tool] =>
    let m : MachineState := {
      id := nat id, buffer := default, occ := optI ho o, pre := default,
      post := default, st := mkMSt st, tool := nat tool, outages := [] }
    some { sc with smachines := sc.smachines.push m }
  | "SBUFM", mid :: which :: rest =>
    some { sc with smachines := updArr sc.smachines (·.id == nat mid) fun m =>
      let b := mkBufState rest
      if which == 0 then { m with pre := b } else if which == 1 then { m with buffer := b }
      else { m with post := b } }
  | "SMOUTS", [mid, oid, k, a, b] =>
    some { sc with smachines := updArr sc.smachines (·.id == nat mid) fun m =>
      { m with outages := m.outages ++ [{ id := nat oid, st := mkOutSt k a b }] } }
  | "STR", [id, st, ok, o, lk, ln, hj, j] =>
    let t : TransportState := {
      st := mkTSt st, id := nat id, occ := if ok == 0 then .none else .at o,
      buffer := default, loc := .at (mkLoc lk ln), outages := [],
      job := if hj == 0 then none else some (nat j) }
    some { sc with stransports := sc.stransports.push t }
  | "SBUFT", tid :: rest =>
    some { sc with stransports := updArr sc.stransports (·.id == nat tid) fun t =>
      { t with buffer := mkBufState rest } }
  | "STOUTS", [tid, oid, k, a, b] =>
    some { sc with stransports := updArr sc.stransports (·.id == nat tid) fun t =>
      { t with outages := t.outages ++ [{ id := nat oid, st := mkOutSt k a b }] } }
  | "SBUF", l => some { sc with sbuffers := sc.sbuffers.push (mkBufState l) }
  | "CFG", [ae, jk, ta, sn, sd, dn, dd, tn, td, fuel, ok] =>
    some { sc with cfg := { sm := ⟨ae != 0⟩, mw := ⟨jk, ta != 0⟩,
                            rw := ⟨(sn : Rat) / (sd : Rat), (dn : Rat) / (dd : Rat), (tn : Rat) / (td : Rat)⟩,
                            fuel := nat fuel }, obsKind := nat ok }
  | _, _ => none

def printErr (e : Err) : IO Unit := IO.println s!"X {e.pyName}"

def listCanon {α} (f : α → String) (l : List α) : String := joinWith "," (l.map f)

def printObs (sc : Scen) (res : SMResult) (done : Bool) (st : RewardStatic) : IO Unit := do
  let inst := sc.instance
  if sc.obsKind == 0 then
    match simpleObs inst.machines.length st.tmax res.state with
    | .error e => IO.println s!"VX {e.pyName}"
    | .ok o =>
      match currentTransition inst res.state.jobs.length res done with
      | .error e => IO.println s!"VX {e.pyName}"
      | .ok (a, b, c) =>
        IO.println s!"V jr={listCanon b01 o.jobRunning} jem={joinWith ";" (o.jobExecutedOnMachine.map (listCanon b01))} jp={listCanon toString o.jobProgression} mr={listCanon b01 o.machineRunning} mp={listCanon toString o.machineProgression} av={listCanon b01 o.availableJobs} ct={ratCanon o.currentTime} tr={ratCanon a},{ratCanon b},{ratCanon c} in={b01 (o.inSpaceB inst.jobs.length inst.machines.length (maxOpsPerJob inst) (maxOpsPerMachine inst))}"
  else
    match opArrayObs inst res.state with
    | .error e => IO.println s!"VX {e.pyName}"
    | .ok (ops, locs) =>
      match currentTransition inst inst.jobs.length res done with
      | .error e => IO.println s!"VX {e.pyName}"
      | .ok (a, b, c) =>
        IO.println s!"V os={listCanon ratCanon ops} jl={listCanon ratCanon locs} tr={ratCanon a},{ratCanon b},{ratCanon c}"

def printRes (res : SMResult) : IO Unit := do
  IO.println s!"S {res.state.canon}"
  IO.println s!"O {offersCanon res.possible}"
  IO.println s!"A {b01 res.success} {b01 res.done} {offersCanon res.action.transitions} {res.subStates.length}"

def mkTransition : List Int → Option Transition
  | [ck, cn, nk, ns, hj, j] => do
    let c ← mkComp ck cn
    pure { comp := c, new := if nk == 0 then .m (mkMSt ns) else .t (mkTSt ns),
           job := if hj == 0 then none else some (nat j) }
  | _ => none

partial def chunks (n : Nat) (l : List Int) : List (List Int) :=
  if l.isEmpty || n == 0 then [] else l.take n :: chunks n (l.drop n)

def command (sc : Scen) (key : String) (v : List Int) : IO Scen := do
  let inst := sc.instance
  let orc := sc.oracle
  match key, v with
  | "RESET", _ =>
    let r0 : Rng := fun _ => 0
    match sc.rewardStatic r0 with
    | .error e => printErr e; pure { sc with env := none }
    | .ok st =>
      match envReset orc inst sc.cfg sc.state r0 with
      | .error e => printErr e; pure { sc with env := none }
      | .ok (env, mic) =>
        IO.println s!"G {b01 (wfB inst)} {b01 (shapeB inst sc.state)} {b01 (conservedB sc.state)} {b01 (capB inst sc.state)} {b01 (restB sc.state)} {b01 (placedB inst sc.state)} {b01 (nonnegB inst)} {b01 (sc.orc.all fun row => row.all fun v => decide (0 ≤ v))} {b01 (detInstB inst)} {b01 (noOutagesB inst)} {b01 (tablesTotalB inst)} {b01 (readyB inst sc.state)} {b01 (outRestB sc.state)} {b01 (outPastB sc.state)} {b01 (flexInstB inst)} {b01 (hasAgvB inst)} {b01 (totalClassB inst sc.state)} {b01 (classicInstB inst)} {b01 (fuelOKB inst sc.cfg.fuel)}"
        IO.println s!"L {st.lb} {st.tmax}"
        if sc.obsKind == 0 then
          IO.println s!"B {inst.jobs.length} {inst.machines.length} {maxOpsPerJob inst} {maxOpsPerMachine inst} 1"
        for s in mic do IO.println s!"T {s.canon}"
        printRes env.res
        printObs sc env.res false st
        pure { sc with env := some env }
  | "KCLASSIC", _ =>
    -- the hypotheses of the C06 reachability theorems that depend on the instance: class, start, fuel
    IO.println s!"K {b01 (classicInstB inst)} {b01 (classicStartModelB inst sc.state)} {b01 (classicFuelB inst sc.cfg.fuel)} {b01 (classicFuelEarlyB inst sc.cfg.fuel)} {b01 (enoughAgvsB inst)}"
    pure sc
  | "ACT", [a] =>
    match sc.env with
    | none => IO.println "X NoEnv"; pure sc
    | some env =>
      let r0 : Rng := fun _ => 0
      match sc.rewardStatic r0 with
      | .error e => printErr e; pure sc
      | .ok st =>
        let act : AgentAct := if a == 0 then .decline else if a == 1 then .accept else .outside
        match envStep orc inst sc.cfg st env act with
        | .error e => printErr e; pure sc
        | .ok out =>
          for s in out.micro do IO.println s!"T {s.canon}"
          printRes out.env.res
          printObs sc out.obsRes out.obsDone st
          IO.println s!"F {b01 out.env.terminated} {b01 out.env.truncated} {optInt out.makespan} {out.env.mw.joker} {out.env.histLen} {out.env.histNoOps}"
          IO.println s!"R {ratCanon out.reward}"
          pure { sc with env := some out.env }
  | "SMSTEP", tm :: rest =>
    -- core `state.step` API on the current env state (does not update the env)
    match sc.env with
    | none => IO.println "X NoEnv"; pure sc
    | some env =>
      let trs := (chunks 6 rest).filterMap mkTransition
      let a : Action := { transitions := trs, noOp := trs.isEmpty,
                          tm := if tm == 0 then .jumpByOne else if tm == 1 then .jumpToEvent else .forceJump }
      match smStep orc inst sc.cfg.sm sc.cfg.fuel env.res.state env.rng a with
      | .error e => printErr e; pure sc
      | .ok (res, r, mic) =>
        -- the stochastic objects live in the instance: their update counters persist
        for s in mic do IO.println s!"T {s.canon}"
        printRes res
        pure { sc with env := some { env with rng := r } }
  | "SMAPPLY", tm :: rest =>
    -- like SMSTEP but the env adopts the result (multi-transition actions through the core API)
    match sc.env with
    | none => IO.println "X NoEnv"; pure sc
    | some env =>
      let trs := (chunks 6 rest).filterMap mkTransition
      let a : Action := { transitions := trs, noOp := trs.isEmpty,
                          tm := if tm == 0 then .jumpByOne else if tm == 1 then .jumpToEvent else .forceJump }
      match smStep orc inst sc.cfg.sm sc.cfg.fuel env.res.state env.rng a with
      | .error e => printErr e; pure sc
      | .ok (res, r, mic) =>
        for s in mic do IO.println s!"T {s.canon}"
        printRes res
        if res.success then pure { sc with env := some { env with res := res, rng := r } }
        else pure { sc with env := some { env with rng := r } }
  | "LB", _ =>
    match lowerBound (schedOf orc (fun _ => 0) inst) with
    | some l => IO.println s!"L {l} {maxAllowedTime (schedOf orc (fun _ => 0) inst)}"
    | none => IO.println "L X"
    pure sc
  | _, _ => IO.println s!"X BadCommand {key}"; pure sc

/-! ## compile-model commands (texts are hex-encoded ASCII) -/

def hexVal (c : Char) : Nat :=
  if c.isDigit then c.toNat - 48 else if 'a' ≤ c ∧ c ≤ 'f' then c.toNat - 87 else 0

partial def unhex : List Char → List Char
  | a :: b :: r => Char.ofNat (hexVal a * 16 + hexVal b) :: unhex r
  | _ => []

def txt (t : Compile.Text) : String := String.ofList t

/-- last entry per key wins (dict semantics), printed sorted by key -/
def printEntries (tag : String) (es : List ((String × String) × Int)) : IO Unit := do
  let dedup := es.reverse.foldl (fun (acc : List ((String × String) × Int)) e =>
    if acc.any (fun x => x.1 == e.1) then acc else e :: acc) []
  let sorted := dedup.mergeSort fun a b => (a.1.1 ++ ">" ++ a.1.2) ≤ (b.1.1 ++ ">" ++ b.1.2)
  IO.println (tag ++ " " ++ " ".intercalate (sorted.map fun e => s!"{e.1.1}>{e.1.2}={e.2}"))

def compileCommand (key : String) (args : List String) : IO Bool := do
  match key, args with
  | "CJOBS", [enc] =>
    let rows := Compile.parseJobMatrix (unhex enc.toList)
    IO.println ("CJ " ++ ";".intercalate (rows.map fun r => ",".intercalate (r.map fun g => s!"{g.1}:{g.2}")))
    pure true
  | "CMAT", [inId, outId, enc] =>
    match Compile.parseMatrix (unhex enc.toList) with
    | none => IO.println "CM rejected"
    | some m =>
      let mapped := m.entries.map fun e =>
        (Compile.mapLocName inId.toList outId.toList e.1.1, Compile.mapLocName inId.toList outId.toList e.1.2, e.2)
      if mapped.any (fun e => e.1.isNone || e.2.1.isNone) then IO.println "CM unknown-location"
      else printEntries "CM" (mapped.filterMap fun e =>
        match e.1, e.2.1 with | some a, some b => some ((txt a, txt b), e.2.2) | _, _ => none)
    pure true
  | "CSET", [enc] =>
    match Compile.parseMatrix (unhex enc.toList) with
    | none => IO.println "CS rejected"
    | some m => printEntries "CS" (m.entries.map fun e => ((txt e.1.1, txt e.1.2), e.2))
    pure true
  | "CSTORE", [buf, inp, listed, jobs] =>
    -- CSTORE <buffer> <input buffer> <"-" | "L" ++ comma separated job numbers> <job:loc|job:_ , ...>
    let nums (t : String) : List Nat := (t.splitOn ",").filter (· ≠ "") |>.map String.toNat!
    let js : List (Nat × Option Nat) := ((jobs.splitOn ",").filter (· ≠ "")).map fun e =>
      match e.splitOn ":" with
      | [j, "_"] => (j.toNat!, none)
      | [j, l] => (j.toNat!, some l.toNat!)
      | _ => (0, none)
    let l : Option (List Nat) := if listed == "-" then none else some (nums (listed.drop 1).toString)
    let body := " ".intercalate ((Compile.initStore inp.toNat! js buf.toNat! l).map toString)
    IO.println (if body.isEmpty then "CB" else "CB " ++ body)
    pure true
  | "COUT", kind :: comp :: entries =>
    -- COUT <m|t> <component id (hex)> <component name (hex)>=<token> ...
    let names := if kind == "m" then Compile.machineOutageNames (unhex comp.toList) else Compile.transportOutageNames
    let es : List (Compile.Text × String) := entries.filterMap fun e =>
      match e.splitOn "=" with
      | [n, t] => some (unhex n.toList, t)
      | _ => none
    let body := " ".intercalate (Compile.outagesFor names es)
    IO.println (if body.isEmpty then "CO" else "CO " ++ body)
    pure true
  | "NEWID", ids =>
    IO.println s!"CI {Compile.newId (ids.map String.toNat!)}"
    pure true
  | _, _ => pure false

partial def loop (h : IO.FS.Stream) (sc : Scen) : IO Unit := do
  let line ← h.getLine
  if line.isEmpty then return ()
  let toks := (line.trimAscii.toString.splitOn " ").filter (· ≠ "")
  match toks with
  | [] => loop h sc
  | "END" :: _ => IO.println "E"; (← IO.getStdout).flush; loop h {}
  | key :: rest =>
    if (← compileCommand key rest) then loop h sc else
    let v := ints rest
    match header sc key v with
    | some sc' => loop h sc'
    | none => do
      let sc' ← command sc key v
      loop h sc'

def main : IO Unit := do
  loop (← IO.getStdin) {}
