import JSL.Gen.Tables
import JSL.Model.Types
import JSL.Model.Utils
import JSL.Model.Handler
import JSL.Model.Step
import JSL.Model.LowerBound
import JSL.Model.Env
import JSL.Model.Obs
