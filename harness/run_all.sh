#!/bin/bash
# run every claimed check (quick by default) and summarise
cd /verif
tier=${1:-quick}
for p in $(python3 -c "import json; print(' '.join(c['property_id'] for c in json.load(open('MANIFEST.json'))['checks']))"); do
  s=$(date +%s)
  out=$(./check $p $tier 2>&1 | grep -v "^WARNING conda")
  rc=$?
  echo "$p rc=${PIPESTATUS[0]} $(( $(date +%s) - s ))s $(echo "$out" | grep -c VIOLATION) violations; $(echo "$out" | grep -c KNOWN-FINDING) known"
  echo "$out" | grep "VIOLATION" | head -3
done
