"""Serialise a compiled (InstanceConfig, State) pair and a run configuration into the header
lines of the driver protocol, and tabulate the stochastic objects' future values (the oracle).

The numeric encodings follow the order of the enum members, which is also the order of the
generated `X.all` lists in JSL/Gen/Tables.lean.
"""
import copy
import sys
from fractions import Fraction

from jobshoplab.types.instance_config_types import (
    BufferRoleConfig,
    BufferTypeConfig,
    DeterministicTimeConfig,
    TransportTypeConfig,
)
from jobshoplab.types.state_types import (
    BufferStateState,
    MachineStateState,
    NoTime,
    OperationStateState,
    OutageActive,
    OutageInactive,
    Time,
    TimeDependency,
    TransportStateState,
)
from jobshoplab.types.stochasticy_models import StochasticTimeConfig

from canon import Unrepresentable, idn, tool

ORACLE_K = 160


def eidx(member):
    return list(type(member)).index(member)


class Sids:
    """stochastic objects by identity, in order of first encounter"""

    def __init__(self):
        self.objs = []

    def sid(self, o):
        for i, x in enumerate(self.objs):
            if x is o:
                return i
        self.objs.append(o)
        return len(self.objs) - 1

    def tc(self, t):
        if isinstance(t, DeterministicTimeConfig):
            if not isinstance(t.time, int) or isinstance(t.time, bool):
                raise Unrepresentable(f"deterministic time {t.time!r}")
            return f"0 {t.time}"
        if isinstance(t, StochasticTimeConfig):
            return f"1 {self.sid(t)}"
        raise Unrepresentable(f"time config {t!r}")

    def oracle_lines(self, k=ORACLE_K):
        lines = []
        for i, o in enumerate(self.objs):
            c = copy.deepcopy(o)
            vals = [int(c.time)]
            for _ in range(k):
                c.update()
                vals.append(int(c.time))
            lines.append(f"ORC {i} " + " ".join(map(str, vals)))
        return lines


def loc2(s):
    if s.startswith("m-"):
        return f"0 {idn(s)}"
    if s.startswith("b-"):
        return f"1 {idn(s)}"
    raise Unrepresentable(f"location {s!r}")


def comp2(s):
    if s is None:
        return "-1 0"
    k = {"m": 0, "t": 1, "b": 2}.get(s[0])
    if k is None:
        raise Unrepresentable(f"component {s!r}")
    return f"{k} {idn(s)}"


def bufcfg(b):
    if not isinstance(b.capacity, int) or isinstance(b.capacity, bool):
        raise Unrepresentable(f"capacity {b.capacity!r}")
    return f"{idn(b.id)} {eidx(b.type)} {b.capacity} {eidx(b.role)} {comp2(b.parent)}"


def bufstate(b):
    return f"{idn(b.id)} {eidx(b.state)} {len(b.store)} " + " ".join(str(idn(j)) for j in b.store)


def opt2(t):
    if isinstance(t, Time):
        if not isinstance(t.time, int):
            raise Unrepresentable(f"time {t.time!r}")
        return f"1 {t.time}"
    if isinstance(t, NoTime):
        return "0 0"
    raise Unrepresentable(f"time {t!r}")


def outage_state(o):
    if isinstance(o.active, OutageActive):
        return f"{idn(o.id)} 2 {o.active.start_time.time} {o.active.end_time.time}"
    lt = o.active.last_time_active
    if isinstance(lt, Time):
        return f"{idn(o.id)} 1 {lt.time} 0"
    return f"{idn(o.id)} 0 0 0"


def header_lines(instance, state, sids=None):
    """header for (instance, state); must be called BEFORE any step mutates the stochastic objects"""
    sids = sids or Sids()
    L = []
    for j in instance.instance.specification:
        L.append(f"JOB {idn(j.id)}")
        for o in j.operations:
            _, jj, kk = o.id.split("-")
            L.append(f"OP {int(jj)} {int(kk)} {idn(o.machine)} {tool(o.tool)} {sids.tc(o.duration)}")
    for (a, b), t in instance.logistics.travel_times.items():
        L.append(f"TRAVEL {loc2(a)} {loc2(b)} {sids.tc(t)}")
    for m in instance.machines:
        L.append(f"MACH {idn(m.id)} {bufcfg(m.prebuffer)} {bufcfg(m.buffer)} {bufcfg(m.postbuffer)}")
        for o in m.outages:
            L.append(f"MOUT {idn(m.id)} {idn(o.id)} {sids.tc(o.frequency)} {sids.tc(o.duration)}")
        for (a, b), t in m.setup_times.items():
            L.append(f"MSETUP {idn(m.id)} {tool(a)} {tool(b)} {sids.tc(t)}")
    for b in instance.buffers:
        L.append(f"BUF {bufcfg(b)}")
    for t in instance.transports:
        L.append(f"TR {idn(t.id)} {eidx(t.type)} {bufcfg(t.buffer)}")
        for o in t.outages:
            L.append(f"TOUT {idn(t.id)} {idn(o.id)} {sids.tc(o.frequency)} {sids.tc(o.duration)}")
    L.extend(sids.oracle_lines())
    # state
    if not isinstance(state.time, Time) or not isinstance(state.time.time, int):
        raise Unrepresentable(f"state time {state.time!r}")
    L.append(f"TIME {state.time.time}")
    for j in state.jobs:
        if not j.location.startswith("b-"):
            raise Unrepresentable(f"job location {j.location!r}")
        L.append(f"SJOB {idn(j.id)} {idn(j.location)}")
        for o in j.operations:
            _, jj, kk = o.id.split("-")
            L.append(f"SOP {int(jj)} {int(kk)} {eidx(o.operation_state_state)} {opt2(o.start_time)} "
                     f"{opt2(o.end_time)} {idn(o.machine_id)}")
    for m in state.machines:
        L.append(f"SMACH {idn(m.id)} {eidx(m.state)} {opt2(m.occupied_till)} {tool(m.mounted_tool)}")
        for w, b in enumerate((m.prebuffer, m.buffer, m.postbuffer)):
            L.append(f"SBUFM {idn(m.id)} {w} {bufstate(b)}")
        for o in m.outages:
            L.append(f"SMOUTS {idn(m.id)} {outage_state(o)}")
    for t in state.transports:
        if isinstance(t.occupied_till, TimeDependency):
            raise Unrepresentable("initial time dependency")
        if not isinstance(t.location.location, str):
            raise Unrepresentable("initial route")
        hj = "0 0" if t.transport_job is None else f"1 {idn(t.transport_job)}"
        L.append(f"STR {idn(t.id)} {eidx(t.state)} {opt2(t.occupied_till)} {loc2(t.location.location)} {hj}")
        L.append(f"SBUFT {idn(t.id)} {bufstate(t.buffer)}")
        for o in t.outages:
            L.append(f"STOUTS {idn(t.id)} {outage_state(o)}")
    for b in state.buffers:
        L.append(f"SBUF {bufstate(b)}")
    return L, sids


def frac2(x):
    f = Fraction(str(x))
    return f"{f.numerator} {f.denominator}"


def cfg_line(allow_early, joker, trunc_active, sparse, dense, trunc, fuel, obs_kind):
    return (f"CFG {int(allow_early)} {joker} {int(trunc_active)} {frac2(sparse)} {frac2(dense)} "
            f"{frac2(trunc)} {fuel} {obs_kind}")


def transition6(t):
    """encoding of a ComponentTransition for SMSTEP"""
    ns = t.new_state
    if isinstance(ns, MachineStateState):
        nk = f"0 {eidx(ns)}"
    else:
        nk = f"1 {eidx(ns)}"
    hj = "0 0" if t.job_id is None else f"1 {idn(t.job_id)}"
    return f"{comp2(t.component_id)} {nk} {hj}"
