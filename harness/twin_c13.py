#!/usr/bin/env python3
"""C13 twin: replay one scenario's agent actions (two episodes, with a reset in between) in a fresh
interpreter (own PYTHONHASHSEED), after consuming process-global random state and with another
environment alive and being stepped in between.  Prints the canonical trace as JSON."""
import json
import os
import random
import sys

HERE = os.path.dirname(os.path.abspath(__file__))
sys.path.insert(0, HERE)


def main():
    spec = json.load(sys.stdin)
    import numpy as np
    import impl_trace
    junk = spec.get("junk", 0)
    random.seed(junk * 7919 + 13)
    for _ in range(junk % 23):
        random.random()
    np.random.seed(junk * 31 + 5)
    np.random.rand(junk % 11 + 1)
    other = None
    if spec.get("other"):
        other = impl_trace.Run(spec["other"], step_timeout=6)
        other.seed_globals = False
        try:
            if not other.start():
                other = None
        except Exception:
            other = None
    seed_override = spec.get("seed_override")
    scen = dict(spec["scen"])
    if seed_override is not None:
        scen["seed"] = seed_override
    run = impl_trace.Run(scen, step_timeout=scen.get("step_timeout", 6))
    run.seed_globals = False
    out = impl_trace.two_episodes(run, spec["actions"], other=other, junk=junk)
    json.dump(out, sys.stdout)


if __name__ == "__main__":
    main()
