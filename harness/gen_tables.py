#!/venv/bin/python
"""Translator for the finite-domain decision functions of jobshoplab.

Imports the LIVE modules from /repo (PYTHONPATH) and evaluates every
finite-domain function on its COMPLETE domain (enumeration, not sampling),
then prints Lean definitions by pattern match into JSL/Gen/Tables.lean.

Run:  /venv/bin/python gen_tables.py <out.lean>
"""
import sys
import itertools
import warnings

warnings.filterwarnings("ignore")

from dataclasses import replace

from jobshoplab.state_machine.core.transitions import MachineTransition, TransportTransition
from jobshoplab.state_machine.core.state_machine import handler as H
from jobshoplab.state_machine.core.state_machine import validate as V
from jobshoplab.types.action_types import ComponentTransition
from jobshoplab.types.instance_config_types import (
    BufferConfig,
    BufferRoleConfig,
    BufferTypeConfig,
    DeterministicTimeConfig,
    InstanceConfig,
    LogisticsConfig,
    MachineConfig,
    OperationConfig,
    JobConfig,
    Product,
    ProblemInstanceConfig,
    ProblemInstanceTypeConfig,
    TransportConfig,
    TransportTypeConfig,
    OutageTypeConfig,
)
from jobshoplab.types.state_types import (
    BufferState,
    BufferStateState,
    JobState,
    MachineState,
    MachineStateState,
    NoTime,
    OperationState,
    OperationStateState,
    State,
    Time,
    TransportLocation,
    TransportState,
    TransportStateState,
)
from jobshoplab.utils.state_machine_utils import buffer_type_utils as B
from jobshoplab.utils.state_machine_utils import core_utils
from jobshoplab.utils import utils as U


def lname(member):
    """Lean constructor name of an enum member."""
    n = member.name.lower()
    # reserved / clashing words
    return {"done": "done", "full": "full", "empty": "empty", "not_empty": "notEmpty",
            "flex_buffer": "flex", "job_shop": "jobShop", "flow_shop": "flowShop",
            "open_shop": "openShop"}.get(n, n)


def enum_decl(name, enum):
    cs = " | ".join(lname(m) for m in enum)
    return (f"inductive {name} where\n  | " + "\n  | ".join(lname(m) for m in enum) +
            f"\n  deriving DecidableEq, Repr, Inhabited\n\n"
            f"def {name}.all : List {name} := [{', '.join('.' + lname(m) for m in enum)}]\n\n"
            f"def {name}.pyName : {name} → String\n" +
            "".join(f"  | .{lname(m)} => \"{m.name}\"\n" for m in enum) + "\n")


def bool(b):
    return "true" if b else "false"


# ------------------------------------------------------------------ dummies
def mk_buf_cfg(bid, typ=BufferTypeConfig.FLEX_BUFFER, cap=10, role=BufferRoleConfig.COMPONENT,
               parent=None):
    return BufferConfig(id=bid, type=typ, capacity=cap, resources=(), role=role, parent=parent)


def mk_instance(pre_type=BufferTypeConfig.FLEX_BUFFER):
    m = MachineConfig(
        id="m-0", outages=(), setup_times={("tl-0", "tl-0"): DeterministicTimeConfig(0)},
        prebuffer=mk_buf_cfg("b-0", pre_type, parent="m-0"),
        postbuffer=mk_buf_cfg("b-1", parent="m-0"),
        batches=1, resources=(), buffer=mk_buf_cfg("b-2", cap=1, parent="m-0"))
    t = TransportConfig(id="t-0", type=TransportTypeConfig.AGV, outages=(), resources=(),
                        buffer=mk_buf_cfg("b-3", cap=1, parent="t-0"))
    jobs = (JobConfig(id="j-0", product=Product("p", "p"), priority=0.5,
                      operations=(OperationConfig("o-0-0", "m-0", DeterministicTimeConfig(1), "tl-0"),)),)
    bufs = (mk_buf_cfg("b-4", role=BufferRoleConfig.INPUT), mk_buf_cfg("b-5", role=BufferRoleConfig.OUTPUT))
    return InstanceConfig("d", ProblemInstanceConfig(ProblemInstanceTypeConfig.JOB_SHOP, jobs),
                          LogisticsConfig(1, {}), (m,), bufs, (t,))


def mk_machine(st, store=("j-0",), pre=()):
    return MachineState(id="m-0", buffer=BufferState("b-2", BufferStateState.FULL, store),
                        occupied_till=Time(0), prebuffer=BufferState("b-0", BufferStateState.EMPTY, pre),
                        postbuffer=BufferState("b-1", BufferStateState.EMPTY, ()), state=st,
                        mounted_tool="tl-0", outages=(), resources=())


def mk_transport(st, job="j-0", store=()):
    return TransportState(state=st, id="t-0", occupied_till=Time(0),
                          buffer=BufferState("b-3", BufferStateState.EMPTY, store),
                          location=TransportLocation(0, "m-0"), outages=(), transport_job=job)


def mk_state(machine=None, transport=None, job_loc="b-4", bufstore=("j-0",)):
    job = JobState("j-0", (OperationState("o-0-0", NoTime(), NoTime(), "m-0", OperationStateState.IDLE),),
                   job_loc)
    return State(jobs=(job,), time=Time(0),
                 machines=(machine or mk_machine(MachineStateState.IDLE, ()),),
                 transports=(transport or mk_transport(TransportStateState.IDLE, None),),
                 buffers=(BufferState("b-4", BufferStateState.NOT_EMPTY, bufstore),
                          BufferState("b-5", BufferStateState.EMPTY, ())))


out = []
w = out.append
w("-- GENERATED by /verif/harness/gen_tables.py from the live Python modules under /repo.\n"
  "-- Every definition below is the complete enumeration of a finite-domain function.\n"
  "-- Do not edit: regenerated on every check run.\n\nnamespace JSL\n\n")

MS, TS, OS = MachineStateState, TransportStateState, OperationStateState
w(enum_decl("MSt", MS))
w(enum_decl("TSt", TS))
w(enum_decl("OSt", OS))
w(enum_decl("BSS", BufferStateState))
w(enum_decl("BufType", BufferTypeConfig))
w(enum_decl("BufRole", BufferRoleConfig))
w(enum_decl("TrType", TransportTypeConfig))


def table2(name, A, An, Bs, Bn, f, ret="Bool", fmt=bool):
    w(f"def {name} : {An} → {Bn} → {ret}\n")
    for a in A:
        for b in Bs:
            w(f"  | .{lname(a)}, .{lname(b)} => {fmt(f(a, b))}\n")
    w("\n")


def safe_valid(T):
    def f(a, b):
        try:
            return T().is_valid_transition(a, b)
        except Exception:
            return False
    return f


# validity tables (same-kind and cross-kind new_state)
table2("machineValid", MS, "MSt", MS, "MSt", safe_valid(MachineTransition))
table2("machineValidX", MS, "MSt", TS, "TSt", safe_valid(MachineTransition))
table2("transportValid", TS, "TSt", TS, "TSt", safe_valid(TransportTransition))
table2("transportValidX", TS, "TSt", MS, "MSt", safe_valid(TransportTransition))

# ---------------------------------------------------------------- handler dispatch
# The dispatch dicts are built at call time from module globals, so stubbing the
# handler functions with markers and calling the real dispatcher enumerates the
# first-match semantics (dict order preserved).
machine_handler_names = [n for n in dir(H) if n.startswith("handle_machine_") and n.endswith("_transition")
                         and n not in ("handle_machine_transition",)]
agv_handler_names = [n for n in dir(H) if n.startswith("handle_agv_") and n.endswith("_transition")]


def lean_handler_name(n):
    n = n.replace("handle_machine_", "").replace("handle_agv_transport_", "").replace("handle_agv_", "")
    n = n.replace("_transition", "")
    parts = n.split("_")
    return parts[0] + "".join(p.capitalize() for p in parts[1:])


def dispatch_table(names, call, A, Bs):
    saved = {n: getattr(H, n) for n in names}
    res = {}
    try:
        for n in names:
            setattr(H, n, (lambda nn: (lambda *a, **k: ("MARK", nn)))(n))
        for a in A:
            for b in Bs:
                try:
                    r = call(a, b)
                    res[(a, b)] = r[1] if isinstance(r, tuple) and r and r[0] == "MARK" else None
                except Exception:
                    res[(a, b)] = None
    finally:
        for n, f in saved.items():
            setattr(H, n, f)
    return res


inst = mk_instance()


def call_machine(a, b):
    st = mk_state(machine=mk_machine(a))
    return H.handle_machine_transition(st, inst, ComponentTransition("m-0", b, "j-0"))


def call_agv(a, b):
    st = mk_state(transport=mk_transport(a))
    return H.handle_transport_transition(st, inst, ComponentTransition("t-0", b, "j-0"))


w("inductive MHandler where\n  | " + "\n  | ".join(lean_handler_name(n) for n in machine_handler_names) +
  "\n  deriving DecidableEq, Repr\n\n")
w("inductive THandler where\n  | " + "\n  | ".join(lean_handler_name(n) for n in agv_handler_names) +
  "\n  deriving DecidableEq, Repr\n\n")

mt = dispatch_table(machine_handler_names, call_machine, MS, MS)
table2("machineHandler", MS, "MSt", MS, "MSt", lambda a, b: mt[(a, b)], "Option MHandler",
       lambda n: "none" if n is None else f"some .{lean_handler_name(n)}")
tt = dispatch_table(agv_handler_names, call_agv, TS, TS)
table2("agvHandler", TS, "TSt", TS, "TSt", lambda a, b: tt[(a, b)], "Option THandler",
       lambda n: "none" if n is None else f"some .{lean_handler_name(n)}")

# which transport types have an AGV handler table at all
w("def trTypeHandled : TrType → Bool\n")
for ty in TransportTypeConfig:
    i2 = replace(inst, transports=(replace(inst.transports[0], type=ty),))
    saved = {n: getattr(H, n) for n in agv_handler_names}
    try:
        for n in agv_handler_names:
            setattr(H, n, lambda *a, **k: "MARK")
        try:
            r = H.handle_transport_transition(mk_state(transport=mk_transport(TS.OUTAGE)), i2,
                                              ComponentTransition("t-0", TS.IDLE, None))
            ok = r == "MARK"
        except Exception:
            ok = False
    finally:
        for n, f in saved.items():
            setattr(H, n, f)
    w(f"  | .{lname(ty)} => {bool(ok)}\n")
w("\n")

# ---------------------------------------------------------------- timed transitions
# machine due (occupied_till <= now): which new state is requested
w("/-- `create_timed_machine_transitions` on a due machine whose prebuffer is empty. -/\n")
w("def machineTimedNext : MSt → Option MSt\n")
for a in MS:
    st = mk_state(machine=mk_machine(a))
    try:
        r = H.create_timed_machine_transitions("warning", st, inst)
        v = r[0].new_state if r else None
    except Exception:
        v = None
    w(f"  | .{lname(a)} => {'none' if v is None else 'some .' + lname(v)}\n")
w("\n")

# AGV due: which creator function handles each transport state
creators = ["create_avg_idle_to_pick_transition", "create_avg_pickup_to_drop_transition",
            "create_agv_drop_to_idle_transition"]
cname = {"create_avg_idle_to_pick_transition": "idleToPick",
         "create_avg_pickup_to_drop_transition": "pickupToDrop",
         "create_agv_drop_to_idle_transition": "dropToIdle"}
w("inductive TCreator where\n  | idleToPick | pickupToDrop | dropToIdle | raises | none\n"
  "  deriving DecidableEq, Repr\n\n")
w("/-- `create_timed_transport_transitions` on a due AGV: which creator is called per state -/\n")
w("def agvTimedCreator : TSt → TCreator\n")
saved = {n: getattr(H, n) for n in creators}
try:
    for n in creators:
        setattr(H, n, (lambda nn: (lambda *a, **k: ComponentTransition("MARK", nn, None)))(n))
    for a in TS:
        st = mk_state(transport=mk_transport(a, store=("j-0",)))
        try:
            r = H.create_timed_transport_transitions("warning", st, inst)
            v = cname[r[0].new_state] if r else "none"
        except Exception:
            v = "raises"
        w(f"  | .{lname(a)} => .{v}\n")
finally:
    for n, f in saved.items():
        setattr(H, n, f)
w("\n")

w("/-- `create_avg_idle_to_pick_transition` for each transport state × readiness of the claimed job -/\n")
w("def idleToPickNext : TSt → Bool → Option TSt\n")
for a in TS:
    for ready in (True, False):
        bufstore = ("j-0",) if ready else ("j-1", "j-0")
        i2 = inst
        if not ready:
            i2 = replace(inst, buffers=(replace(inst.buffers[0], type=BufferTypeConfig.FIFO), inst.buffers[1]))
        tr = mk_transport(a)
        st = mk_state(transport=tr, bufstore=bufstore)
        r = H.create_avg_idle_to_pick_transition(st, tr, i2)
        w(f"  | .{lname(a)}, {bool(ready)} => {'none' if r is None else 'some .' + lname(r.new_state)}\n")
w("\n")

# ---------------------------------------------------------------- buffer discipline
w("inductive Sel where\n  | front | back | none\n  deriving DecidableEq, Repr\n\n")
w("/-- `get_next_job_from_buffer` probed on stores of length 1..4 (all agree). -/\n")
w("def releaseSel : BufType → Sel\n")
for ty in BufferTypeConfig:
    kinds = set()
    for n in range(1, 5):
        store = tuple(f"j-{i}" for i in range(n))
        r = B.get_next_job_from_buffer(BufferState("b-0", BufferStateState.NOT_EMPTY, store),
                                       mk_buf_cfg("b-0", ty))
        if n == 1:
            kinds.add("some" if r is not None else "none")
        else:
            kinds.add("front" if r == store[0] else "back" if r == store[-1] else "none" if r is None else "other")
    kinds.discard("some")
    assert len(kinds) == 1 and "other" not in kinds, (ty, kinds)
    # empty store must give None
    assert B.get_next_job_from_buffer(BufferState("b-0", BufferStateState.EMPTY, ()), mk_buf_cfg("b-0", ty)) is None
    w(f"  | .{lname(ty)} => .{kinds.pop()}\n")
w("\n")

w("/-- `is_correct_position_for_buffer_type` on positions -1..5 × lengths 0..5\n"
  "    (position given as pos+1 : Nat, so 0 encodes -1). -/\n")
w("def posOkTable : BufType → Nat → Nat → Bool\n")
for ty in BufferTypeConfig:
    for p in range(-1, 6):
        for ln in range(0, 6):
            r = B.is_correct_position_for_buffer_type(p, ln, ty)
            if r:
                w(f"  | .{lname(ty)}, {p + 1}, {ln} => true\n")
w("  | _, _, _ => false\n\n")

w("/-- `is_correct_position_for_buffer_type` with position None (job not in store): result or raises -/\n")
w("def posNone : BufType → Option Bool\n")
for ty in BufferTypeConfig:
    try:
        r = B.is_correct_position_for_buffer_type(None, 3, ty)
        w(f"  | .{lname(ty)} => some {bool(r)}\n")
    except Exception:
        w(f"  | .{lname(ty)} => none\n")
w("\n")

# ---------------------------------------------------------------- misc
def sort_key(a):
    """0 if `a` sorts strictly before a machine-state transition, else 1 (from the real function)."""
    ref = ComponentTransition("ref", MS.IDLE, None)
    x = ComponentTransition("x", a, None)
    r = core_utils.sorted_by_transport((ref, x))
    return 0 if r[0] is x else 1


w("/-- `sorted_by_transport`: 0 when a transition with this new state is moved in front of machine transitions -/\n")
w("def sortKeyM : MSt → Nat\n")
for a in MS:
    w(f"  | .{lname(a)} => {sort_key(a)}\n")
w("\ndef sortKeyT : TSt → Nat\n")
for a in TS:
    w(f"  | .{lname(a)} => {sort_key(a)}\n")
w("\n")

w("/-- `get_component_type_int` numerators over 100 for prefixes m,t,b -/\n")
w(f"def typeCode100 : Nat → Nat\n  | 0 => {round(U.get_component_type_int('m-0') * 100)}\n"
  f"  | 1 => {round(U.get_component_type_int('t-0') * 100)}\n"
  f"  | _ => {round(U.get_component_type_int('b-0') * 100)}\n\n")

# which operation states count as 'idle' / 'processing' / 'done' for the job predicates
w("end JSL\n")

path = sys.argv[1]
txt = "".join(out)
open(path, "w").write(txt)
print(f"wrote {path} ({len(txt)} bytes)")
