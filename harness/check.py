#!/venv/bin/python
"""Entry point:  check.py <Cxx> <quick|thorough>  |  check.py --replay <file>

1 regenerate Gen/Tables.lean from /repo's working tree          (translator)
2 lake build  JSL.Props.<Cxx>  and  jsl_driver                   (kernel re-checks the theorems)
3 audit: no sorry/admit/axiom/native_decide..., #print axioms ⊆ {propext, Classical.choice, Quot.sound}
4 corpus + seeded scenarios on the implementation, replayed on the Lean driver, streams compared
5 property monitors on every implementation trace
6 decide / write evidence
"""
import fcntl
import json
import os
import re
import subprocess
import sys
import time

HERE = os.path.dirname(os.path.abspath(__file__))
ROOT = os.path.dirname(HERE)
LEAN = os.path.join(ROOT, "lean")
sys.path.insert(0, HERE)

import registry  # noqa

ALLOWED_AXIOMS = {"propext", "Classical.choice", "Quot.sound"}
FORBIDDEN = re.compile(r"\b(sorry|admit|native_decide|bv_decide|implemented_by|unsafe)\b|^\s*axiom\s|maxHeartbeats\s+0")


def sh(cmd, cwd=None, timeout=3600, env=None):
    p = subprocess.run(cmd, cwd=cwd, capture_output=True, text=True, timeout=timeout, env=env)
    return p.returncode, p.stdout + p.stderr


def strip_comments(text):
    text = re.sub(r"/-.*?-/", "", text, flags=re.S)
    return "\n".join(l.split("--")[0] for l in text.splitlines())


class Lock:
    def __enter__(self):
        self.f = open(os.path.join(LEAN, ".check.lock"), "w")
        fcntl.flock(self.f, fcntl.LOCK_EX)
        return self

    def __exit__(self, *a):
        fcntl.flock(self.f, fcntl.LOCK_UN)
        self.f.close()


def regenerate_tables():
    """returns (ok, changed, log)"""
    target = os.path.join(LEAN, "JSL", "Gen", "Tables.lean")
    tmp = target + ".new"
    env = dict(os.environ, PYTHONPATH=os.environ.get("JSL_REPO", "/repo"))
    rc, out = sh(["/venv/bin/python", os.path.join(HERE, "gen_tables.py"), tmp], env=env, timeout=600)
    if rc != 0 or not os.path.exists(tmp):
        return False, False, out[-3000:]
    new = open(tmp).read()
    old = open(target).read() if os.path.exists(target) else ""
    changed = new != old
    if changed:
        os.replace(tmp, target)
    else:
        os.remove(tmp)
    return True, changed, ""


def build(targets):
    rc, out = sh(["lake", "build"] + targets, cwd=LEAN, timeout=3000)
    return rc == 0, out


def modules_of(prop):
    """the modules stating the theorems of a property: Props/<prop>.lean and Props/<prop><Suffix>.lean"""
    d = os.path.join(LEAN, "JSL", "Props")
    out = []
    for f in sorted(os.listdir(d)):
        if re.fullmatch(re.escape(prop) + r"([A-Z][A-Za-z0-9]*)?\.lean", f):
            out.append("JSL.Props." + f[:-5])
    return out


def theorems_of(prop):
    """names of the theorems stated in Props/<prop>*.lean (the proof obligations of the property)"""
    names = []
    for m in modules_of(prop):
        path = os.path.join(LEAN, *m.split(".")) + ".lean"
        txt = strip_comments(open(path).read())
        stack = []      # ("ns" | "sec", name)
        for line in txt.splitlines():
            m1 = re.match(r"^\s*namespace\s+(\S+)", line)
            m2 = re.match(r"^\s*section(?:\s+(\S+))?\s*$", line)
            m3 = re.match(r"^\s*end(?:\s+(\S+))?\s*$", line)
            m4 = re.match(r"^\s*(?:@\[[^\]]*\]\s*)?(?:protected\s+)?theorem\s+([A-Za-z0-9_.']+)", line)
            if m1:
                stack.append(("ns", m1.group(1)))
            elif m2:
                stack.append(("sec", m2.group(1) or ""))
            elif m3 and stack:
                stack.pop()
            elif m4:
                names.append(".".join([n for k, n in stack if k == "ns"] + [m4.group(1)]))
    return names


def audit(prop, thorough):
    """returns (ok, problems, per-theorem axioms)"""
    problems = []
    for dp, _dn, fn in os.walk(os.path.join(LEAN, "JSL")):
        for f in fn:
            if f.endswith(".lean"):
                txt = strip_comments(open(os.path.join(dp, f)).read())
                for i, l in enumerate(txt.splitlines()):
                    if FORBIDDEN.search(l):
                        problems.append(f"{os.path.relpath(os.path.join(dp, f), LEAN)}:{i + 1}: {l.strip()[:80]}")
    names = theorems_of(prop)
    axioms = {}
    if names:
        tmp = os.path.join(LEAN, f".audit_{prop}.lean")
        with open(tmp, "w") as fh:
            fh.write("".join(f"import {m}\n" for m in modules_of(prop)) + "".join(f"#print axioms {n}\n" for n in names))
        rc, out = sh(["lake", "env", "lean", tmp], cwd=LEAN, timeout=900)
        os.remove(tmp)
        if rc != 0:
            problems.append("axiom audit failed: " + out[-500:])
        for m in re.finditer(r"'([^']+)' (?:depends on axioms: \[([^\]]*)\]|does not depend on any axioms)", out):
            ax = [a.strip() for a in (m.group(2) or "").replace("\n", " ").split(",") if a.strip()]
            axioms[m.group(1)] = ax
            bad = [a for a in ax if a not in ALLOWED_AXIOMS]
            if bad:
                problems.append(f"{m.group(1)} depends on {bad}")
        for n in names:
            if not any(k == n or k.endswith("." + n) for k in axioms):
                problems.append(f"no axiom report for {n}")
    if thorough and names:
        rc, out = sh(["lake", "env", "leanchecker"] + modules_of(prop), cwd=LEAN, timeout=3000)
        if rc != 0:
            problems.append("leanchecker: " + out[-500:])
    return not problems, problems, axioms


def load_known():
    p = os.path.join(ROOT, "known_findings.json")
    if not os.path.exists(p):
        return []
    return [e for e in json.load(open(p))["findings"] if e.get("status", "known") == "known"]


def is_known(finding, known):
    for k in known:
        if k["property"] != finding["property"]:
            continue
        if not re.fullmatch(k["sig"], finding["sig"]):
            continue
        facts = finding.get("facts", {})
        if all(facts.get(r) for r in k.get("requires", [])):
            return k
    return None


def make_scenarios(prop, tier, seed):
    import gen
    fams = registry.PROPS[prop]["families"]
    n = {"quick": 160, "thorough": 2400}[tier]
    out = []
    for i in range(n):
        fam = fams[i % len(fams)]
        sc = gen.gen_scenario(seed * 1000003 + i * 7919 + hash_prop(prop), fam)
        sc["props"] = [prop]
        if prop == "C13" and i % 5 == 0 and not sc["probes"].get("c13") and sc["policy"]["kind"] != "multi":
            # every fifth scenario of the C13 check is replayed in fresh interpreters
            sc["probes"] = {"c13": 1000 + i * 37 + seed, "shift": 0}
            if (i // 5) % 3 < 2:
                sc["seed"] = 0
            bl = sc.get("doc", {}).get("instance_config", {}).get("buffer")
            if isinstance(bl, list) and len(bl) >= 2 and not sc["meta"].get("features", []).count("alpha_buffer_names"):
                # a second output buffer: which one is "the first" must not depend on hash order
                import yaml
                used = {e["name"] for e in bl}
                name = next(f"b-{k}" for k in range(40, 80) if f"b-{k}" not in used)
                if len(bl) == 2:
                    bl.append({"name": name, "type": "flex", "role": "output"})
                elif not any(k.startswith("b-") and isinstance(v, dict) for k, v in (sc["doc"].get("init_state") or {}).items() if k == bl[2]["name"]):
                    bl[2]["role"] = "output"
                sc["dsl"] = yaml.safe_dump(sc["doc"], sort_keys=False)
        if prop != "C13" and sc["probes"].get("c13"):
            sc["probes"]["c13"] = 0   # twins cost seconds each: only the C13 check pays for them
        if prop == "C17" and i % 3 == 0:
            sc["probes"]["c17"] = 500 + i
        if prop != "C06" and (i % 4 == 2 or (prop == "C14" and i % 2 == 0)):
            # some jobs start in a further stand-alone buffer that has its own travel-matrix row
            import random as _random
            gen.staging_placement(sc, _random.Random(seed * 11 + i))
        if prop != "C06" and i % 16 == 7:
            import random as _random
            gen.one_based_buffers(sc, _random.Random(seed * 13 + i))
        if prop in ("C16", "C17"):
            sc["max_steps"] = 5      # these checks are about compilation, not about the episode
            if i % 2 == 1:
                import random as _random
                gen.spread_placement(sc, _random.Random(seed * 7 + i))
        out.append(sc)
    if prop in ("C04", "C18"):
        # directed: the last joker spent exactly on the no-op that finishes the episode
        for t in gen.hesitant_stream(seed):
            t["props"] = [prop]
            out.append(t)
    if prop == "C06":
        # the exhaustive decision trees of tiny classic instances against an independent optimum
        for t in gen.c06_tree_stream(seed, tier):
            t["props"] = [prop]
            out.append(t)
    if prop == "C17":
        # inconsistent initial placements (a listed job located elsewhere, a listed job that does not
        # exist) must not compile into a state with a duplicated or phantom job
        for i in range(n // 8):
            m = gen.gen_malformed(seed * 6007 + i, ("init-store-foreign-job", "init-store-unknown-job")[i % 2])
            if m is not None:
                m["props"] = [prop]
                out.append(m)
    if prop == "C16":
        # the malformed stream: one defect per document, every class in turn
        for i in range(n // 2):
            m = gen.gen_malformed(seed * 7919 + i, gen.MALFORMED[i % len(gen.MALFORMED)])
            if m is not None:
                m["props"] = [prop]
                out.append(m)
    return out


def hash_prop(prop):
    return int(prop[1:]) * 104729


def corpus_scenarios(prop):
    d = os.path.join(ROOT, "corpus")
    out = []
    if os.path.isdir(d):
        for f in sorted(os.listdir(d)):
            if f.endswith(".json"):
                sc = json.load(open(os.path.join(d, f)))
                if prop in sc.get("for_props", [prop]):
                    sc = dict(sc, props=[prop], id="corpus:" + f[:-5])
                    out.append(sc)
    return out


def write_replay(prop, kind, payload):
    d = os.path.join(ROOT, "replays")
    os.makedirs(d, exist_ok=True)
    path = os.path.join(d, f"{prop}_{kind}_{int(time.time())}.json")
    json.dump(payload, open(path, "w"), indent=1, default=str)
    return path


def scen_for_replay(sc):
    return {k: sc[k] for k in ("id", "family", "seed", "dsl", "cfg", "policy", "max_steps", "probes", "meta", "c06tree",
                               "tree_cap", "malformed", "step_timeout") if k in sc}


def run_and_compare(prop, scens, want_compare=True):
    import corr
    res = corr.run_scenarios(scens)
    harness_errors = [r for r in res if not r.get("ok")]
    diffs = []
    drv_err = None
    if want_compare and registry.PROPS[prop]["kinds"]:
        try:
            diffs = corr.compare(res, kinds=set(registry.PROPS[prop]["kinds"]))
        except Exception as e:  # driver crashed / missing
            drv_err = str(e)[:500]
    return res, harness_errors, diffs, drv_err


def main(argv):
    # every temporary file of this run (workers and twin interpreters inherit TMPDIR) lives in one directory
    # that is removed when the run ends
    import atexit
    import shutil
    import tempfile
    run_tmp = tempfile.mkdtemp(prefix="jslrun")
    os.environ["TMPDIR"] = run_tmp
    tempfile.tempdir = run_tmp
    atexit.register(shutil.rmtree, run_tmp, True)
    if len(argv) >= 2 and argv[0] == "--replay":
        return replay(argv[1])
    prop, tier = argv[0], (argv[1] if len(argv) > 1 else os.environ.get("VERIF_TIER", "quick"))
    seed = int(os.environ.get("VERIF_SEED", "0"))
    t0 = time.time()
    with Lock():
        return run_check(prop, tier, seed, t0)


def run_check(prop, tier, seed, t0):
    import corr
    ev = {"property_id": prop, "tier": tier, "seed": seed, "level": "proof", "coverage": {}, "assumptions": [],
          "wall_s": 0.0, "violations": 0}
    broken = []  # reasons why the proof / tie no longer checks
    ok_t, changed, log = regenerate_tables()
    if not ok_t:
        broken.append("translator gen_tables.py failed on the current tree: " + log[-400:])
    has_props = os.path.exists(os.path.join(LEAN, "JSL", "Props", f"{prop}.lean"))
    ok_d, out_d = build(["jsl_driver"])
    if not ok_d:
        broken.append("model/driver no longer builds against the regenerated tables: " + tail_err(out_d))
    ok_p, out_p = (True, "")
    if has_props:
        ok_p, out_p = build(modules_of(prop))
        if not ok_p:
            broken.append(f"theorems of JSL.Props.{prop} no longer check: " + tail_err(out_p))
    names = theorems_of(prop)
    ok_a, problems, axioms = (True, [], {})
    if ok_p and ok_d:
        ok_a, problems, axioms = audit(prop, tier == "thorough")
        if not ok_a:
            broken.append("audit: " + "; ".join(problems)[:600])

    # scenarios: corpus first, then the seeded stream
    scens = corpus_scenarios(prop) + make_scenarios(prop, tier, seed)
    res, herr, diffs, drv_err = run_and_compare(prop, scens, want_compare=ok_d)
    if herr:
        print("harness errors:", herr[0].get("error", "")[-800:], file=sys.stderr)
    if drv_err:
        broken.append("driver failed: " + drv_err)
    if diffs:
        r, i, a, b = diffs[0]
        broken.append(f"correspondence: scenario {r['id']} output line {i}: implementation `{a[:160]}` vs model `{b[:160]}`")

    known = load_known()
    findings = [f for r in res if r.get("ok") for f in r.get("findings", []) if f["property"] == prop]
    mon_err = [f for f in findings if f["sig"] == "MONITOR-ERROR"]
    findings = [f for f in findings if f["sig"] != "MONITOR-ERROR"]
    new = [f for f in findings if not is_known(f, known)]
    old = [(f, is_known(f, known)) for f in findings if is_known(f, known)]

    if broken and not new:
        # enlarged failing-input search on the implementation
        extra = make_scenarios(prop, "thorough" if tier == "quick" else "thorough", seed + 7777)[: (600 if tier == "quick" else 2400)]
        res2, _, _, _ = run_and_compare(prop, extra, want_compare=False)
        f2 = [f for r in res2 if r.get("ok") for f in r.get("findings", []) if f["property"] == prop and f["sig"] != "MONITOR-ERROR"]
        new = [f for f in f2 if not is_known(f, known)]
        res = res + res2
        scens = scens + extra

    by_id = {s["id"]: s for s in scens}
    # a violation is reported with a replay: the finding must reproduce when its scenario is run again, alone,
    # in this process (a finding that does not is an artefact of the parallel run - it is counted in the evidence)
    unconfirmed = []
    if new:
        import corr as _corr
        confirmed, tried = [], set()
        for f in new:
            sid = f.get("scenario")
            if sid in tried:
                continue
            tried.add(sid)
            if sid not in by_id or len(tried) > 6:
                confirmed.append(f)
                break
            try:
                again = _corr.run_one(dict(by_id[sid]))
                sigs = {g["sig"] for g in again.get("findings", []) if g.get("property") == prop}
            except Exception:  # noqa
                sigs = {f["sig"]}
            if f["sig"] in sigs or not again.get("ok"):
                confirmed.append(f)
                break
            unconfirmed.append({"scenario": sid, "sig": f["sig"], "detail": f["detail"][:200]})
        new = confirmed
    rc = 0
    printed = set()
    for f, k in old:
        if k["sig"] + k["what"] not in printed:
            printed.add(k["sig"] + k["what"])
            print(f"KNOWN-FINDING: property={prop} {k['what']}")
    if new:
        f = new[0]
        path = write_replay(prop, "violation", {"property": prop, "finding": f, "scenario": scen_for_replay(by_id[f["scenario"]]),
                                                "broken": broken})
        print(f"VIOLATION property={prop} replay={path}")
        print(f"  {f['sig']}: {f['detail'][:300]}", file=sys.stderr)
        rc = 1
    elif broken:
        payload = {"property": prop, "no_longer_checks": broken, "theorems": names}
        if diffs:
            r, i, a, b = diffs[0]
            payload["correspondence"] = {"scenario": scen_for_replay(by_id[r["id"]]), "line": i, "implementation": a, "model": b}
        path = write_replay(prop, "unproved", payload)
        print(f"VIOLATION property={prop} replay={path} no-failing-input-found")
        for b in broken:
            print("  " + b[:400], file=sys.stderr)
        rc = 1
    if mon_err and rc == 0:
        print("monitor error:", mon_err[0]["detail"][-1500:], file=sys.stderr)
        rc = 2
    if herr and rc == 0 and len(herr) > len(res) // 10:
        rc = 2

    # ---- evidence
    good = [r for r in res if r.get("ok")]
    stats = {}
    for r in good:
        for k, v in r.get("stats", {}).get("handlers", {}).items():
            stats[k] = stats.get(k, 0) + v
    distinct = {}
    for s, r in zip(scens, res):
        if r.get("ok") and r.get("steps", 0) >= 3 and r.get("cmds"):
            distinct[corr.scen_hash(s)] = 1
    fams = {}
    for s in scens:
        fams[s.get("family", "?")] = fams.get(s.get("family", "?"), 0) + 1
    errs = {}
    for r in good:
        for l in r.get("out", []):
            if l.startswith("X "):
                errs[l[2:]] = errs.get(l[2:], 0) + 1
    sample = next((s for s, r in zip(scens, res) if r.get("ok") and r.get("steps", 0) >= 5), scens[0])
    ev["coverage"] = {
        "obligations": max(1, len(names)),
        "discharged": (len(names) if (ok_p and ok_a and names) else 0) if names else 0,
        "checker_cmd": f"cd /verif/lean && lake build {' '.join(modules_of(prop))} && lake env lean <#print axioms of {len(names)} theorems>"
                       + (" && lake env leanchecker " + " ".join(modules_of(prop)) if tier == "thorough" else ""),
        "trusted_base": registry.TRUSTED_BASE,
        "theorems": names,
        "axioms": axioms,
        "tables_regenerated": ok_t, "tables_changed_since_last_run": changed,
        "evaluations": len(res),
        "distinct_nontrivial": len(distinct),
        "rule": "scenario = generated DSL document + run config + action policy, run on the real environment and replayed on the "
                "Lean driver; distinct by hash of (document, config, policy); non-trivial = compiled, representable in the model and "
                "at least 3 environment steps",
        "samples": [{"id": sample["id"], "cfg": sample["cfg"], "policy": sample["policy"], "dsl": sample["dsl"][:1500]}],
        "traces_validated_against_impl": sum(1 for r in good if r.get("cmds")),
        "correspondence_lines_compared": sum(len(r.get("out", [])) for r in good),
        "correspondence_disagreements": len(diffs),
        "theorem_guards": {"scenarios_with_guard_line": sum(1 for r in good for l in r.get("out", []) if l.startswith("G ")),
                           "all_guards_hold": sum(1 for r in good for l in r.get("out", []) if l.startswith("G 1 1 1 1 1 1 1 1")),
                           "deterministic_instances": sum(1 for r in good for l in r.get("out", []) if l.startswith("G ") and len(l.split()) >= 11 and l.split()[9] == "1"),
                           "instances_without_outages": sum(1 for r in good for l in r.get("out", []) if l.startswith("G ") and len(l.split()) >= 11 and l.split()[10] == "1"),
                           "tables_total_and_ready": sum(1 for r in good for l in r.get("out", []) if l.startswith("G ") and len(l.split()) >= 13 and l.split()[11:13] == ["1", "1"]),
                           "all_buffers_unordered_and_an_agv": sum(1 for r in good for l in r.get("out", []) if l.startswith("G ") and len(l.split()) >= 17 and l.split()[15:17] == ["1", "1"]),
                           "in_the_class_of_c05_step_never_raises": sum(1 for r in good for l in r.get("out", []) if l.startswith("G ") and len(l.split()) >= 19 and l.split()[17] == "1"),
                           "in_that_class_with_enough_fuel": sum(1 for r in good for l in r.get("out", []) if l.startswith("G ") and len(l.split()) >= 20 and l.split()[17] == "1" and l.split()[19] == "1"),
                           "classic_instances_of_c06": sum(1 for r in good for l in r.get("out", []) if l.startswith("G ") and len(l.split()) >= 19 and l.split()[18] == "1"),
                           "classic_run_hypotheses_confirmed": sum(1 for r in good for l in r.get("out", []) if l == "K 1 1 1 1 1"),
                           "outage_records_at_rest": sum(1 for r in good for l in r.get("out", []) if l.startswith("G ") and len(l.split()) >= 15 and l.split()[13:15] == ["1", "1"]),
                           "structural_guards_hold": sum(1 for r in good for l in r.get("out", []) if l.startswith("G 1 1 1 1")),
                           "meaning": "G <wfB> <shapeB> <conservedB> <capB> <restB> <placedB> <nonnegB> <samples>=0> <detInstB> <noOutagesB> <tablesTotalB> <readyB> <outRestB> <outPastB> <flexInstB> <hasAgvB> <totalClassB> <classicInstB> <fuelOKB>: the first eight are the decidable hypotheses of the structural and schedule theorems (Start), evaluated on the real compiled instance and on the model; scenarios where a guard is 0 (e.g. a non-rest initial state written in the DSL) lie outside the theorems and are covered by the correspondence + monitors only; detInstB (no stochastic element) is the hypothesis of the seed-independence theorems of C13, noOutagesB that of C12's translation invariance, tablesTotalB/readyB those of C05's 'an offered transition applies without raising', outRestB/outPastB those of C10's outage-record invariants, flexInstB/hasAgvB those of C11's progress theorem, totalClassB (JSL/Model/Roomy.lean) the class in which no step raises (C05), classicInstB (JSL/Model/Classic.lean) the class of C06's reachability theorems, fuelOKB (JSL/Model/FuelBound.lean) the bound on the rounds of the timed loop under which C05's steps return and C11's always-accept run terminates; a line `K 1 1 1 1 1` after the reset of a scenario the generator calls classic confirms on the model side that the instance, the initial state, the fuel (both bounds) and the number of AGVs meet the hypotheses of ClassicRun and ClassicRunEarly"},
        "families": fams, "transitions_by_handler": stats, "error_classes_seen": errs,
        "env_steps": sum(r.get("steps", 0) for r in good),
        "monitor_findings_known": len(old), "monitor_findings_new": len(new),
        "harness_errors": len(herr), "unrepresentable": sum(1 for r in good if r.get("unrep")),
        "findings_not_reproduced_on_rerun": unconfirmed,
        "broken": broken,
    }
    ev["assumptions"] = registry.TRUSTED_BASE
    ev["violations"] = 1 if rc == 1 else 0
    ev["wall_s"] = round(time.time() - t0, 2)
    os.makedirs(os.path.join(ROOT, "evidence"), exist_ok=True)
    json.dump(ev, open(os.path.join(ROOT, "evidence", f"{prop}.json"), "w"), indent=1, default=str)
    return rc


def tail_err(out):
    lines = [l for l in out.splitlines() if "error" in l.lower()]
    return " | ".join(lines[:4])[:500] if lines else out[-300:]


def replay(path):
    import corr
    d = json.load(open(path))
    sc = d.get("scenario") or d.get("correspondence", {}).get("scenario")
    if sc is None:
        print(json.dumps(d, indent=1)[:3000])
        return 0
    sc["props"] = [d["property"]]
    corr._init_worker()
    r = corr.run_one(sc)
    for f in r.get("findings", []):
        print("finding:", f["property"], f["sig"], f["detail"][:400])
    try:
        for (rr, i, a, b) in corr.compare([r]):
            print(f"correspondence diff at line {i}:\n impl:  {a[:400]}\n model: {b[:400]}")
    except Exception as e:
        print("driver:", e)
    return 0


if __name__ == "__main__":
    sys.exit(main(sys.argv[1:]))
