#!/bin/bash
# seed_store.sh <prop> <name> <worktree> : store a seed from a sub-agent's worktree and remove the worktree
set -u
p=$1; name=$2; wt=$3
d=/verif/seeded/$p-$name
mkdir -p $d
git -C $wt diff -- jobshoplab > $d/patch.diff
cp $wt/demo_break.py $d/ 2>/dev/null
git -C /repo worktree remove --force $wt
ls $d
