"""Correspondence check: run scenarios on the implementation (worker processes), replay the same
command lines on the compiled Lean driver, compare the canonical output streams."""
import json
import multiprocessing as mp
import os
import subprocess
import sys
import time
import traceback
import hashlib

HERE = os.path.dirname(os.path.abspath(__file__))
DRIVER = os.path.join(HERE, "..", "lean", ".lake", "build", "bin", "jsl_driver")

_worker_ready = False


def _init_worker():
    global _worker_ready
    sys.path.insert(0, HERE)
    import impl_trace  # noqa  (heavy imports happen once per worker)
    _worker_ready = True


def run_one(scen):
    """executed in a worker: returns a JSON-able result"""
    import impl_trace
    import gen
    import monitors
    t0 = time.time()
    res = {"id": scen["id"], "family": scen.get("family"), "ok": True}
    try:
        if scen.get("c06tree"):
            f, st = c06_tree(scen)
            res.update(cmds=[], out=[], steps=st.get("states", 0), unrep="c06-tree-probe", compile_error=None, findings=f,
                       stats={"c06tree": st})
            res["wall"] = time.time() - t0
            return res
        if scen.get("malformed"):
            res.update(cmds=[], out=[], steps=0, unrep="malformed-probe", compile_error=None,
                       findings=malformed_probe(scen), stats={})
            res["wall"] = time.time() - t0
            return res
        run = impl_trace.Run(scen, step_timeout=scen.get("step_timeout", 6))
        n = drive(run, scen)
        run.twin = None
        run.c13 = None
        if scen.get("probes", {}).get("c17") and run.env is not None:
            run.c17_findings = c17_twin(run, scen)
        if scen.get("probes", {}).get("c13") and run.env is not None and scen["policy"]["kind"] != "multi":
            run.c13 = c13_twins(run, scen)
        if scen.get("probes", {}).get("shift") and run.env is not None and scen["policy"]["kind"] != "multi":
            run.twin = shift_twin(run, scen)
        res.update(cmds=run.cmds, out=run.out, steps=n, unrep=run.unrep,
                   compile_error=(None if run.compile_error is None else impl_trace.err_name(run.compile_error)))
        res["findings"], res["stats"] = monitors.check_all(run, scen)
    except Exception as e:  # harness failure, not a property violation
        res.update(ok=False, error="".join(traceback.format_exception(type(e), e, e.__traceback__))[-3000:])
    res["wall"] = time.time() - t0
    return res


def drive(run, scen):
    """episode logic: policy actions interleaved with the probes the scenario asks for"""
    import random
    import gen
    alive = run.start()
    pol = gen.Policy(scen["policy"])
    probes = scen.get("probes", {})
    rnd = random.Random(scen["policy"].get("seed", 0) ^ 0x5EED)
    n = 0
    multi = scen["policy"]["kind"] == "multi"
    while alive and n < scen.get("max_steps", 500):
        if probes.get("invalid") and rnd.random() < 0.08:
            if not run.probe_invalid(rnd.choice([2, -1, 3, 0.5, "1", None, 7])):
                break
        if probes.get("c20") and rnd.random() < 0.12:
            run.probe_c20(rnd)
        if multi and rnd.random() < 0.6:
            alive = run.multi_step(rnd)
        else:
            alive = run.act(pol.choose(run.env))
        n += 1
    if run.env is not None and run.records[-1].error is None:
        if run.env.done and not probes.get("c13"):
            run.probe_after_done()
        elif probes.get("envfail") and alive:
            run.probe_env_failure()
        if probes.get("reset"):
            run.probe_reset()
    run.end()
    return n


def c06_optimum(jobs, want_order=False):
    """exact optimum of a classic instance, independent of the library: branch over operation sequences"""
    nj = len(jobs)
    nm = 1 + max(m for ops in jobs for m, _ in ops)
    best = [10 ** 9]
    order = [None]

    def rec(nxt, jr, mr, seq=()):
        if all(nxt[j] == len(jobs[j]) for j in range(nj)):
            if max(jr + [0]) < best[0]:
                best[0] = max(jr + [0])
                order[0] = seq
            return
        if max(jr + [0]) >= best[0]:
            return
        for j in range(nj):
            if nxt[j] < len(jobs[j]):
                m, d = jobs[j][nxt[j]]
                st = max(jr[j], mr[m])
                n2, j2, m2 = list(nxt), list(jr), list(mr)
                n2[j] += 1
                j2[j] = m2[m] = st + d
                rec(n2, j2, m2, seq + (j,))
    rec([0] * nj, [0] * nj, [0] * nm)
    if want_order:
        return best[0], order[0]
    return best[0]


def c06_guided(env, mw, jobs, order, is_done):
    """accept a machine start only when it is the next one of the target order on that machine"""
    from jobshoplab.utils.utils import get_id_int
    # per machine: the sequence of jobs in target order
    seqs, nxt = {}, [0] * len(jobs)
    for j in order:
        m = jobs[j][nxt[j]][0]
        nxt[j] += 1
        seqs.setdefault(m, []).append(j)
    started = {m: 0 for m in seqs}
    result, actions = env.state, ()
    for _ in range(4000):
        if len(result.possible_transitions) == 0:
            if is_done(result.state, env.instance):
                return result.state.time.time, actions
            return None, actions
        tr = result.possible_transitions[0]
        a = 1
        if tr.component_id.startswith("m-"):
            m, j = get_id_int(tr.component_id), get_id_int(tr.job_id)
            want = seqs.get(m, [])
            a = 1 if started.get(m, 0) < len(want) and want[started[m]] == j else 0
        try:
            nres, _ = mw.step(result, a)
        except Exception:  # noqa
            return None, actions
        if not nres.success:
            return None, actions
        if a == 1 and tr.component_id.startswith("m-"):
            started[get_id_int(tr.component_id)] += 1
        result, actions = nres, actions + (a,)
    return None, actions


def c06_tree(scen):
    """C06: the whole accept/decline tree of a tiny classic instance on the real environment
    (through its middleware, memoised on state + offers); smallest terminal makespan against an
    independent optimum, the environment's lower bound against that optimum, and every terminal
    makespan against the optimum (no shortcut)"""
    import impl_trace
    import signal
    from jobshoplab import JobShopLabEnv
    from jobshoplab.compiler import Compiler
    from jobshoplab.compiler.repos import DslStrRepository
    from jobshoplab.state_machine.core.state_machine.state import is_done
    jobs = [[tuple(o) for o in j] for j in scen["c06tree"]]
    opt, order = c06_optimum(jobs, want_order=True)
    cfg = impl_trace.make_config(scen["cfg"])
    out = []

    def F(sig, detail):
        out.append({"property": "C06", "sig": sig, "detail": detail, "step": None, "scenario": scen["id"], "facts": {"always": True}})
    signal.signal(signal.SIGALRM, impl_trace._alarm)
    signal.alarm(scen.get("tree_timeout", 240))
    stats = {"optimum": opt, "states": 0}
    try:
        repo = DslStrRepository(scen["dsl"], "warning", cfg)
        env = JobShopLabEnv(config=cfg, compiler=Compiler(cfg, "warning", repo=repo))
        env.reset(seed=0)
        mw = env.state_simulator
        horizon = env.max_allowed_time
        seen, stack = set(), [(env.state, ())]
        best, best_actions, terminals = None, None, 0
        # guided run first: realise the optimal operation order found by the independent search
        g = c06_guided(env, mw, jobs, order, is_done)
        stats["guided"] = g[0]
        if g[0] is not None:
            if g[0] < opt:
                F("terminal-makespan-below-optimum", f"jobs {jobs}: makespan {g[0]} < optimum {opt} via actions {g[1]}")
            best, best_actions = g
        while stack:
            result, actions = stack.pop()
            key = (repr(result.state), repr(result.possible_transitions))
            if key in seen:
                continue
            seen.add(key)
            if len(result.possible_transitions) == 0:
                if is_done(result.state, env.instance):
                    terminals += 1
                    mk = result.state.time.time
                    if mk < opt:
                        F("terminal-makespan-below-optimum", f"jobs {jobs}: makespan {mk} < optimum {opt} via actions {actions}")
                        break
                    if best is None or mk < best:
                        best, best_actions = mk, actions
                continue
            # nothing beyond the best makespan found so far can improve it, and a terminal state below
            # the optimum would lie below it too
            if result.state.time.time > (horizon if best is None else best):
                continue
            if len(seen) > scen.get("tree_cap", 40000):
                stats["capped"] = True
                break
            for a in (0, 1):
                try:
                    nxt, _ = mw.step(result, a)
                except impl_trace.StepTimeout:
                    raise
                except Exception:  # noqa  (failures of single steps are C05's matter)
                    continue
                if nxt.success:
                    stack.append((nxt, actions + (a,)))
        stats.update(states=len(seen), terminals=terminals, best=best, lower_bound=env.lower_bound)
        if not out:
            if stats.get("capped"):
                pass
            elif best is None:
                F("no-terminal-state-reachable", f"jobs {jobs}: no accept/decline sequence finishes the instance")
            elif best != opt:
                F("optimum-not-reachable", f"jobs {jobs}: smallest reachable makespan {best} (actions {best_actions}), optimum {opt}")
            if env.lower_bound > opt:
                F("lower-bound-exceeds-optimum", f"jobs {jobs}: lower bound {env.lower_bound} > optimum {opt}")
    except impl_trace.StepTimeout:
        stats["timeout"] = True
    finally:
        signal.alarm(0)
    return out, stats


def malformed_probe(scen):
    """C16: a document with one defect must be rejected with one of the library's own error types"""
    import impl_trace
    import signal
    from jobshoplab.compiler import Compiler
    from jobshoplab.compiler.repos import DslStrRepository
    from jobshoplab.utils.exceptions import JobShopException
    cfg = impl_trace.make_config(scen["cfg"])
    kind = scen["malformed"]
    signal.signal(signal.SIGALRM, impl_trace._alarm)
    signal.alarm(20)
    compiled = None
    try:
        repo = DslStrRepository(scen["dsl"], "warning", cfg)
        compiled = Compiler(cfg, "warning", repo=repo).compile()
    except JobShopException:
        return []
    except impl_trace.StepTimeout:
        return [{"property": "C16", "sig": f"malformed-hangs:{kind}", "detail": "compile did not return", "step": None,
                 "scenario": scen["id"], "facts": {"always": True}}]
    except Exception as e:  # noqa
        return [{"property": "C16", "sig": f"malformed-foreign-exception:{kind}:{type(e).__name__}", "detail": repr(e)[:300],
                 "step": None, "scenario": scen["id"], "facts": {"always": True}}]
    finally:
        signal.alarm(0)
    out = [{"property": "C16", "sig": f"malformed-accepted:{kind}", "detail": "compiled without complaint", "step": None,
            "scenario": scen["id"], "facts": {"always": True}}]
    if kind.startswith("init-store") and compiled is not None:
        # C17: what was compiled instead - is every job in exactly one buffer, the one its location names?
        _inst, st = compiled
        holders = {}
        bufs = list(st.buffers) + [b for m in st.machines for b in (m.prebuffer, m.buffer, m.postbuffer)] + [t.buffer for t in st.transports]
        for b in bufs:
            for j in b.store:
                holders.setdefault(j, []).append(b.id)
        known = {j.id: j.location for j in st.jobs}
        bad = [f"{j} in {hs}" for j, hs in holders.items() if len(hs) != 1 or j not in known or known[j] != hs[0]]
        bad += [f"{j} in no buffer" for j in known if j not in holders]
        if bad:
            out.append({"property": "C17", "sig": "initial-state-not-conserved:inconsistent-listing-compiled",
                        "detail": "; ".join(bad)[:300], "step": None, "scenario": scen["id"], "facts": {"always": True}})
    return out


def c17_twin(run, scen):
    """C17: the same text compiled again – here, and twice in a fresh interpreter with another hash
    seed – gives the same instance and initial state"""
    import impl_trace
    import proto
    from jobshoplab.compiler import Compiler
    from jobshoplab.compiler.repos import DslStrRepository
    mine = [l for l in run.compiler.header if not l.startswith("ORC ")]
    out = []
    repo = DslStrRepository(scen["dsl"], "warning", run.cfg)
    inst, st = Compiler(run.cfg, "warning", repo=repo).compile()
    again = [l for l in proto.header_lines(inst, st)[0] if not l.startswith("ORC ")]
    if again != mine:
        d = next((i for i, (a, b) in enumerate(zip(mine, again)) if a != b), min(len(mine), len(again)))
        out.append({"sig": "recompile-differs:same-process", "detail": f"line {d}: {mine[d:d+1]} vs {again[d:d+1]}", "step": None})
    if inst != run.instance or st != run.init_state:
        out.append({"sig": "recompile-not-equal:same-process", "detail": "dataclass equality of instance / initial state", "step": None})
    try:
        env = dict(os.environ, PYTHONHASHSEED=str(scen["probes"]["c17"] % 4000 + 1))
        p = subprocess.run([sys.executable, os.path.join(HERE, "twin_c17.py")], input=json.dumps(dict(dsl=scen["dsl"], cfg=scen["cfg"])),
                           capture_output=True, text=True, timeout=120, env=env)
        if p.returncode == 0:
            for k, other in enumerate(json.loads(p.stdout)):
                if other != mine:
                    d = next((i for i, (a, b) in enumerate(zip(mine, other)) if a != b), min(len(mine), len(other)))
                    out.append({"sig": "recompile-differs:other-process", "detail": f"compile #{k}: line {d}: {mine[d:d+1]} vs {other[d:d+1]}", "step": None})
                    break
    except Exception:  # noqa  (harness problem, not a statement about the property)
        pass
    return out


def c13_twins(run, scen):
    """C13: this process finishes the scenario with a reset + replay; fresh interpreters with other
    hash seeds, disturbed global random state and a second live environment replay the same
    actions; for instances without stochastic elements one twin uses a different seed"""
    import impl_trace
    actions = [rec.action for rec in run.records if rec.kind == "act"]
    first = [l for l in run.out if l[:1] in "STOAVFRXL" ]
    second = impl_trace.two_episodes(run, actions, start=False)
    mine = first + second["lines"]
    slim = {k: v for k, v in scen.items() if k not in ("doc",)}
    slim["probes"] = {}
    twins = []
    deterministic = not run.stoch_objs
    jobs = [dict(junk=scen["probes"]["c13"], other=None, hashseed=str(1 + scen["probes"]["c13"] % 4000), seed_override=None),
            dict(junk=scen["probes"]["c13"] + 1, other=slim, hashseed="0", seed_override=None)]
    if deterministic:
        jobs.append(dict(junk=3, other=None, hashseed="77", seed_override=int(scen.get("seed", 0)) + 1 + scen["probes"]["c13"] % 5))
    for jb in jobs:
        env = dict(os.environ, PYTHONHASHSEED=jb["hashseed"])
        spec = dict(scen=slim, actions=actions, junk=jb["junk"], other=jb["other"], seed_override=jb["seed_override"])
        try:
            p = subprocess.run([sys.executable, os.path.join(HERE, "twin_c13.py")], input=json.dumps(spec), capture_output=True,
                               text=True, timeout=300, env=env)
            if p.returncode != 0:
                twins.append(dict(job={k: v for k, v in jb.items() if k != "other"}, error=p.stderr[-800:]))
                continue
            twins.append(dict(job={k: (v if k != "other" else bool(v)) for k, v in jb.items()}, lines=json.loads(p.stdout)["lines"]))
        except Exception as e:  # noqa
            twins.append(dict(job={k: v for k, v in jb.items() if k != "other"}, error=repr(e)))
    return dict(mine=mine, twins=twins, deterministic=deterministic)


def shift_twin(run, scen):
    """C12: the same scenario started `delta` later, driven by the same agent actions; only looked at
    by the implementation-side monitor (nothing of it is sent to the model)"""
    import impl_trace
    import yaml
    doc = yaml.safe_load(scen["dsl"])
    init = dict(doc.get("init_state") or {})
    delta = scen["probes"]["shift"]
    init["start_time"] = int(init.get("start_time", 0)) + delta
    doc["init_state"] = init
    scen2 = dict(scen, dsl=yaml.safe_dump(doc, sort_keys=False), id=scen["id"] + "-shift")
    tw = impl_trace.Run(scen2, step_timeout=scen.get("step_timeout", 6))
    tw.delta = delta
    alive = tw.start()
    for rec in run.records:
        if rec.kind != "act":
            continue
        if not alive or tw.env is None:
            break
        alive = tw.act(rec.action)
    return tw


def run_scenarios(scens, nproc=None):
    nproc = nproc or min(16, os.cpu_count() or 4)
    if nproc <= 1 or len(scens) <= 1:
        _init_worker()
        return [run_one(s) for s in scens]
    ctx = mp.get_context("fork")
    with ctx.Pool(nproc, initializer=_init_worker) as pool:
        return pool.map(run_one, scens, chunksize=max(1, len(scens) // (nproc * 4)))


def run_driver(cmd_lines, timeout=600):
    p = subprocess.run([DRIVER], input="\n".join(cmd_lines) + "\n", capture_output=True, text=True,
                       timeout=timeout)
    if p.returncode != 0:
        raise RuntimeError(f"driver exit {p.returncode}: {p.stderr[:500]}")
    return p.stdout.splitlines()


def split_scenarios(lines):
    out, cur = [], []
    for l in lines:
        cur.append(l)
        if l == "E":
            out.append(cur)
            cur = []
    if cur:
        out.append(cur)
    return out


def compare(results, kinds=None):
    """feed all command streams to the driver; returns list of (result, index, py_line, lean_line).
    `kinds`: set of line kinds (first char) to compare; None = all."""
    import canon
    have = [r for r in results if r.get("ok") and r.get("cmds")]
    if not have:
        return []
    # drivers in parallel chunks
    chunks = [have[i::8] for i in range(8)]
    chunks = [c for c in chunks if c]
    from concurrent.futures import ThreadPoolExecutor

    def drive(chunk):
        cmds = []
        for r in chunk:
            cmds += r["cmds"]
        return split_scenarios(run_driver(cmds))

    with ThreadPoolExecutor(len(chunks)) as ex:
        outs = list(ex.map(drive, chunks))
    diffs = []
    for chunk, mouts in zip(chunks, outs):
        if len(mouts) != len(chunk):
            raise RuntimeError(f"driver produced {len(mouts)} scenario outputs for {len(chunk)} scenarios")
        for r, mo in zip(chunk, mouts):
            po = r["out"]
            r["model_out_len"] = len(mo)
            d = None
            for i in range(max(len(po), len(mo))):
                a = po[i] if i < len(po) else "<missing>"
                b = mo[i] if i < len(mo) else "<missing>"
                if kinds is not None and a[:1] not in kinds and b[:1] not in kinds and a[:1] == b[:1]:
                    continue
                if not canon.lines_equal(a, b):
                    d = (i, a, b)
                    break
            if d:
                diffs.append((r, d[0], d[1], d[2]))
    return diffs


def scen_hash(scen):
    h = hashlib.sha256()
    h.update(scen["dsl"].encode())
    h.update(json.dumps(scen["cfg"], sort_keys=True).encode())
    h.update(json.dumps(scen["policy"], sort_keys=True).encode())
    return h.hexdigest()[:16]
