"""Correspondence check: run scenarios on the implementation (worker processes), replay the same
command lines on the compiled Lean driver, compare the canonical output streams."""
import json
import multiprocessing as mp
import os
import subprocess
import sys
import time
import traceback
import hashlib

HERE = os.path.dirname(os.path.abspath(__file__))
DRIVER = os.path.join(HERE, "..", "lean", ".lake", "build", "bin", "jsl_driver")

_worker_ready = False


def _init_worker():
    global _worker_ready
    sys.path.insert(0, HERE)
    import impl_trace  # noqa  (heavy imports happen once per worker)
    _worker_ready = True


def run_one(scen):
    """executed in a worker: returns a JSON-able result"""
    import impl_trace
    import gen
    import monitors
    t0 = time.time()
    res = {"id": scen["id"], "family": scen.get("family"), "ok": True}
    try:
        if scen.get("malformed"):
            res.update(cmds=[], out=[], steps=0, unrep="malformed-probe", compile_error=None,
                       findings=malformed_probe(scen), stats={})
            res["wall"] = time.time() - t0
            return res
        run = impl_trace.Run(scen, step_timeout=scen.get("step_timeout", 6))
        n = drive(run, scen)
        run.twin = None
        run.c13 = None
        if scen.get("probes", {}).get("c17") and run.env is not None:
            run.c17_findings = c17_twin(run, scen)
        if scen.get("probes", {}).get("c13") and run.env is not None and scen["policy"]["kind"] != "multi":
            run.c13 = c13_twins(run, scen)
        if scen.get("probes", {}).get("shift") and run.env is not None and scen["policy"]["kind"] != "multi":
            run.twin = shift_twin(run, scen)
        res.update(cmds=run.cmds, out=run.out, steps=n, unrep=run.unrep,
                   compile_error=(None if run.compile_error is None else impl_trace.err_name(run.compile_error)))
        res["findings"], res["stats"] = monitors.check_all(run, scen)
    except Exception as e:  # harness failure, not a property violation
        res.update(ok=False, error="".join(traceback.format_exception(type(e), e, e.__traceback__))[-3000:])
    res["wall"] = time.time() - t0
    return res


def drive(run, scen):
    """episode logic: policy actions interleaved with the probes the scenario asks for"""
    import random
    import gen
    alive = run.start()
    pol = gen.Policy(scen["policy"])
    probes = scen.get("probes", {})
    rnd = random.Random(scen["policy"].get("seed", 0) ^ 0x5EED)
    n = 0
    multi = scen["policy"]["kind"] == "multi"
    while alive and n < scen.get("max_steps", 500):
        if probes.get("invalid") and rnd.random() < 0.08:
            if not run.probe_invalid(rnd.choice([2, -1, 3, 0.5, "1", None, 7])):
                break
        if probes.get("c20") and rnd.random() < 0.12:
            run.probe_c20(rnd)
        if multi and rnd.random() < 0.6:
            alive = run.multi_step(rnd)
        else:
            alive = run.act(pol.choose(run.env))
        n += 1
    if run.env is not None and run.records[-1].error is None:
        if run.env.done and not probes.get("c13"):
            run.probe_after_done()
        elif probes.get("envfail") and alive:
            run.probe_env_failure()
        if probes.get("reset"):
            run.probe_reset()
    run.end()
    return n


def malformed_probe(scen):
    """C16: a document with one defect must be rejected with one of the library's own error types"""
    import impl_trace
    import signal
    from jobshoplab.compiler import Compiler
    from jobshoplab.compiler.repos import DslStrRepository
    from jobshoplab.utils.exceptions import JobShopException
    cfg = impl_trace.make_config(scen["cfg"])
    kind = scen["malformed"]
    signal.signal(signal.SIGALRM, impl_trace._alarm)
    signal.alarm(20)
    try:
        repo = DslStrRepository(scen["dsl"], "warning", cfg)
        Compiler(cfg, "warning", repo=repo).compile()
    except JobShopException:
        return []
    except impl_trace.StepTimeout:
        return [{"property": "C16", "sig": f"malformed-hangs:{kind}", "detail": "compile did not return", "step": None,
                 "scenario": scen["id"], "facts": {"always": True}}]
    except Exception as e:  # noqa
        return [{"property": "C16", "sig": f"malformed-foreign-exception:{kind}:{type(e).__name__}", "detail": repr(e)[:300],
                 "step": None, "scenario": scen["id"], "facts": {"always": True}}]
    finally:
        signal.alarm(0)
    return [{"property": "C16", "sig": f"malformed-accepted:{kind}", "detail": "compiled without complaint", "step": None,
             "scenario": scen["id"], "facts": {"always": True}}]


def c17_twin(run, scen):
    """C17: the same text compiled again – here, and twice in a fresh interpreter with another hash
    seed – gives the same instance and initial state"""
    import impl_trace
    import proto
    from jobshoplab.compiler import Compiler
    from jobshoplab.compiler.repos import DslStrRepository
    mine = [l for l in run.compiler.header if not l.startswith("ORC ")]
    out = []
    repo = DslStrRepository(scen["dsl"], "warning", run.cfg)
    inst, st = Compiler(run.cfg, "warning", repo=repo).compile()
    again = [l for l in proto.header_lines(inst, st)[0] if not l.startswith("ORC ")]
    if again != mine:
        d = next((i for i, (a, b) in enumerate(zip(mine, again)) if a != b), min(len(mine), len(again)))
        out.append({"sig": "recompile-differs:same-process", "detail": f"line {d}: {mine[d:d+1]} vs {again[d:d+1]}", "step": None})
    if inst != run.instance or st != run.init_state:
        out.append({"sig": "recompile-not-equal:same-process", "detail": "dataclass equality of instance / initial state", "step": None})
    try:
        env = dict(os.environ, PYTHONHASHSEED=str(scen["probes"]["c17"] % 4000 + 1))
        p = subprocess.run([sys.executable, os.path.join(HERE, "twin_c17.py")], input=json.dumps(dict(dsl=scen["dsl"], cfg=scen["cfg"])),
                           capture_output=True, text=True, timeout=120, env=env)
        if p.returncode == 0:
            for k, other in enumerate(json.loads(p.stdout)):
                if other != mine:
                    d = next((i for i, (a, b) in enumerate(zip(mine, other)) if a != b), min(len(mine), len(other)))
                    out.append({"sig": "recompile-differs:other-process", "detail": f"compile #{k}: line {d}: {mine[d:d+1]} vs {other[d:d+1]}", "step": None})
                    break
    except Exception:  # noqa  (harness problem, not a statement about the property)
        pass
    return out


def c13_twins(run, scen):
    """C13: this process finishes the scenario with a reset + replay; fresh interpreters with other
    hash seeds, disturbed global random state and a second live environment replay the same
    actions; for instances without stochastic elements one twin uses a different seed"""
    import impl_trace
    actions = [rec.action for rec in run.records if rec.kind == "act"]
    first = [l for l in run.out if l[:1] in "STOAVFRXL" ]
    second = impl_trace.two_episodes(run, actions, start=False)
    mine = first + second["lines"]
    slim = {k: v for k, v in scen.items() if k not in ("doc",)}
    slim["probes"] = {}
    twins = []
    deterministic = not run.stoch_objs
    jobs = [dict(junk=scen["probes"]["c13"], other=None, hashseed=str(1 + scen["probes"]["c13"] % 4000), seed_override=None),
            dict(junk=scen["probes"]["c13"] + 1, other=slim, hashseed="0", seed_override=None)]
    if deterministic:
        jobs.append(dict(junk=3, other=None, hashseed="77", seed_override=int(scen.get("seed", 0)) + 1 + scen["probes"]["c13"] % 5))
    for jb in jobs:
        env = dict(os.environ, PYTHONHASHSEED=jb["hashseed"])
        spec = dict(scen=slim, actions=actions, junk=jb["junk"], other=jb["other"], seed_override=jb["seed_override"])
        try:
            p = subprocess.run([sys.executable, os.path.join(HERE, "twin_c13.py")], input=json.dumps(spec), capture_output=True,
                               text=True, timeout=300, env=env)
            if p.returncode != 0:
                twins.append(dict(job={k: v for k, v in jb.items() if k != "other"}, error=p.stderr[-800:]))
                continue
            twins.append(dict(job={k: (v if k != "other" else bool(v)) for k, v in jb.items()}, lines=json.loads(p.stdout)["lines"]))
        except Exception as e:  # noqa
            twins.append(dict(job={k: v for k, v in jb.items() if k != "other"}, error=repr(e)))
    return dict(mine=mine, twins=twins, deterministic=deterministic)


def shift_twin(run, scen):
    """C12: the same scenario started `delta` later, driven by the same agent actions; only looked at
    by the implementation-side monitor (nothing of it is sent to the model)"""
    import impl_trace
    import yaml
    doc = yaml.safe_load(scen["dsl"])
    init = dict(doc.get("init_state") or {})
    delta = scen["probes"]["shift"]
    init["start_time"] = int(init.get("start_time", 0)) + delta
    doc["init_state"] = init
    scen2 = dict(scen, dsl=yaml.safe_dump(doc, sort_keys=False), id=scen["id"] + "-shift")
    tw = impl_trace.Run(scen2, step_timeout=scen.get("step_timeout", 6))
    tw.delta = delta
    alive = tw.start()
    for rec in run.records:
        if rec.kind != "act":
            continue
        if not alive or tw.env is None:
            break
        alive = tw.act(rec.action)
    return tw


def run_scenarios(scens, nproc=None):
    nproc = nproc or min(16, os.cpu_count() or 4)
    if nproc <= 1 or len(scens) <= 1:
        _init_worker()
        return [run_one(s) for s in scens]
    ctx = mp.get_context("fork")
    with ctx.Pool(nproc, initializer=_init_worker) as pool:
        return pool.map(run_one, scens, chunksize=max(1, len(scens) // (nproc * 4)))


def run_driver(cmd_lines, timeout=600):
    p = subprocess.run([DRIVER], input="\n".join(cmd_lines) + "\n", capture_output=True, text=True,
                       timeout=timeout)
    if p.returncode != 0:
        raise RuntimeError(f"driver exit {p.returncode}: {p.stderr[:500]}")
    return p.stdout.splitlines()


def split_scenarios(lines):
    out, cur = [], []
    for l in lines:
        cur.append(l)
        if l == "E":
            out.append(cur)
            cur = []
    if cur:
        out.append(cur)
    return out


def compare(results, kinds=None):
    """feed all command streams to the driver; returns list of (result, index, py_line, lean_line).
    `kinds`: set of line kinds (first char) to compare; None = all."""
    import canon
    have = [r for r in results if r.get("ok") and r.get("cmds")]
    if not have:
        return []
    # drivers in parallel chunks
    chunks = [have[i::8] for i in range(8)]
    chunks = [c for c in chunks if c]
    from concurrent.futures import ThreadPoolExecutor

    def drive(chunk):
        cmds = []
        for r in chunk:
            cmds += r["cmds"]
        return split_scenarios(run_driver(cmds))

    with ThreadPoolExecutor(len(chunks)) as ex:
        outs = list(ex.map(drive, chunks))
    diffs = []
    for chunk, mouts in zip(chunks, outs):
        if len(mouts) != len(chunk):
            raise RuntimeError(f"driver produced {len(mouts)} scenario outputs for {len(chunk)} scenarios")
        for r, mo in zip(chunk, mouts):
            po = r["out"]
            r["model_out_len"] = len(mo)
            d = None
            for i in range(max(len(po), len(mo))):
                a = po[i] if i < len(po) else "<missing>"
                b = mo[i] if i < len(mo) else "<missing>"
                if kinds is not None and a[:1] not in kinds and b[:1] not in kinds and a[:1] == b[:1]:
                    continue
                if not canon.lines_equal(a, b):
                    d = (i, a, b)
                    break
            if d:
                diffs.append((r, d[0], d[1], d[2]))
    return diffs


def scen_hash(scen):
    h = hashlib.sha256()
    h.update(scen["dsl"].encode())
    h.update(json.dumps(scen["cfg"], sort_keys=True).encode())
    h.update(json.dumps(scen["policy"], sort_keys=True).encode())
    return h.hexdigest()[:16]
