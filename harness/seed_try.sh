#!/bin/bash
# seed_try.sh <seed-dir-name> <worktree> <prop> [more props...] : store the seed, apply to /repo, run quick checks, revert
set -u
name=$1; wt=$2; shift 2
d=/verif/seeded/$name
mkdir -p $d
git -C $wt diff -- jobshoplab > $d/patch.diff
cp $wt/demo_break.py $d/ 2>/dev/null
(cd $wt && /venv/bin/python demo_break.py >/dev/null 2>&1; echo "demo with change: exit $?")
(cd $wt && git checkout -- jobshoplab && /venv/bin/python demo_break.py >/dev/null 2>&1; echo "demo without change: exit $?"; git apply $d/patch.diff)
git -C /repo apply $d/patch.diff || exit 3
for p in "$@"; do
  echo "== check $p"
  (cd /verif && ./check $p quick 2>&1 | grep -v "^WARNING" | head -6)
done
git -C /repo checkout -- .
git -C /repo status --short | head -3
