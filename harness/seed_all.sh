#!/bin/bash
# seed_all.sh : re-run every stored seed against a scratch copy of /verif and a scratch worktree of /repo
# (so that the main trees stay usable meanwhile); results in /verif/seeded/RERUN.log
set -u
V2=/tmp/seedrun/verif; R2=/tmp/seedrun/repo
rm -rf /tmp/seedrun; mkdir -p /tmp/seedrun
git -C /repo worktree prune
git -C /repo worktree add --detach $R2 HEAD >/dev/null 2>&1 || exit 3
rsync -a --exclude replays --exclude .git /verif/ $V2/
log=/verif/seeded/RERUN.log; : > $log
for d in /verif/seeded/C*/; do
  name=$(basename $d); p=${name%%-*}
  git -C $R2 apply $d/patch.diff || { echo "$name APPLY-FAILED" >> $log; continue; }
  out=$(cd $V2 && JSL_REPO=$R2 ./check $p quick 2>&1 | grep -v "^WARNING" | cut -c1-300 | head -4)
  echo "$name :: $(echo "$out" | tr '\n' ' ' | cut -c1-500)" >> $log
  git -C $R2 checkout -- . ; git -C $R2 clean -fdq
done
git -C /repo worktree remove --force $R2
rm -rf /tmp/seedrun
echo DONE >> $log
