"""Per-property wiring: which scenario families exercise it, which canonical line kinds its
correspondence compares, which Lean module holds its theorems.

Line kinds: T micro-state after an applied transition, S state at return, O offers, A step result
flags, V observation, F env flags, R reward, L lower bound / max time, X error class, E end.
"""

CORE = "GTSOAXE"

PROPS = {
    "C01": dict(families=["ordered", "classic", "transport", "buffers", "setup", "outage", "stoch", "mixed", "bigids"], kinds=CORE),
    "C02": dict(families=["classic", "setup", "outage", "stoch", "mixed", "shifted"], kinds=CORE),
    "C03": dict(families=["ordered", "transport", "buffers", "mixed", "classic", "outage", "bigids"], kinds=CORE),
    "C04": dict(families=["classic", "transport", "mixed", "buffers"], kinds=CORE + "F"),
    "C05": dict(families=["ordered", "classic", "transport", "buffers", "outage", "stoch", "mixed"], kinds=CORE + "FK"),
    "C06": dict(families=["classic"], kinds=CORE + "LFRK"),
    "C07": dict(families=["ordered", "transport", "stoch", "mixed", "buffers"], kinds=CORE),
    "C08": dict(families=["ordered", "buffers", "mixed", "transport"], kinds=CORE),
    "C09": dict(families=["setup", "stoch", "mixed", "bigids"], kinds=CORE),
    "C10": dict(families=["outage", "stoch", "mixed"], kinds=CORE),
    "C11": dict(families=["ordered", "transport", "buffers", "mixed", "classic"], kinds=CORE),
    "C12": dict(families=["ordered", "shifted", "transport", "outage", "mixed", "classic"], kinds=CORE),
    "C13": dict(families=["classic", "stoch", "mixed", "buffers"], kinds=CORE + "VFRL"),
    "C14": dict(families=["classic", "transport", "bigids", "mixed", "shifted", "buffers"], kinds="GBSOAVFXE"),
    "C15": dict(families=["classic", "transport", "bigids", "mixed", "buffers"], kinds="GBSOAVXE"),
    "C16": dict(families=["classic", "transport", "buffers", "setup", "outage", "stoch", "mixed", "bigids"], kinds="CGX"),
    "C17": dict(families=["classic", "transport", "buffers", "setup", "outage", "mixed", "bigids"], kinds="CGX"),
    "C18": dict(families=["classic", "transport", "mixed", "buffers"], kinds=CORE + "F"),
    "C19": dict(families=["classic", "transport", "mixed", "shifted"], kinds="GSOAFRLXE"),
    "C20": dict(families=["classic", "transport", "buffers", "stoch", "mixed"], kinds=CORE + "F"),
}

TRUSTED_BASE = [
    "Lean 4.33.0 kernel (leanchecker re-check in the thorough tier)",
    "axioms allowed: propext, Classical.choice, Quot.sound (audited with #print axioms on every run)",
    "harness/gen_tables.py: enumerates each finite-domain Python function completely",
    "harness correspondence check (impl_trace/canon/proto/corr) and the Lean driver's parser/printer",
    "leanc / C toolchain compiling the driver",
    "all Python code is modelled, not verified; outside the model: PyYAML, numpy generators, "
    "gymnasium contains(), float32/float64 rounding, logging, rendering, manipulators, legacy m-*/t-* job locations",
]
