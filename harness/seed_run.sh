#!/bin/bash
# seed_run.sh <seed-dir-name> [props...] : apply a stored seed to /repo, run the quick checks, revert
set -u
name=$1; shift
d=/verif/seeded/$name
props="$@"
[ -z "$props" ] && props=${name%%-*}
git -C /repo apply $d/patch.diff || exit 3
for p in $props; do
  echo "== $name: check $p"
  (cd /verif && ./check $p quick 2>&1 | grep -v "^WARNING\|^KNOWN-FINDING" | cut -c1-400 | head -6; echo "exit=${PIPESTATUS[0]}")
done
git -C /repo checkout -- .
git -C /repo status --short | head -3
