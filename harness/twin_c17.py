#!/usr/bin/env python3
"""C17 twin: compile one DSL text in a fresh interpreter (own PYTHONHASHSEED) and print the
canonical description of the result (instance + initial state, without sampled values)."""
import json
import os
import sys

HERE = os.path.dirname(os.path.abspath(__file__))
sys.path.insert(0, HERE)


def main():
    spec = json.load(sys.stdin)
    import impl_trace
    import proto
    from jobshoplab.compiler import Compiler
    from jobshoplab.compiler.repos import DslStrRepository
    cfg = impl_trace.make_config(spec["cfg"])
    out = []
    for _ in range(2):   # twice in this process as well
        repo = DslStrRepository(spec["dsl"], "warning", cfg)
        inst, st = Compiler(cfg, "warning", repo=repo).compile()
        hdr, _sids = proto.header_lines(inst, st)
        out.append([l for l in hdr if not l.startswith("ORC ")])
    json.dump(out, sys.stdout)


if __name__ == "__main__":
    main()
