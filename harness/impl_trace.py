"""Run one scenario on the REAL implementation (in-process), producing

* `cmds`  – header + command lines for the Lean driver,
* `out`   – the canonical lines the implementation produced,
* `trace` – live Python objects per step for the property monitors.

No change to /repo is needed: `state.process_state_transitions` looks `apply_transition` up
through its module global, so it is wrapped at run time to observe the pre/post state of
every applied transition; `StochasticTimeConfig.update` is wrapped the same way.
"""
import os
import signal
import sys
import random
import tempfile
import warnings
from dataclasses import replace
from pathlib import Path

warnings.filterwarnings("ignore")
import logging

logging.disable(logging.CRITICAL)

import numpy as np

REPO = os.environ.get("JSL_REPO", "/repo")

import jobshoplab.state_machine.core.state_machine.state as sm_state
from jobshoplab import JobShopLabEnv
from jobshoplab.compiler import Compiler
from jobshoplab.compiler.repos import DslStrRepository
from jobshoplab.types.stochasticy_models import StochasticTimeConfig
from jobshoplab.utils.load_config import load_config
from jobshoplab.state_machine import time_machines
from jobshoplab.types.action_types import Action, ActionFactoryInfo

import canon
import proto

_BASE_CFG = None


def base_config():
    global _BASE_CFG
    if _BASE_CFG is None:
        import atexit
        import shutil
        d = tempfile.mkdtemp(prefix="jslcfg")
        atexit.register(shutil.rmtree, d, True)      # one stub per process; removed when the process ends
        stub = Path(d) / "stub.py"
        _BASE_CFG = load_config(config_path=Path(REPO) / "data/config/default_config.yaml",
                                stub_file_path=stub, frozen=True)
    return _BASE_CFG


OBS_KINDS = {"BinaryActionObservationFactory": 0, "BinaryOperationArrayObservation": 1}


def make_config(c):
    cfg = base_config()
    env = replace(cfg.env, observation_factory=c.get("obs", "BinaryActionObservationFactory"))
    smc = replace(cfg.state_machine, allow_early_transport=bool(c.get("allow_early", True)))
    mwi = replace(cfg.middleware.event_based_binary_action_middleware,
                  truncation_joker=int(c.get("joker", 5)), truncation_active=bool(c.get("trunc_active", False)))
    mw = replace(cfg.middleware, event_based_binary_action_middleware=mwi)
    rwi = replace(cfg.reward_factory.binary_action_jssp_reward,
                  sparse_bias=c.get("sparse", 1), dense_bias=c.get("dense", 0.001),
                  truncation_bias=c.get("trunc", -1))
    rw = replace(cfg.reward_factory, binary_action_jssp_reward=rwi)
    # the observation factory section is looked up by name; reuse the binary one's (loglevel only)
    of = cfg.observation_factory
    return replace(cfg, env=env, state_machine=smc, middleware=mw, reward_factory=rw, observation_factory=of)


class StepTimeout(Exception):
    pass


def _alarm(signum, frame):
    raise StepTimeout()


def err_name(e):
    if isinstance(e, StepTimeout):
        return "Hang"
    n = type(e).__name__
    return {"AttributeError": "TypeError", "UnboundLocalError": "TypeError", "KeyError": "InvalidKey"}.get(n, n)


class Recorder:
    """collects post-states of applied transitions and update() calls (in order)"""

    def __init__(self):
        self.micro = []  # (transition, pre_state, post_state, updates_during)
        self.updates = []  # (obj, old_time, new_time)

    def take(self):
        m, u = self.micro, self.updates
        self.micro, self.updates = [], []
        return m, u


_REC = Recorder()
_orig_apply = sm_state.apply_transition
_orig_update = StochasticTimeConfig.update


def _wrapped_apply(loglevel, state, instance, transition):
    n0 = len(_REC.updates)
    post = _orig_apply(loglevel, state, instance, transition)
    _REC.micro.append((transition, state, post, tuple(_REC.updates[n0:])))
    return post


def _wrapped_update(self):
    old = self.time
    _orig_update(self)
    _REC.updates.append((self, old, self.time))


def install_wrappers():
    sm_state.apply_transition = _wrapped_apply
    StochasticTimeConfig.update = _wrapped_update


class CapturingCompiler(Compiler):
    """real compiler; remembers what it returned and serialises it before anything is stepped"""

    def compile(self):
        instance, init_state = super().compile()
        self.last = (instance, init_state)
        try:
            self.header, self.sids = proto.header_lines(instance, init_state)
            self.init_vals = {id(o): o.time for o in self.sids.objs}
            self.sample_values = [int(v) for l in self.header if l.startswith("ORC ") for v in l.split()[2:]]
            self.unrep = None
        except canon.Unrepresentable as e:
            self.header, self.sids, self.unrep = None, None, str(e)
        return instance, init_state


def space_line(space):
    """the declared observation space of the SimpleJssp-based factories: shapes and integer bounds"""
    def hi(box):
        h = np.asarray(box.high).reshape(-1)
        return int(h.max()) if h.size else 0

    def lo(box):
        l = np.asarray(box.low).reshape(-1)
        return int(l.min()) if l.size else 0
    jp, mp, jem = space["job_progression"], space["machine_progression"], space["job_executed_on_machine"]
    unit = all(lo(space[k]) == 0 and hi(space[k]) == 1 for k in ("job_running", "job_executed_on_machine",
                                                                  "machine_running", "available_jobs"))
    shapes = (space["job_running"].shape == (jp.shape[0],) and space["available_jobs"].shape == (jp.shape[0],)
              and space["machine_running"].shape == (mp.shape[0],) and jem.shape == (jp.shape[0], mp.shape[0])
              and lo(jp) == 0 and lo(mp) == 0 and float(space["current_time"].low.min()) == 0.0
              and float(space["current_time"].high.max()) == 1.0)
    return f"B {jp.shape[0]} {mp.shape[0]} {hi(jp)} {hi(mp)} {canon.b01(unit and shapes)}"


def in_space(obs, space):
    """shapes and bounds of the SimpleJssp fields against the declared boxes (dtype and float rounding aside)"""
    for k in ("job_running", "job_executed_on_machine", "job_progression", "machine_running", "machine_progression",
              "available_jobs", "current_time"):
        a = np.asarray(obs[k])
        box = space[k]
        if a.shape != box.shape:
            return False
        if a.size and not (np.all(a >= box.low) and np.all(a <= box.high)):
            return False
    return True


def obs_line(obs, kind, space=None):
    def arr(a):
        a = np.asarray(a)
        if a.ndim == 2:
            return ";".join(",".join(fmt(x) for x in row) for row in a)
        return ",".join(fmt(x) for x in a.reshape(-1))

    def fmt(x):
        if isinstance(x, (bool, np.bool_)):
            return "1" if x else "0"
        if isinstance(x, (int, np.integer)):
            return str(int(x))
        return repr(float(x))

    if kind == 0:
        line = ("V jr=%s jem=%s jp=%s mr=%s mp=%s av=%s ct=%s tr=%s" % (
            arr(obs["job_running"]), arr(obs["job_executed_on_machine"]), arr(obs["job_progression"]),
            arr(obs["machine_running"]), arr(obs["machine_progression"]), arr(obs["available_jobs"]),
            arr(obs["current_time"]), arr(obs["current_transition"])))
        if space is not None:
            line += " in=" + canon.b01(in_space(obs, space))
        return line
    return "V os=%s jl=%s tr=%s" % (arr(obs["operation_state"][0]), arr(obs["job_locations"][0]),
                                      arr(obs["current_transition"]))


def res_lines(res):
    return [
        "S " + canon.state(res.state),
        "O " + canon.offers(res.possible_transitions),
        "A %s %s %s %d" % (canon.b01(res.success), canon.b01(res.message == "Done"),
                           canon.offers(res.action.transitions), len(res.sub_states)),
    ]


class StepRecord:
    __slots__ = ("kind", "action", "pre", "micro", "updates", "result", "env_state", "obs", "reward",
                 "terminated", "truncated", "info", "error", "offers_before", "time_before", "joker")


class Run:
    """one episode (possibly with several resets) on the real environment"""

    def __init__(self, scen, step_timeout=6):
        install_wrappers()
        self.scen = scen
        self.cmds, self.out, self.records = [], [], []
        self.step_timeout = step_timeout
        self.unrep = None
        self.env = None
        self.compile_error = None
        self.snapshots = []
        self.c14_findings, self.c19_findings, self.c20_findings, self.c18_findings = [], [], [], []
        self.after_done = None
        self.first_reset_canon = None
        self.instance = None
        self.init_state = None
        self.init_vals = {}
        self.stoch_objs = []

    def _emit_compile_lines(self):
        """C16/C17: what the compiler read from the three textual matrices, and what the id allocator
        answers, next to the commands that make the Lean model read the same texts"""
        import yaml
        from jobshoplab.compiler.mapper import ID_Counter
        from jobshoplab.types.instance_config_types import BufferRoleConfig, DeterministicTimeConfig

        def hexs(t):
            return t.encode("utf-8").hex()

        def val(t):
            return t.time if isinstance(t, DeterministicTimeConfig) else t.base_time
        try:
            doc = yaml.safe_load(self.scen["dsl"])
            ic = doc["instance_config"]
            inst = self.compiler.last[0]
            text = ic["instance"]["specification"]
            if not isinstance(text, str) or not text.isascii():
                return
            self.cmds.append("CJOBS " + hexs(text))
            self.out.append("CJ " + ";".join(",".join(f"{int(o.machine.split('-')[1])}:{val(o.duration)}" for o in j.operations)
                                              for j in inst.instance.specification))
            lg = ic.get("logistics")
            if isinstance(lg, dict) and isinstance(lg.get("specification"), str) and lg["specification"].isascii():
                inb = next(b.id for b in inst.buffers if b.role == BufferRoleConfig.INPUT)
                outb = next(b.id for b in inst.buffers if b.role == BufferRoleConfig.OUTPUT)
                self.cmds.append(f"CMAT {inb} {outb} " + hexs(lg["specification"]))
                self.out.append("CM " + " ".join(f"{a}>{b}={val(t)}" for (a, b), t in
                                                 sorted(inst.logistics.travel_times.items(), key=lambda kv: kv[0][0] + ">" + kv[0][1])))
            if isinstance(ic.get("setup_times"), list):
                for e in ic["setup_times"]:
                    m = next((m for m in inst.machines if m.id == e.get("machine")), None)
                    if m is None or not isinstance(e.get("specification"), str):
                        continue
                    self.cmds.append("CSET " + hexs(e["specification"]))
                    self.out.append("CS " + " ".join(f"{a}>{b}={val(t)}" for (a, b), t in
                                                     sorted(m.setup_times.items(), key=lambda kv: kv[0][0] + ">" + kv[0][1])))
            self._placement_lines(doc, inst)
            self._outage_lines(ic, inst)
            rnd = random.Random(self.scen.get("seed", 0) * 31 + len(text))
            for _ in range(3):
                n = rnd.randrange(0, 9)
                ids = rnd.sample(range(0, 2 * n + 3), n)
                self.cmds.append("NEWID " + " ".join(map(str, ids)))
                self.out.append("CI " + ID_Counter()._get_new_id(tuple(f"b-{k}" for k in ids), "b-").split("-")[1])
        except Exception as e:  # noqa  (documents outside the generator's shape: nothing to compare)
            self.compile_lines_error = repr(e)

    def _placement_lines(self, doc, inst):
        """initial placement: what the document says (read here) goes to the model, what the compiled
        initial state holds is the implementation's answer"""
        import re
        num = lambda s, pre: int(s[len(pre):]) if isinstance(s, str) and re.fullmatch(pre + r"\d+", s) else None
        st0 = self.compiler.last[1]
        init = doc.get("init_state") or {}
        if not isinstance(init, dict) or st0 is None:
            return
        jobs = []
        for j in inst.instance.specification:
            e = init.get(j.id) if isinstance(init.get(j.id), dict) else {}
            if set(e) - {"location"}:
                return
            jn = num(j.id, "j-")
            ln = num(e["location"], "b-") if "location" in e else "_"
            if jn is None or ln is None:
                return
            jobs.append(f"{jn}:{ln}")
        inp = num(inst.buffers[0].id, "b-") if inst.buffers else None
        if inp is None:
            return
        for b in inst.buffers:
            bn = num(b.id, "b-")
            e = init.get(b.id) if isinstance(init.get(b.id), dict) else {}
            if bn is None or set(e) - {"store"}:
                continue
            if "store" in e:
                ls = [num(x, "j-") for x in e["store"]] if isinstance(e["store"], list) else [None]
                if any(x is None for x in ls):
                    continue
                listed = "L" + ",".join(map(str, ls))
            else:
                listed = "-"
            bs = next((x for x in st0.buffers if x.id == b.id), None)
            if bs is None:
                continue
            self.cmds.append(f"CSTORE {bn} {inp} {listed} " + ",".join(jobs))
            self.out.append(("CB " + " ".join(str(num(x, "j-")) for x in bs.store)).rstrip())

    def _outage_lines(self, ic, inst):
        """which entries of the `outages:` section each component carries: every entry goes to the model
        as (component name, canonical payload), the compiled outages come back as canonical payloads"""
        from monitors.compmon import DIST
        from jobshoplab.types.instance_config_types import OutageTypeConfig, DeterministicTimeConfig
        es = ic.get("outages")
        if not isinstance(es, list) or not all(isinstance(e, dict) and isinstance(e.get("component"), str) and e["component"].isascii() for e in es):
            return
        kinds = {"maintenance": "M", "repair": "M", "breakdown": "F", "fail": "F", "recharge": "R", "recharging": "R"}
        kind_of = {OutageTypeConfig.MAINTENANCE: "M", OutageTypeConfig.FAIL: "F", OutageTypeConfig.RECHARGE: "R"}
        cls_name = {}
        for k, c in DIST.items():
            cls_name.setdefault(c, k[:3])

        def spec_tok(sp):
            if isinstance(sp, int) and not isinstance(sp, bool):
                return f"d{sp}"
            if isinstance(sp, dict) and str(sp.get("type")) in DIST:
                return f"{cls_name[DIST[str(sp['type'])]]}{int(sp['base'])}"
            return None

        def cfg_tok(t):
            if isinstance(t, DeterministicTimeConfig):
                return f"d{t.time}"
            return f"{cls_name.get(type(t), 'x')}{t.base_time}"
        toks = []
        for e in es:
            k, d, f = kinds.get(e.get("type")), spec_tok(e.get("duration")), spec_tok(e.get("frequency"))
            if k is None or d is None or f is None:
                return
            toks.append(f"{k}/{d}/{f}")
        hx = lambda t: t.encode("utf-8").hex()
        args = " ".join(f"{hx(e['component'])}={t}" for e, t in zip(es, toks))
        lg = ic.get("logistics")
        # (transports only get outages from the logistics mapper: without that section there are
        # only the default teleporters, which the `outages:` section does not address)
        for kind, comps in (("m", inst.machines), ("t", inst.transports if isinstance(lg, dict) and "type" in lg else ())):
            for c in comps:
                self.cmds.append(f"COUT {kind} {hx(c.id)} {args}".rstrip())
                self.out.append(("CO " + " ".join(f"{kind_of.get(o.type, '?')}/{cfg_tok(o.duration)}/{cfg_tok(o.frequency)}" for o in c.outages)).rstrip())

    # -- helpers
    def _guard(self, f):
        signal.signal(signal.SIGALRM, _alarm)
        signal.alarm(self.step_timeout)
        try:
            return f(), None
        except Exception as e:  # noqa
            return None, e
        finally:
            signal.alarm(0)

    def start(self):
        sc = self.scen
        cfg = make_config(sc["cfg"])
        self.cfg = cfg
        self.obs_kind = OBS_KINDS[sc["cfg"].get("obs", "BinaryActionObservationFactory")]
        if getattr(self, "seed_globals", True):
            # ambient state of the process-global generators (the twins of C13 leave theirs disturbed)
            random.seed(sc.get("seed", 0))
            np.random.seed(sc.get("seed", 0))
        repo = DslStrRepository(sc["dsl"], "warning", cfg)
        self.compiler = CapturingCompiler(cfg, "warning", repo=repo)
        _REC.take()
        env, err = self._guard(lambda: JobShopLabEnv(config=cfg, seed=sc.get("seed", 0), compiler=self.compiler))
        micro, updates = _REC.take()
        rec = StepRecord()
        rec.kind, rec.action, rec.micro, rec.updates, rec.error = "reset", None, micro, updates, err
        rec.pre = getattr(self.compiler, "last", (None, None))[1]
        self.records.append(rec)
        hdr = getattr(self.compiler, "header", None)
        last = getattr(self.compiler, "last", None)
        if last is not None:
            # the compile-level checks (C16/C17) also look at documents the state model cannot represent
            self.instance, self.init_state = last
            if hdr is not None:
                self.init_vals = dict(self.compiler.init_vals)
                self.stoch_objs = list(self.compiler.sids.objs)
            self._emit_compile_lines()
        if hdr is None:
            # compile failed or the result is outside the model's types
            self.unrep = getattr(self.compiler, "unrep", None)
            self.compile_error = err
            rec.result = None
            return False
        c = sc["cfg"]
        self.cmds += hdr
        self.cmds.append(proto.cfg_line(c.get("allow_early", True), c.get("joker", 5), c.get("trunc_active", False),
                                        c.get("sparse", 1), c.get("dense", 0.001), c.get("trunc", -1),
                                        sc.get("fuel", 3000), self.obs_kind))
        self.cmds.append("RESET")
        meta = sc.get("meta") or {}
        self.k_classic = bool(meta.get("classic_instance")) and not meta.get("zero_dur") and not meta.get("features")
        if self.k_classic and err is None:
            self.cmds.append("KCLASSIC")
        if err is not None:
            self.out.append("X " + err_name(err))
            rec.result = None
            return False
        self.env = env
        self.instance = env.instance
        self.init_state = self.compiler.last[1]
        self.init_vals = dict(self.compiler.init_vals)
        self.stoch_objs = list(self.compiler.sids.objs)
        samples = all(v >= 0 for v in self.compiler.sample_values)
        g = guards(self.instance, self.init_state)
        # fuelOKB (JSL/Model/FuelBound.lean): the rounds granted to the model's timed loop suffice in the class of C05
        fuel_ok = 6 * len(self.instance.machines) + 5 * len(self.instance.transports) + 2 <= sc.get("fuel", 3000)
        self.out.append("G " + " ".join(canon.b01(x) for x in g[:7] + (samples,) + g[7:] + (fuel_ok,)))
        self.out.append(f"L {env.lower_bound} {env.max_allowed_time}")
        if self.obs_kind == 0:
            self.out.append(space_line(env.observation_space))
        self._emit_micro(micro)
        self.out += res_lines(env.state)
        self.out.append(obs_line(env.current_observation[0], self.obs_kind, env.observation_space))
        if self.k_classic:
            # what the generator calls a classic instance must lie in the class of the C06 reachability
            # theorems (instance guard, start guard, the two fuel bounds, one AGV per job): otherwise they would say nothing about it
            self.out.append("K 1 1 1 1 1")
        rec.result, rec.env_state, rec.obs = env.state, env.state, env.current_observation[0]
        rec.terminated = rec.truncated = False
        self.first_reset_canon = canon.state(env.state.state)
        return True

    def _emit_micro(self, micro):
        for (_tr, _pre, post, _upd) in micro:
            self.out.append("T " + canon.state(post))

    def act(self, a):
        """one env.step; returns False when the episode cannot continue"""
        env = self.env
        rec = StepRecord()
        rec.kind, rec.action = "act", a
        rec.pre = env.state
        rec.offers_before = env.state.possible_transitions
        rec.time_before = env.state.state.time
        self.cmds.append(f"ACT {a if a in (0, 1) else 2}")
        if len(self.snapshots) < 400:
            self.snapshots.append((len(self.records), env.state.state, canon.state(env.state.state) + "|" + repr(env.state.state)))
        _REC.take()
        r, err = self._guard(lambda: env.step(a))
        rec.micro, rec.updates = _REC.take()
        rec.error = err
        rec.env_state = env.state
        rec.joker = env.state_simulator.truncation_joker
        self.records.append(rec)
        if err is not None:
            self.out.append("X " + err_name(err))
            rec.result = None
            return False
        obs, reward, terminated, truncated, info = r
        rec.result, rec.obs, rec.reward = env.state, obs, reward
        rec.terminated, rec.truncated, rec.info = terminated, truncated, info
        self._emit_micro(rec.micro)
        self.out += res_lines(env.state)
        self.out.append(obs_line(obs, self.obs_kind, self.env.observation_space))
        mk = "-" if info["makespan"] is None else str(info["makespan"])
        self.out.append("F %s %s %s %d %d %d" % (canon.b01(terminated), canon.b01(truncated), mk,
                                                  env.state_simulator.truncation_joker, len(env.history),
                                                  info["no_op_count"]))
        self.out.append("R " + repr(float(reward)))
        return not (terminated or truncated)

    def sm_step(self, transitions, tm=1, adopt=False):
        """core `state.step` API on the current state; with adopt the env takes the result over"""
        env = self.env
        from jobshoplab.state_machine.core.state_machine import step as sm_step_fn
        tmf = {0: time_machines.jump_by_one, 1: time_machines.jump_to_event, 2: time_machines.force_jump_to_event}[tm]
        action = Action(tuple(transitions),
                        ActionFactoryInfo.NoOperation if not transitions else ActionFactoryInfo.Valid, tmf)
        rec = StepRecord()
        rec.kind, rec.action, rec.pre = ("smapply" if adopt else "smstep"), action, env.state
        rec.offers_before = env.state.possible_transitions
        rec.time_before = env.state.state.time
        self.cmds.append(("SMAPPLY " if adopt else "SMSTEP ") + str(tm) + "".join(" " + proto.transition6(t) for t in transitions))
        _REC.take()
        r, err = self._guard(lambda: sm_step_fn(loglevel="warning", instance=env.instance, config=self.cfg,
                                                state=env.state.state, action=action))
        rec.micro, rec.updates = _REC.take()
        rec.error, rec.result = err, r
        rec.env_state = env.state
        self.records.append(rec)
        if err is not None:
            self.out.append("X " + err_name(err))
            return False
        self._emit_micro(rec.micro)
        self.out += res_lines(r)
        if adopt and r.success:
            env.state = r
            rec.env_state = r
        return True

    # ------------------------------------------------------------------ probes
    def probe_invalid(self, a):
        """C14: an action outside Discrete(2) must be rejected and change nothing"""
        env = self.env
        from jobshoplab.utils.exceptions import ActionOutOfActionSpace
        before = (canon.state(env.state.state), env.state, len(env.history), env.terminated, env.truncated,
                  env.state_simulator.truncation_joker, env.state_simulator.stepper.no_op_counter,
                  env.state_simulator.stepper.action_counter)
        self.cmds.append("ACT 2")
        r, err = self._guard(lambda: env.step(a))
        _REC.take()
        after = (canon.state(env.state.state), env.state, len(env.history), env.terminated, env.truncated,
                 env.state_simulator.truncation_joker, env.state_simulator.stepper.no_op_counter,
                 env.state_simulator.stepper.action_counter)
        self.out.append("X " + (err_name(err) if err is not None else "NoError"))
        if err is None:
            self.c14_findings.append({"sig": "invalid-action-not-rejected",
                                      "detail": f"action {a!r}: accepted", "step": len(self.records)})
            return True
        # any exception is a rejection (with no offers left `interpret` raises InvalidValue before it
        # looks at the action); what matters is that the episode is untouched
        if before[0] != after[0] or before[1] is not after[1] or before[2:] != after[2:]:
            self.c14_findings.append({"sig": "invalid-action-changed-episode", "detail": f"action {a!r}",
                                      "step": len(self.records)})
        return True

    def probe_after_done(self):
        """C04/C14: stepping a finished episode raises the dedicated error"""
        env = self.env
        self.cmds.append("ACT 1")
        r, err = self._guard(lambda: env.step(1))
        _REC.take()
        self.after_done = err_name(err) if err is not None else "NoError"
        self.out.append("X " + self.after_done)

    def probe_reset(self):
        """C14: reset returns to the initial situation (no model involvement)"""
        env = self.env
        det = not self.stoch_objs
        r, err = self._guard(lambda: env.reset())
        _REC.take()
        if err is not None:
            self.c14_findings.append({"sig": "reset-raised:" + err_name(err), "detail": err_name(err), "step": None})
            return
        if env.history != () or env.terminated or env.truncated or env.done:
            self.c14_findings.append({"sig": "reset-did-not-clear", "detail": f"history {len(env.history)} flags {env.terminated},{env.truncated},{env.done}", "step": None})
        if det and canon.state(env.state.state) != self.first_reset_canon:
            self.c14_findings.append({"sig": "reset-state-differs-from-initial", "detail": "", "step": None})
        if env.state_simulator.truncation_joker != int(self.scen["cfg"].get("joker", 5)):
            self.c14_findings.append({"sig": "reset-did-not-restore-allowance", "detail": "", "step": None})
        if det and self.scen.get("probes", {}).get("reset") is not False:
            self._second_episode_twin(env)

    def _second_episode_twin(self, env):
        """C14 / C18: after reset() the environment behaves like a freshly built one - nothing hidden is
        carried over (middleware counters, cached instances): the same decline-heavy script is played on the
        reset environment and on a new one built the same way; deterministic instances only"""
        sc = self.scen
        twin, err = self._guard(lambda: JobShopLabEnv(config=self.cfg, seed=sc.get("seed", 0),
                                                      compiler=CapturingCompiler(self.cfg, "warning", repo=DslStrRepository(sc["dsl"], "warning", self.cfg))))
        _REC.take()
        if err is not None or twin is None:
            return
        if canon.state(twin.state.state) != canon.state(env.state.state):
            return      # (reported by reset-state-differs-from-initial)

        def snap(e, out, er):
            if er is not None:
                return ("raised", err_name(er).split("@")[0])
            _obs, rew, term, trunc, _info = out
            return (canon.state(e.state.state), len(e.state.possible_transitions), round(float(rew), 9), bool(term), bool(trunc))
        for k in range(40):
            a = 1 if k % 6 == 5 else 0
            o1, e1 = self._guard(lambda: env.step(a))
            _REC.take()
            o2, e2 = self._guard(lambda: twin.step(a))
            _REC.take()
            s1, s2 = snap(env, o1, e1), snap(twin, o2, e2)
            if s1 != s2:
                what = "truncated" if (s1[0] != "raised" and s2[0] != "raised" and s1[:4] == s2[:4]) else "episode"
                f = {"sig": f"second-episode-differs-from-a-fresh-one:{what}",
                     "detail": f"step {k} action {a}: after reset {s1[1:]} fresh {s2[1:]}", "step": None}
                self.c14_findings.append(f)
                self.c18_findings.append(f)
                return
            if e1 is not None or env.done:
                return

    def probe_c20(self, rnd):
        """C20: purity / repeatability / atomic rejection through the core step API"""
        env = self.env
        from jobshoplab.types.action_types import ComponentTransition
        from jobshoplab.types.state_types import MachineStateState as MS, TransportStateState as TS
        st = env.state.state
        offers = list(env.state.possible_transitions)
        text0 = canon.state(st) + "|" + repr(st)
        det = not self.stoch_objs
        # (1) repeatability with an offered conflict-free set
        chosen = conflict_free(offers, rnd)
        if det and chosen:
            ok1 = self.sm_step(chosen, tm=1)
            r1 = self.records[-1].result
            ok2 = self.sm_step(chosen, tm=1)
            r2 = self.records[-1].result
            if ok1 and ok2 and (r1.state != r2.state or r1.success != r2.success or r1.possible_transitions != r2.possible_transitions):
                self.c20_findings.append({"sig": "same-step-twice-differs", "detail": f"{chosen}", "step": len(self.records)})
            if canon.state(st) + "|" + repr(st) != text0 or env.state.state is not st:
                self.c20_findings.append({"sig": "input-state-mutated", "detail": f"{chosen}", "step": len(self.records)})
        # (2) atomic rejection: mix offered transitions with phase-invalid ones
        bad = []
        touched = {t.component_id for t in chosen}
        for m in st.machines:
            if m.id in touched:
                continue
            wrong = {MS.IDLE: [MS.WORKING, MS.OUTAGE, MS.IDLE], MS.SETUP: [MS.OUTAGE, MS.IDLE, MS.SETUP],
                     MS.WORKING: [MS.SETUP, MS.IDLE, MS.WORKING], MS.OUTAGE: [MS.SETUP, MS.WORKING, MS.OUTAGE]}[m.state]
            jid = m.buffer.store[0] if m.buffer.store else (st.jobs[0].id if st.jobs else None)
            bad.append(ComponentTransition(m.id, rnd.choice(wrong), jid))
        for t in st.transports:
            if t.id in touched:
                continue
            wrong = {TS.IDLE: [TS.OUTAGE, TS.IDLE], TS.OUTAGE: [TS.PICKUP, TS.TRANSIT, TS.OUTAGE, TS.WAITINGPICKUP],
                     TS.PICKUP: [TS.IDLE, TS.PICKUP], TS.TRANSIT: [TS.IDLE, TS.TRANSIT], TS.WAITINGPICKUP: [TS.IDLE],
                     TS.WORKING: [TS.IDLE]}[t.state]
            bad.append(ComponentTransition(t.id, rnd.choice(wrong), t.transport_job or (st.jobs[0].id if st.jobs else None)))
        if bad:
            k = rnd.randint(1, min(3, len(bad)))
            mix = list(chosen) + [rnd.choice(bad) for _ in range(k)]
            rnd.shuffle(mix)
            ok = self.sm_step(mix, tm=rnd.choice([1, 2]))
            r = self.records[-1].result
            self._rejected_raised(ok, mix)
            if ok:
                if r.success or r.state is not st or r.state != st or tuple(r.possible_transitions) != ():
                    self.c20_findings.append({"sig": "rejected-action-had-effect",
                                              "detail": f"mix {mix}: success={r.success} same_state={r.state == st} offers={len(r.possible_transitions)}",
                                              "step": len(self.records)})
            if canon.state(st) + "|" + repr(st) != text0:
                self.c20_findings.append({"sig": "input-state-mutated", "detail": "after rejected mix", "step": len(self.records)})

        # (3) multiplicity / competing offers: a second transition for a component that has just
        #     changed its phase in the same action is rejected at its turn -> the whole step fails
        same = {}
        for t in offers:
            same.setdefault(t.component_id, []).append(t)
        cands = [v for v in same.values()]
        if cands:
            grp = rnd.choice(cands)
            first = rnd.choice(grp)
            second = rnd.choice(grp)  # the same offer again, or a competing offer for the same component
            others = [t for t in chosen if t.component_id != first.component_id and t.job_id not in (first.job_id, second.job_id)]
            mix = others + [first, second]
            ok = self.sm_step(mix, tm=1)
            r = self.records[-1].result
            if first.component_id.startswith("m-"):
                # a machine asked for the same phase twice: the second request is outside the cycle
                # IDLE -> SETUP -> WORKING -> OUTAGE -> IDLE at its turn and has to be rejected (for an AGV the
                # tables admit PICKUP -> WORKING, for which no handler exists: not a rejection, C20 is silent)
                self._rejected_raised(ok, mix)
            if ok and (r.success or r.state is not st or r.state != st or tuple(r.possible_transitions) != ()):
                self.c20_findings.append({"sig": "rejected-action-had-effect",
                                          "detail": f"two transitions for {first.component_id} in one action {mix}: success={r.success}",
                                          "step": len(self.records)})
            if canon.state(st) + "|" + repr(st) != text0:
                self.c20_findings.append({"sig": "input-state-mutated", "detail": "after duplicate/competing mix", "step": len(self.records)})

    def _rejected_raised(self, ok, mix):
        """C20: an action containing a transition that must be rejected has to come back as a reported
        failure; an exception escaping from `step` instead is a violation (errors that an applied valid
        transition of the mix raises on its own - full buffers, the watchdog - are C05's matter)"""
        if ok:
            return
        err = self.records[-1].error
        name = err_name(err) if err is not None else None
        if name is None or name.split("@")[0] in ("BufferFullError", "StepTimeout"):
            return
        self.c20_findings.append({"sig": "rejected-action-raised:" + name.split("@")[0],
                                  "detail": f"step raised {name} instead of reporting failure for {mix}", "step": len(self.records)})

    def probe_env_failure(self):
        """C20: a failed step makes the environment truncate and keep its state (injected failure)"""
        env = self.env
        from jobshoplab.types.action_types import ComponentTransition
        from jobshoplab.types.state_types import MachineStateState as MS
        sim = env.state_simulator
        orig = sim.state_machine_step
        st = env.state
        m = st.state.machines[0]
        badns = MS.IDLE if m.state != MS.OUTAGE else MS.SETUP
        bad = ComponentTransition(m.id, badns, None)

        def failing(state, action):
            from dataclasses import replace as _r
            return orig(state=state, action=_r(action, transitions=tuple(action.transitions) + (bad,)))

        sim.state_machine_step = failing
        try:
            r, err = self._guard(lambda: env.step(1))
        finally:
            sim.state_machine_step = orig
        _REC.take()
        if err is not None:
            self.c20_findings.append({"sig": "failed-step-raised", "detail": err_name(err), "step": None})
        else:
            obs, rew, term, trunc, info = r
            if not trunc or term or env.state is not st:
                self.c20_findings.append({"sig": "failed-step-not-truncated", "detail": f"terminated={term} truncated={trunc} state kept={env.state is st}", "step": None})

    def multi_step(self, rnd):
        """apply a conflict-free set of offered transitions through the core API and adopt the result"""
        env = self.env
        chosen = conflict_free(list(env.state.possible_transitions), rnd)
        if len(self.snapshots) < 400:
            self.snapshots.append((len(self.records), env.state.state, canon.state(env.state.state) + "|" + repr(env.state.state)))
        ok = self.sm_step(chosen, tm=rnd.choice([1, 1, 2]), adopt=True)
        if not ok:
            return False
        r = self.records[-1].result
        if not r.success or r.message == "Done" or len(r.possible_transitions) == 0:
            return False
        return True

    def end(self):
        self.cmds.append("END")
        self.out.append("E")


def two_episodes(run, actions, other=None, start=True, junk=0):
    """C13: the trace of `actions` from reset, then `env.reset()` and the same actions again;
    `other` is a second live environment stepped in between (it must not matter)"""
    import random as _r
    trace = []
    if start:
        alive = run.start()
    else:
        alive = run.env is not None
    if run.env is None:
        return {"lines": ["no-env"], "unrep": run.unrep}
    if start:
        trace += [l for l in run.out if l[:1] in "STOAVFRXL"]

    def episode():
        nonlocal alive
        k = 0
        for a in actions:
            if not alive:
                break
            if other is not None and other.env is not None and not other.env.done and k % 3 == 0:
                other._guard(lambda: other.env.step(k % 2))
            n0 = len(run.out)
            alive = run.act(a)
            trace.extend(l for l in run.out[n0:] if l[:1] in "STOAVFRX")
            k += 1
    if start:
        episode()
    trace.append("== reset")
    if junk:
        # process-global random state consumed between the two episodes: a plain reset() re-seeds, so it must not matter
        np.random.random(junk % 5 + 1)
        for _ in range(junk % 3 + 1):
            _r.random()
    saved = (run.cmds, run.out, run.records)
    run.cmds, run.out, run.records = [], [], []
    try:
        r, err = run._guard(lambda: run.env.reset())
        _REC.take()
        if err is not None:
            trace.append("X " + err_name(err))
        else:
            trace += res_lines(run.env.state)
            trace.append(obs_line(r[0], run.obs_kind, run.env.observation_space))
            alive = True
            episode()
    finally:
        run.cmds, run.out, run.records = saved
    return {"lines": trace, "unrep": run.unrep}


def guards(inst, st):
    """the decidable hypotheses of the structural theorems (wfB, shapeB, conservedB, capB of
    JSL/Model/Check.lean), evaluated independently on the real objects"""
    def nodup(l):
        return len(set(l)) == len(l)
    cfg_bufs = list(inst.buffers) + [b for m in inst.machines for b in (m.prebuffer, m.buffer, m.postbuffer)] + \
        [t.buffer for t in inst.transports]
    st_bufs = list(st.buffers) + [b for m in st.machines for b in (m.prebuffer, m.buffer, m.postbuffer)] + \
        [t.buffer for t in st.transports]
    mids = [m.id for m in inst.machines]
    wf = (nodup([j.id for j in inst.instance.specification]) and nodup(mids) and nodup([t.id for t in inst.transports])
          and nodup([b.id for b in cfg_bufs])
          and all(all(o.id.split("-")[1] == j.id.split("-")[1] for o in j.operations)
                  and nodup([o.id.split("-")[2] for o in j.operations])
                  and all(o.machine in mids for o in j.operations) for j in inst.instance.specification))
    shape = ([(j.id, [(o.id, o.machine_id) for o in j.operations]) for j in st.jobs]
             == [(j.id, [(o.id, o.machine) for o in j.operations]) for j in inst.instance.specification]
             and [(m.id, m.prebuffer.id, m.buffer.id, m.postbuffer.id) for m in st.machines]
             == [(m.id, m.prebuffer.id, m.buffer.id, m.postbuffer.id) for m in inst.machines]
             and [(t.id, t.buffer.id) for t in st.transports] == [(t.id, t.buffer.id) for t in inst.transports]
             and [b.id for b in st.buffers] == [b.id for b in inst.buffers])
    cons = (all(nodup(b.store) and all(any(j.id == x and j.location == b.id for j in st.jobs) for x in b.store)
                for b in st_bufs)
            and all(any(b.id == j.location and j.id in b.store for b in st_bufs) for j in st.jobs))
    cap = all(c.id != b.id or len(b.store) <= c.capacity for b in st_bufs for c in cfg_bufs)
    from jobshoplab.types.instance_config_types import DeterministicTimeConfig
    from jobshoplab.types.state_types import (MachineStateState as _MS, OperationStateState as _OS,
                                              TransportStateState as _TS, TimeDependency as _TD)
    rest = (all(m.state == _MS.IDLE and len(m.buffer.store) == 0 for m in st.machines)
            and all(o.operation_state_state == _OS.IDLE for j in st.jobs for o in j.operations)
            and all(t.state == _TS.IDLE and t.transport_job is None and not isinstance(t.occupied_till, _TD)
                    and len(t.buffer.store) == 0 for t in st.transports))

    def nn(t):
        return not isinstance(t, DeterministicTimeConfig) or t.time >= 0
    nonneg = (all(nn(o.duration) for j in inst.instance.specification for o in j.operations)
              and all(nn(v) for m in inst.machines for v in m.setup_times.values())
              and all(nn(o.duration) for m in inst.machines for o in m.outages)
              and all(nn(v) for v in inst.logistics.travel_times.values())
              and all(nn(o.duration) for t in inst.transports for o in t.outages))
    from jobshoplab.types.instance_config_types import BufferRoleConfig as _BR
    out_ids = {b.id for b in inst.buffers if b.role == _BR.OUTPUT}
    placed = all(len(m.prebuffer.store) == 0 for m in st.machines) and all(j.location not in out_ids for j in st.jobs)

    def dt(t):
        return isinstance(t, DeterministicTimeConfig)
    det = (all(dt(o.duration) for j in inst.instance.specification for o in j.operations)
           and all(dt(v) for m in inst.machines for v in m.setup_times.values())
           and all(dt(o.duration) and dt(o.frequency) for m in inst.machines for o in m.outages)
           and all(dt(v) for v in inst.logistics.travel_times.values())
           and all(dt(o.duration) and dt(o.frequency) for t in inst.transports for o in t.outages))
    noout = all(len(m.outages) == 0 for m in inst.machines) and all(len(t.outages) == 0 for t in inst.transports)
    return (wf, shape, cons, cap, rest, placed, nonneg, det, noout) + more_guards(inst, st)


def more_guards(inst, st):
    """tablesTotalB, readyB (C05: JSL/Model/Guards.lean) and outRestB, outPastB (C10), evaluated on the real objects"""
    from jobshoplab.types.instance_config_types import BufferRoleConfig as _BR
    from jobshoplab.types.state_types import (OutageInactive as _OI, Time as _T, TransportStateState as _TS)
    ops = [o for j in inst.instance.specification for o in j.operations]

    def tools_on(mid):
        return [o.tool for o in ops if o.machine == mid]
    outs = [b for b in inst.buffers if b.role == _BR.OUTPUT]
    stands = [m.id for m in inst.machines] + ([outs[0].id] if outs else [])
    pickup_bufs = [b for b in inst.buffers if b.role != _BR.OUTPUT] + [b for m in inst.machines for b in (m.buffer, m.postbuffer)]

    def src(bc):
        if bc.parent is None:
            return bc.id
        return bc.parent if str(bc.parent).startswith("m-") else None
    tt = inst.logistics.travel_times

    def reaches(l):
        return all(src(bc) is not None and (l, src(bc)) in tt for bc in pickup_bufs)
    tables = (len(outs) > 0 and all(m.buffer.capacity >= 1 for m in inst.machines)
              and all(src(bc) is not None for bc in pickup_bufs)
              and all((a, b) in m.setup_times for m in inst.machines for a in tools_on(m.id) for b in tools_on(m.id))
              and all(reaches(a) for a in stands))
    cfg_by_id = {m.id: m for m in inst.machines}
    ready = (all(all((m.mounted_tool, b) in cfg_by_id[m.id].setup_times for b in tools_on(m.id))
                 for m in st.machines if m.id in cfg_by_id)
             and all(isinstance(t.location.location, str) and reaches(t.location.location)
                     for t in st.transports if t.state in (_TS.IDLE, _TS.OUTAGE)))
    recs = [o for m in st.machines for o in m.outages] + [o for t in st.transports for o in t.outages]
    out_rest = all(isinstance(o.active, _OI) for o in recs)
    out_past = all(not isinstance(o.active, _OI) or not isinstance(o.active.last_time_active, _T)
                   or o.active.last_time_active.time <= st.time.time for o in recs)
    from jobshoplab.types.instance_config_types import BufferTypeConfig as _BT, TransportTypeConfig as _TT
    all_bufs = list(inst.buffers) + [b for m in inst.machines for b in (m.prebuffer, m.buffer, m.postbuffer)] + \
        [t.buffer for t in inst.transports]
    flex = all(b.type == _BT.FLEX_BUFFER for b in all_bufs)
    has_agv = any(t.type == _TT.AGV for t in inst.transports)
    # --- the classes of C05's "no step raises" (JSL/Model/Roomy.lean) and of C06's reachability theorems
    # (JSL/Model/Classic.lean), re-implemented on the real objects
    from jobshoplab.types.instance_config_types import DeterministicTimeConfig as _DT
    nj = len(inst.instance.specification)
    only_agv = len(inst.transports) > 0 and all(t.type == _TT.AGV for t in inst.transports)
    jobs_have_ops = all(len(j.operations) > 0 for j in inst.instance.specification)
    mach_parents = all(b.parent == m.id for m in inst.machines for b in (m.prebuffer, m.buffer, m.postbuffer))
    std_parents = all(b.parent is None for b in inst.buffers)
    mach_room = all(m.prebuffer.capacity >= nj and m.postbuffer.capacity >= nj and m.buffer.capacity >= 1 for m in inst.machines)
    agv_room = all(t.buffer.capacity >= 1 for t in inst.transports)
    roomy_tot = (not outs or outs[0].capacity >= nj) and mach_room and agv_room
    sources = [m.id for m in inst.machines] + [b.id for b in inst.buffers if b.role != _BR.OUTPUT]
    routes = all((a.startswith("b-") and b.startswith("b-")) or (a, b) in tt for a in sources for b in stands)
    mcfg = {m.id: m for m in inst.machines}
    tcfg = {t.id: t for t in inst.transports}
    out_shape = (all(all(any(r.id == oc.id for r in m.outages) for oc in mcfg[m.id].outages) for m in st.machines if m.id in mcfg)
                 and all(all(any(r.id == oc.id for r in t.outages) for oc in tcfg[t.id].outages) for t in st.transports if t.id in tcfg))
    total_class = (tables and roomy_tot and std_parents and mach_parents and only_agv and routes and jobs_have_ops and flex
                   and nj > 0 and ready and out_shape and out_rest)
    places = [m.id for m in inst.machines] + [b.id for b in inst.buffers]
    zero_travel = all(isinstance(tt.get((a, b)), _DT) and tt[(a, b)].time == 0 for a in places for b in places)
    zero_setup = all(isinstance(v, _DT) and v.time == 0 for m in inst.machines for v in m.setup_times.values())
    no_out = all(len(m.outages) == 0 for m in inst.machines) and all(len(t.outages) == 0 for t in inst.transports)
    pos_dur = all(isinstance(o.duration, _DT) and o.duration.time > 0 for o in ops)
    roomy_cl = all(b.capacity >= nj for b in inst.buffers) and mach_room and agv_room
    parents_cl = mach_parents and std_parents and all(t.buffer.parent == t.id for t in inst.transports)
    classic = (flex and roomy_cl and has_agv and all(t.type == _TT.AGV for t in inst.transports) and zero_travel and no_out
               and zero_setup and tables and parents_cl and pos_dur and jobs_have_ops)
    return tables, ready, out_rest, out_past, flex, has_agv, total_class, classic


def conflict_free(offers, rnd, p=0.7):
    """a random subset of the offers sharing no component and no job"""
    offers = list(offers)
    rnd.shuffle(offers)
    out, comps, jobs = [], set(), set()
    for t in offers:
        if t.component_id in comps or t.job_id in jobs:
            continue
        if rnd.random() < p:
            out.append(t)
            comps.add(t.component_id)
            jobs.add(t.job_id)
    return out
