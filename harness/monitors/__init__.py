"""Direct monitors of the property statements on implementation traces.

Each monitor reads only the real objects recorded by `impl_trace.Run` (never the model) and
returns findings `{"property", "sig", "detail", "step"}`.  `sig` is the stable signature used to
match `known_findings.json` (call site + condition), `detail` is for the replay file.
"""
import traceback

from . import compmon, core, envmon

ALL = {
    "C01": core.c01, "C02": core.c02, "C03": core.c03, "C04": envmon.c04, "C05": core.c05,
    "C07": core.c07, "C08": core.c08, "C09": core.c09, "C10": core.c10, "C11": core.c11,
    "C12": core.c12, "C14": envmon.c14, "C15": envmon.c15, "C18": envmon.c18, "C19": envmon.c19,
    "C20": envmon.c20, "C06": envmon.c06, "C13": envmon.c13, "C16": compmon.c16, "C17": compmon.c17,
}


def check_all(run, scen):
    props = scen.get("props") or sorted(ALL)
    findings, stats = [], {}
    ctx = core.Ctx(run, scen)
    stats.update(ctx.stats())
    facts = ctx.facts()
    for p in props:
        f = ALL.get(p)
        if f is None:
            continue
        try:
            for x in f(ctx):
                x.setdefault("property", p)
                x["scenario"] = scen["id"]
                x["facts"] = facts
                findings.append(x)
        except Exception as e:  # a monitor bug must not masquerade as a violation
            findings.append({"property": p, "sig": "MONITOR-ERROR", "scenario": scen["id"],
                             "detail": "".join(traceback.format_exception(type(e), e, e.__traceback__))[-2500:]})
    return findings, stats
