"""Monitors for C16 / C17: the compiled instance against an independent reading of the document.

The reading below never touches the mapper: it walks the YAML-level dict of the scenario and
splits the three textual matrices with `str.split` only, following docs/.../dsl_reference.rst.
"""
import yaml

from jobshoplab.types.instance_config_types import (
    BufferRoleConfig,
    BufferTypeConfig,
    DeterministicTimeConfig,
)
from jobshoplab.types.stochasticy_models import (
    GammaFunction,
    GaussianFunction,
    PoissonFunction,
    StochasticTimeConfig,
    UniformFunction,
)

from .core import F

IN_NAMES = {"input", "input-buffer", "inputbuffer", "input buffer", "input_buffer", "in-buf", "inbuf", "in buf", "in_buffer"}
OUT_NAMES = {"output", "output-buffer", "outputbuffer", "output buffer", "output_buffer", "out-buf"}
BTYPE = {"fifo": BufferTypeConfig.FIFO, "lifo": BufferTypeConfig.LIFO, "dummy": BufferTypeConfig.DUMMY,
         "flex": BufferTypeConfig.FLEX_BUFFER, "flex_buffer": BufferTypeConfig.FLEX_BUFFER}
DIST = {"poisson": PoissonFunction, "gamma": GammaFunction, "uni": UniformFunction, "uniform": UniformFunction,
        "gaussian": GaussianFunction, "normal": GaussianFunction}


def doc_of(scen):
    return scen.get("doc") or yaml.safe_load(scen["dsl"])


def read_job_matrix(text):
    rows = []
    for line in text.split("\n"):
        line = "".join(line.split())     # blanks, and the tabs the validator lets through between groups
        if not line.startswith("j") or "|" not in line:
            continue
        body = line.split("|", 1)[1]
        ops = []
        for chunk in body.split(")"):
            if not chunk:
                continue
            a, b = chunk.lstrip("(").split(",")
            ops.append((int(a), int(b)))
        rows.append(ops)
    return rows


def read_matrix(text):
    lines = [l.strip() for l in text.strip().split("\n")]
    cols = lines[0].split("|")
    out = {}
    for l in lines[1:]:
        name, vals = l.split("|")
        for c, v in zip(cols, vals.split()):
            out[(name, c)] = int(v)
    return cols, out


def time_matches(t, base, behavior):
    """does the compiled time object t express `base` under `behavior`?"""
    if behavior in (None, "static"):
        return isinstance(t, DeterministicTimeConfig) and t.time == base
    if isinstance(behavior, int):
        return isinstance(t, DeterministicTimeConfig) and t.time == behavior
    if isinstance(behavior, dict):
        cls = DIST.get(str(behavior.get("type")))
        return cls is not None and isinstance(t, cls) and t.base_time == base
    return False


def outage_time_matches(t, spec):
    if isinstance(spec, int):
        return isinstance(t, DeterministicTimeConfig) and t.time == spec
    if isinstance(spec, dict):
        cls = DIST.get(str(spec.get("type")))
        return cls is not None and isinstance(t, cls) and t.base_time == int(spec["base"])
    return False


def c16(ctx):
    inst = ctx.compiled_instance
    if inst is None:
        return
    doc = doc_of(ctx.scen)
    ic = doc["instance_config"]
    spec = ic["instance"]
    rows = read_job_matrix(spec["specification"])
    jobs = inst.instance.specification
    nm = max((len(r) for r in rows), default=0)
    # --- jobs, operation order, machines, durations
    if [j.id for j in jobs] != [f"j-{k}" for k in range(len(rows))]:
        yield F("jobs-differ", f"{[j.id for j in jobs]} for {len(rows)} job lines")
        return
    tb_ops = "static"
    tools = {e["job"]: e["operation_tools"] for e in spec.get("tool_usage", [])} if isinstance(spec.get("tool_usage"), list) else {}
    for k, (j, r) in enumerate(zip(jobs, rows)):
        got = [(o.id, o.machine) for o in j.operations]
        exp = [(f"o-{k}-{i}", f"m-{m}") for i, (m, _d) in enumerate(r)]
        if got != exp:
            yield F("operation-order-or-machine-differs", f"{j.id}: {got} vs {exp}")
            return
        for o, (_m, d) in zip(j.operations, r):
            if not time_matches(o.duration, d, tb_ops):
                yield F("duration-differs", f"{o.id}: {o.duration} vs {d}")
                return
        if f"j{k}" in tools:
            if [o.tool for o in j.operations] != list(tools[f"j{k}"])[:len(j.operations)]:
                yield F("tool-differs", f"{j.id}: {[o.tool for o in j.operations]} vs {tools[f'j{k}']}")
                return
    if [m.id for m in inst.machines] != [f"m-{i}" for i in range(nm)]:
        yield F("machines-differ", f"{[m.id for m in inst.machines]} for {nm} columns")
        return
    # --- standalone buffers
    by_role = {}
    for b in inst.buffers:
        by_role.setdefault(b.role, []).append(b)
    if len(by_role.get(BufferRoleConfig.INPUT, [])) < 1 or len(by_role.get(BufferRoleConfig.OUTPUT, [])) < 1:
        yield F("input-output-buffers", f"{[(b.id, b.role) for b in inst.buffers]}")
        return
    inb, outb = by_role[BufferRoleConfig.INPUT][0], by_role[BufferRoleConfig.OUTPUT][0]
    if isinstance(ic.get("buffer"), list):
        for e in ic["buffer"]:
            b = next((b for b in inst.buffers if b.id == e["name"]), None)
            if b is None:
                yield F("custom-buffer-missing", f"{e}")
                return
            if "type" in e and b.type != BTYPE[e["type"]]:
                yield F("buffer-type-differs", f"{b.id}: {b.type} vs {e['type']}")
                return
            if "capacity" in e and b.capacity != e["capacity"]:
                yield F("buffer-capacity-differs", f"{b.id}: {b.capacity} vs {e['capacity']}")
                return
            if "role" in e and b.role.name.lower() != e["role"].lower():
                yield F("buffer-role-differs", f"{b.id}: {b.role} vs {e['role']}")
                return
    # --- machine buffers
    mspec = ic.get("machines")

    def buf_spec_for(i, which):
        if isinstance(mspec, dict):
            lst = mspec.get(which)
            return lst[0] if lst else None
        if isinstance(mspec, list):
            for e in mspec:
                if f"m-{i}" in e:
                    lst = e[f"m-{i}"].get(which)
                    return lst[0] if lst else None
        return None
    for i, m in enumerate(inst.machines):
        for which, b in (("prebuffer", m.prebuffer), ("postbuffer", m.postbuffer)):
            e = buf_spec_for(i, which)
            exp_type = BTYPE[e["type"]] if e and "type" in e else BufferTypeConfig.FLEX_BUFFER
            if b.type != exp_type:
                yield F("machine-buffer-type-differs", f"{m.id}.{which}: {b.type} vs {exp_type}")
                return
            if e and "capacity" in e:
                if b.capacity != e["capacity"]:
                    yield F("machine-buffer-capacity-differs", f"{m.id}.{which}: {b.capacity} vs {e['capacity']}")
                    return
            elif b.capacity < 10 ** 6:
                yield F("machine-buffer-default-not-unlimited", f"{m.id}.{which}: capacity {b.capacity}")
                return
        if m.buffer.capacity != 1:
            yield F("machine-internal-buffer-capacity", f"{m.id}: {m.buffer.capacity}")
            return
    # --- logistics
    lg = ic.get("logistics")
    if isinstance(lg, dict) and "specification" in lg:
        if len(inst.transports) != int(lg.get("amount", 0)):
            yield F("agv-count-differs", f"{len(inst.transports)} vs {lg.get('amount')}")
            return
        cols, ent = read_matrix(lg["specification"])

        def loc(n):
            if n.lower() in IN_NAMES:
                return inb.id
            if n.lower() in OUT_NAMES:
                return outb.id
            return n
        tb = lg.get("time_behavior", "static")
        for (r, c), v in ent.items():
            t = inst.logistics.travel_times.get((loc(r), loc(c)))
            if t is None or not time_matches(t, v, tb):
                yield F("travel-time-differs", f"({r} -> {c}) = {v} in the text, compiled {(loc(r), loc(c))}: {t}")
                return
    # --- setup times
    if isinstance(ic.get("setup_times"), list):
        for e in ic["setup_times"]:
            m = next((m for m in inst.machines if m.id == e["machine"]), None)
            if m is None:
                continue
            cols, ent = read_matrix(e["specification"])
            tb = e.get("time_behavior", "static")
            for (a, b), v in ent.items():
                t = m.setup_times.get((a, b))
                if t is None or not time_matches(t, v, tb):
                    yield F("setup-time-differs", f"{m.id}: ({a} -> {b}) = {v} in the text, compiled {t}")
                    return
    # --- outages
    if isinstance(ic.get("outages"), list):
        for i, m in enumerate(inst.machines):
            exp = [o for o in ic["outages"] if o["component"] in ("m", "machine", "Machine", "MACHINE", m.id)]
            if len(m.outages) != len(exp):
                yield F("machine-outages-differ", f"{m.id}: {len(m.outages)} vs {len(exp)}")
                return
            for o, e in zip(m.outages, exp):
                if not outage_time_matches(o.duration, e["duration"]) or not outage_time_matches(o.frequency, e["frequency"]):
                    yield F("outage-times-differ", f"{m.id}: {o} vs {e}")
                    return
        if isinstance(lg, dict) and "type" in lg:
            exp = [o for o in ic["outages"] if o["component"] in ("t", "transport", "Transport", "TRANSPORT")]
            for t in inst.transports:
                if len(t.outages) != len(exp):
                    yield F("agv-outages-differ", f"{t.id}: {len(t.outages)} vs {len(exp)}")
                    return
                for o, e in zip(t.outages, exp):
                    if not outage_time_matches(o.duration, e["duration"]) or not outage_time_matches(o.frequency, e["frequency"]):
                        yield F("outage-times-differ", f"{t.id}: {o} vs {e}")
                        return
    for x in getattr(ctx.run, "c16_findings", []):
        yield x
    yield from spec_file_twin(ctx, rows)


def spec_file_twin(ctx, rows):
    """a literature spec file with the same job matrix compiles to the same problem as the bare DSL text"""
    import os
    import random
    import tempfile
    from jobshoplab.compiler import Compiler
    from jobshoplab.compiler.repos import DslStrRepository, SpecRepository
    if not rows or len({len(r) for r in rows}) != 1:
        return
    rnd = random.Random(len(rows) * 131 + sum(d for r in rows for _m, d in r))
    nj, nm = len(rows), len(rows[0])
    pad = rnd.choice(["", "", " ", "  "])
    lines = ["# generated literature style instance file", f"{nj} {nm}"] + [pad + (" " if not pad else "  ").join(f"{m} {d}" for m, d in r) for r in rows]
    text = "\n".join(lines) + "\n"
    dsl = ("title: InstanceConfig\ninstance_config:\n  description: x\n  instance:\n    description: x\n    specification: |\n"
           + "      " + "|".join(f"(m{i},t)" for i in range(nm)) + "\n"
           + "".join(f"      j{k}|" + " ".join(f"({m},{d})" for m, d in r) + "\n" for k, r in enumerate(rows)))
    cfg = ctx.run.cfg
    fd, path = tempfile.mkstemp(suffix=".txt", prefix="jsl_spec_")
    try:
        with os.fdopen(fd, "w") as f:
            f.write(text)
        try:
            a_inst, a_st = Compiler(cfg, "warning", repo=SpecRepository(path, "warning", cfg)).compile()
        except Exception as e:  # noqa
            yield F("spec-file-not-compiled", f"{type(e).__name__}: {e!s:.200} for\n{text}")
            return
        b_inst, b_st = Compiler(cfg, "warning", repo=DslStrRepository(dsl, "warning", cfg)).compile()
    finally:
        os.unlink(path)
    got = [[(int(o.machine.split("-")[1]), o.duration.time) for o in j.operations] for j in a_inst.instance.specification]
    if got != [list(map(tuple, r)) for r in rows]:
        yield F("spec-file-jobs-differ", f"file\n{text}compiled to {got}")
        return
    if (a_inst.instance != b_inst.instance or a_inst.machines != b_inst.machines or a_inst.buffers != b_inst.buffers
            or a_inst.transports != b_inst.transports or a_inst.logistics != b_inst.logistics or a_st != b_st):
        yield F("spec-file-differs-from-equivalent-dsl", f"file\n{text}")


def c17(ctx):
    inst, st = ctx.compiled_instance, ctx.compiled_init_state
    if inst is None or st is None:
        return
    import impl_trace
    wf, shape, cons, cap = impl_trace.guards(inst, st)[:4]
    if not wf:
        ids = [b.id for b in list(inst.buffers) + [b for m in inst.machines for b in (m.prebuffer, m.buffer, m.postbuffer)] + [t.buffer for t in inst.transports]]
        yield F("instance-not-well-formed", f"duplicate or dangling identifiers; buffer ids {ids}")
        return
    if not shape:
        yield F("initial-state-shape-differs-from-instance", "")
        return
    places = {m.id for m in inst.machines} | {b.id for b in inst.buffers}
    for (a, b) in inst.logistics.travel_times:
        if a not in places or b not in places:
            yield F("travel-endpoint-does-not-resolve", f"({a}, {b}) is not between machines / standalone buffers {sorted(places)}")
            return
    if not cons:
        yield F("initial-state-not-conserved", "a job is not in exactly one buffer / location does not name it")
        return
    doc = doc_of(ctx.scen)
    init = doc.get("init_state") or {}
    from jobshoplab.types.state_types import Time
    exp_t = init.get("start_time", 0)
    if not isinstance(st.time, Time) or st.time.time != exp_t:
        yield F("start-time-not-honoured", f"{st.time} vs {exp_t}")
        return
    inb = next((b for b in inst.buffers if b.role == BufferRoleConfig.INPUT), None)
    for j in st.jobs:
        e = init.get(j.id)
        if not (isinstance(e, dict) and "location" in e) and inb is not None and j.location != inb.id:
            # no explicit location: the job starts in the input buffer
            listed = any(isinstance(v, dict) and j.id in (v.get("store") or []) for v in init.values() if isinstance(v, dict))
            if not listed:
                yield F("default-job-location-not-input-buffer", f"{j.id} at {j.location}")
                return
    for t in st.transports:
        e = init.get(t.id)
        if isinstance(e, dict) and "location" in e:
            loc = t.location.location if hasattr(t.location, "location") else t.location
            if loc != e["location"]:
                yield F("agv-start-location-not-honoured", f"{t.id}: {loc} vs {e['location']}")
                return
    for k, v in init.items():
        if isinstance(v, dict) and "store" in v:
            b = next((b for b in st.buffers if b.id == k), None)
            if b is None:
                continue
            listed = list(v["store"])
            def written_location(j):
                e = init.get(j.id)
                if isinstance(e, dict) and "location" in e:
                    return e["location"]
                return inb.id if inb is not None else None
            located = [j.id for j in st.jobs if written_location(j) == k]
            exp = listed + [x for x in located if x not in listed]
            if list(b.store)[:len(listed)] != listed:
                yield F("listed-buffer-contents-order-not-kept", f"{k}: compiled {list(b.store)}, written {listed}")
                return
            if sorted(b.store) != sorted(exp):
                yield F("listed-buffer-contents-not-honoured", f"{k}: compiled {list(b.store)}, expected {exp}")
                return
    for x in getattr(ctx.run, "c17_findings", []):
        yield x
