"""Monitors for the state-machine properties C01–C03, C05, C07–C12 (implementation side only)."""
import traceback

from jobshoplab.types.instance_config_types import (
    BufferRoleConfig,
    BufferTypeConfig,
    DeterministicTimeConfig,
)
from jobshoplab.types.state_types import (
    MachineStateState as MS,
    OperationStateState as OS,
    OutageActive,
    OutageInactive,
    Time,
    NoTime,
    TimeDependency,
    TransportStateState as TS,
)
from jobshoplab.types.stochasticy_models import StochasticTimeConfig


def F(sig, detail, step=None):
    return {"sig": sig, "detail": detail, "step": step}


def tt(t):
    return t.time if isinstance(t, Time) else None


class Ctx:
    """walks the recorded run once and offers views to the monitors"""

    def __init__(self, run, scen):
        self.run, self.scen = run, scen
        self.records = run.records
        comp = getattr(run, "compiler", None)
        # episode monitors only look at runs whose environment came up; the compile-level monitors
        # (C16/C17) use `compiled_instance`, which is also there when reset failed or the document
        # lies outside the state model
        self.compiled_instance = run.instance
        self.compiled_init_state = run.init_state
        self.instance = run.instance if run.env is not None else None
        self.init_state = run.init_state if run.env is not None else None
        self.init_vals = dict(run.init_vals)
        if self.instance is None and comp is not None and getattr(comp, "last", None) and run.compile_error is None \
                and getattr(comp, "header", None) is not None:
            # construction of the environment failed after a successful compilation
            self.instance, self.init_state = comp.last
            self.init_vals = dict(getattr(comp, "init_vals", {}) or {})
        self.cfg = scen.get("cfg", {})
        inst = self.instance
        self.events = []  # (step_index, rec, transition, pre, post, updates, vals_before)
        if inst is None:
            return
        self.job_cfg = {j.id: j for j in inst.instance.specification}
        self.op_cfg = {o.id: o for j in inst.instance.specification for o in j.operations}
        self.mach_cfg = {m.id: m for m in inst.machines}
        self.tr_cfg = {t.id: t for t in inst.transports}
        self.buf_cfg = {}
        for b in inst.buffers:
            self.buf_cfg[b.id] = b
        for m in inst.machines:
            for b in (m.prebuffer, m.buffer, m.postbuffer):
                self.buf_cfg[b.id] = b
        for t in inst.transports:
            self.buf_cfg[t.buffer.id] = t.buffer
        self.out_ids = [b.id for b in inst.buffers if b.role == BufferRoleConfig.OUTPUT]
        self.nj = len(inst.instance.specification)
        self.nops = sum(len(j.operations) for j in inst.instance.specification)
        # value timeline of stochastic objects
        vals = dict(self.init_vals)
        for si, rec in enumerate(self.records):
            adopted = rec.kind in ("reset", "act", "smapply")
            for (tr, pre, post, upd) in (rec.micro or []):
                if adopted:  # hypothetical core-API probes are not part of the episode
                    self.events.append((si, rec, tr, pre, post, upd, dict(vals)))
                for (o, old, new) in upd:  # ... but their update() calls persist in the instance
                    vals[id(o)] = new

    # ---- helpers
    def val(self, vals, cfg):
        if isinstance(cfg, DeterministicTimeConfig):
            return cfg.time
        return vals.get(id(cfg), None)

    def all_buffers(self, s):
        out = list(s.buffers)
        for m in s.machines:
            out += [m.prebuffer, m.buffer, m.postbuffer]
        for t in s.transports:
            out.append(t.buffer)
        return out

    def states(self):
        """every observed state: (label, step, state)"""
        for si, rec in enumerate(self.records):
            if rec.kind == "smstep":
                continue
            for k, (tr, pre, post, upd) in enumerate(rec.micro or []):
                yield (f"step{si}.micro{k}.post", si, post)
            r = rec.result
            if r is not None and hasattr(r, "state"):
                for k, s in enumerate(r.sub_states):
                    yield (f"step{si}.sub{k}", si, s)
                yield (f"step{si}.result", si, r.state)

    def stats(self):
        st = {"events": len(self.events), "steps": len(self.records)}
        hc = {}
        for (_si, _rec, tr, pre, _post, _u, _v) in self.events:
            comp = next((c for c in list(pre.machines) + list(pre.transports) if c.id == tr.component_id), None)
            k = f"{tr.component_id[0]}:{comp.state.name if comp else '?'}>{tr.new_state.name}"
            hc[k] = hc.get(k, 0) + 1
        st["handlers"] = hc
        st["errors"] = [type(r.error).__name__ for r in self.records if r.error is not None]
        return st

    def facts(self):
        """structural facts about the scenario that known-finding entries may require"""
        inst = self.instance
        if inst is None:
            return {}
        nj = self.nj
        nm = len(inst.machines)
        FLEX = BufferTypeConfig.FLEX_BUFFER
        mb = [b for m in inst.machines for b in (m.prebuffer, m.postbuffer)]
        per_machine = {}
        for j in inst.instance.specification:
            for o in j.operations:
                per_machine[o.machine] = per_machine.get(o.machine, 0) + 1
        try:
            from jobshoplab.utils import calculate_lower_bound, get_max_allowed_time
            tmax_eq_lb = calculate_lower_bound(inst) == get_max_allowed_time(inst)
        except Exception:
            tmax_eq_lb = False
        has_out = any(m.outages for m in inst.machines) or any(t.outages for t in inst.transports)
        start = self.init_state.time.time if self.init_state is not None and isinstance(self.init_state.time, Time) else 0
        return {
            "finite_capacity": any(b.capacity < nj for b in mb + list(inst.buffers)),
            "ordered_standalone": any(b.type != FLEX for b in inst.buffers),
            "ordered_post": any(m.postbuffer.type != FLEX for m in inst.machines),
            "lifo_post": any(m.postbuffer.type == BufferTypeConfig.LIFO for m in inst.machines),
            "fewer_agvs_than_jobs": len(inst.transports) < nj,
            "early": bool(self.cfg.get("allow_early", True)),
            "not_early": not bool(self.cfg.get("allow_early", True)),
            "big_ids": nj >= 11 or nm >= 11,
            "more_machines_than_jobs": nm > nj,
            "machine_visited_more_than_njobs": any(v > nj for v in per_machine.values()),
            "tmax_eq_lb": tmax_eq_lb,
            "outages": has_out,
            "shifted": start != 0,
            "negative_start": start < 0,
            "buffer_id_beyond_count": self._buffer_id_beyond_count(),
            "always": True,
        }

    def _buffer_id_beyond_count(self):
        inst = self.instance
        ids = [b.id for b in inst.buffers] + [b.id for m in inst.machines for b in (m.prebuffer, m.buffer, m.postbuffer)] + \
            [t.buffer.id for t in inst.transports]
        try:
            return any(int(i.split("-")[1]) > len(ids) - 1 for i in ids)
        except Exception:
            return False

    def in_c11_class(self):
        inst = self.instance
        nj = self.nj
        caps_ok = all(b.capacity >= nj for b in inst.buffers) and all(
            m.prebuffer.capacity >= nj and m.postbuffer.capacity >= nj for m in inst.machines)
        post_unordered = all(m.postbuffer.type == BufferTypeConfig.FLEX_BUFFER for m in inst.machines)
        std_unordered = all(b.type == BufferTypeConfig.FLEX_BUFFER for b in inst.buffers)
        enough = len(inst.transports) >= nj
        early = bool(self.cfg.get("allow_early", True))
        return caps_ok and ((not early) or (post_unordered and std_unordered) or enough), dict(
            caps_ok=caps_ok, post_unordered=post_unordered, std_unordered=std_unordered, enough_agvs=enough,
            early=early)


def _job(s, jid):
    return next((j for j in s.jobs if j.id == jid), None)


def _machine(s, mid):
    return next((m for m in s.machines if m.id == mid), None)


def _transport(s, tid):
    return next((t for t in s.transports if t.id == tid), None)


def _proc_op(j):
    return next((o for o in j.operations if o.operation_state_state == OS.PROCESSING), None)


# ---------------------------------------------------------------------------------------- C01
def feasible(ctx, s):
    """returns None or a description of the infeasibility of the schedule recorded in state s"""
    per_machine = {}
    for j in s.jobs:
        cfg = ctx.job_cfg.get(j.id)
        phase = 0  # 0 done-prefix, 1 after processing / idle
        prev_end = None
        nproc = 0
        for k, o in enumerate(j.operations):
            st = o.operation_state_state
            if cfg is not None and (k >= len(cfg.operations) or cfg.operations[k].machine != o.machine_id
                                    or cfg.operations[k].id != o.id):
                return f"{o.id} is recorded on {o.machine_id}, specified {cfg.operations[k].machine if k < len(cfg.operations) else None}"
            if st == OS.DONE:
                if phase != 0:
                    return f"{o.id} DONE after a not-done operation of {j.id}"
            elif st == OS.PROCESSING:
                if phase != 0:
                    return f"{o.id} PROCESSING out of order in {j.id}"
                phase = 1
                nproc += 1
            elif st == OS.IDLE:
                phase = 2 if phase != 1 else 2
                if phase == 0:
                    phase = 2
            else:
                return f"{o.id} in state {st}"
            if st in (OS.DONE, OS.PROCESSING):
                a, b = tt(o.start_time), tt(o.end_time)
                if a is None or b is None:
                    return f"{o.id} {st.name} without times"
                if a > b:
                    return f"{o.id} start {a} > end {b}"
                if prev_end is not None and a < prev_end:
                    return f"{o.id} starts at {a} before its predecessor ended at {prev_end}"
                prev_end = b
                per_machine.setdefault(o.machine_id, []).append((a, b, o.id))
            if st == OS.IDLE:
                phase = 2
        if nproc > 1:
            return f"{j.id} has {nproc} processing operations"
    for mid, iv in per_machine.items():
        iv.sort()
        for x, y in zip(iv, iv[1:]):
            if x[0] < y[1] and y[0] < x[1]:  # strict overlap
                return f"machine {mid}: {x[2]}[{x[0]},{x[1]}) overlaps {y[2]}[{y[0]},{y[1]})"
    return None


def c01(ctx):
    if ctx.instance is None:
        return
    for label, si, s in ctx.states():
        d = feasible(ctx, s)
        if d:
            yield F("infeasible-schedule", f"{label}: {d}", si)
            return


# ---------------------------------------------------------------------------------------- C02
def c02(ctx):
    if ctx.instance is None:
        return
    dur, out = {}, {}
    for (si, rec, tr, pre, post, upd, vals) in ctx.events:
        if not isinstance(tr.new_state, MS):
            continue
        m0, m1 = _machine(pre, tr.component_id), _machine(post, tr.component_id)
        if m0 is None or m1 is None:
            continue
        now = tt(pre.time)
        if m0.state == MS.SETUP and tr.new_state == MS.WORKING:
            j = _job(post, tr.job_id)
            o = _proc_op(j)
            oc = ctx.op_cfg[o.id]
            if isinstance(oc.duration, DeterministicTimeConfig):
                d = oc.duration.time
            else:
                d = next((new for (ob, old, new) in upd if ob is oc.duration), None)
            dur[o.id] = d
            if tt(o.start_time) != now or d is None or tt(o.end_time) != now + d:
                yield F("processing-end-not-start-plus-duration",
                        f"{o.id}: start={tt(o.start_time)} end={tt(o.end_time)} now={now} duration={d}", si)
                return
            if tt(m1.occupied_till) != tt(o.end_time):
                yield F("machine-occupied-differs-from-op-end", f"{o.id} {m1.occupied_till} vs {o.end_time}", si)
                return
        elif m0.state == MS.WORKING and tr.new_state == MS.OUTAGE:
            j0 = _job(pre, tr.job_id)
            o0 = _proc_op(j0)
            if tt(o0.end_time) != now:
                yield F("completion-not-on-time", f"{o0.id}: scheduled end {tt(o0.end_time)} but completion handled at {now}", si)
                return
            act = [tt(x.active.end_time) - tt(x.active.start_time) for x in m1.outages if isinstance(x.active, OutageActive)]
            occ = max(act) if act else 0
            out[o0.id] = occ
            o1 = _proc_op(_job(post, tr.job_id))
            if tt(o1.end_time) != now + occ:
                yield F("outage-extension-wrong", f"{o1.id}: end {tt(o1.end_time)} != {now}+{occ}", si)
                return
        elif m0.state == MS.OUTAGE and tr.new_state == MS.IDLE:
            jid = m0.buffer.store[0]
            o0 = _proc_op(_job(pre, jid))
            if o0 is None:
                continue
            if tt(o0.end_time) != now:
                yield F("release-not-on-time", f"{o0.id}: end {tt(o0.end_time)} released at {now}", si)
                return
            o1 = next(o for o in _job(post, jid).operations if o.id == o0.id)
            if o1.operation_state_state != OS.DONE or tt(o1.end_time) != now:
                yield F("done-stamp-wrong", f"{o1}", si)
                return
            d, oo = dur.get(o1.id), out.get(o1.id, 0)
            if d is not None and tt(o1.end_time) - tt(o1.start_time) != d + oo:
                yield F("interval-not-duration-plus-outage",
                        f"{o1.id}: [{tt(o1.start_time)},{tt(o1.end_time)}] duration={d} outage={oo}", si)
                return
    # final states: every DONE op seen with exact length
    for rec in ctx.records:
        r = rec.result
        if r is None or not hasattr(r, "state"):
            continue
        for j in r.state.jobs:
            for o in j.operations:
                if o.operation_state_state == OS.DONE and o.id in dur and dur[o.id] is not None:
                    if tt(o.end_time) - tt(o.start_time) != dur[o.id] + out.get(o.id, 0):
                        yield F("interval-not-duration-plus-outage", f"final {o}", None)
                        return


# ---------------------------------------------------------------------------------------- C03
def conserved(ctx, s):
    bufs = ctx.all_buffers(s)
    seen_ids = set()
    for b in bufs:
        # "the job's reported location names that buffer": a location can only name a buffer whose id is its own
        if b.id in seen_ids:
            return f"two buffers share the id {b.id}: a location {b.id} does not name one buffer"
        seen_ids.add(b.id)
    where = {}
    for b in bufs:
        if len(set(b.store)) != len(b.store):
            return f"buffer {b.id} holds a job twice: {b.store}"
        for j in b.store:
            where.setdefault(j, []).append(b.id)
    for j in s.jobs:
        w = where.get(j.id, [])
        if len(w) != 1:
            return f"{j.id} is stored in {w} (location says {j.location})"
        if w[0] != j.location:
            return f"{j.id} stored in {w[0]} but location says {j.location}"
    ids = {j.id for j in s.jobs}
    for j in where:
        if j not in ids:
            return f"unknown job {j} in buffers {where[j]}"
    for m in s.machines:
        n = len(m.buffer.store)
        if m.state == MS.IDLE and n != 0:
            return f"idle machine {m.id} holds {m.buffer.store}"
        if m.state != MS.IDLE and n != 1:
            return f"busy machine {m.id} ({m.state.name}) holds {m.buffer.store}"
    claims = {}
    for t in s.transports:
        if t.state == TS.IDLE and (t.buffer.store or t.transport_job is not None):
            return f"idle AGV {t.id} holds {t.buffer.store} claims {t.transport_job}"
        if t.transport_job is not None:
            claims.setdefault(t.transport_job, []).append(t.id)
    for j, ts in claims.items():
        if len(ts) > 1:
            return f"{j} claimed by {ts}"
    return None


def c03(ctx):
    if ctx.instance is None:
        return
    # initial state first (what the compiler produced)
    if ctx.init_state is not None:
        d = conserved(ctx, ctx.init_state)
        if d:
            yield F("initial-state-not-conserved", d, 0)
            return
    for label, si, s in ctx.states():
        d = conserved(ctx, s)
        if d:
            yield F("not-conserved", f"{label}: {d}", si)
            return


# ---------------------------------------------------------------------------------------- C05
def err_sig(e):
    if type(e).__name__ == "StepTimeout":
        return "Hang"
    frames = [f for f in traceback.extract_tb(e.__traceback__) if "/jobshoplab/" in f.filename]
    names = [f.name for f in frames][-3:]
    return f"{type(e).__name__}@" + "<".join(reversed(names))


def c05(ctx):
    bound = None
    if ctx.instance is not None:
        bound = 40 * (ctx.nops + len(ctx.instance.transports) + ctx.nj) + 200
    for si, rec in enumerate(ctx.records):
        if rec.kind not in ("reset", "act"):
            continue
        if rec.kind == "act" and rec.action not in (0, 1):
            continue
        if rec.kind == "reset" and ctx.run.compile_error is not None:
            continue  # compilation rejected the document: C16's business
        if rec.error is not None:
            yield F(err_sig(rec.error), f"{rec.kind} action={rec.action}: {type(rec.error).__name__}: {str(rec.error)[:200]}", si)
            return
        if rec.kind == "act" and rec.result is not None and not rec.result.success:
            yield F("step-reported-failure", f"action={rec.action}: {rec.result.message[:200]}", si)
            return
        if bound is not None and rec.micro is not None and len(rec.micro) > bound:
            yield F("too-many-internal-transitions", f"{len(rec.micro)} > {bound}", si)
            return


# ---------------------------------------------------------------------------------------- C07
def _src_of(ctx, job):
    bc = ctx.buf_cfg.get(job.location)
    if bc is None:
        return None
    return bc.parent if bc.parent else job.location


def c07(ctx):
    yield from configured_matrices(ctx, "travel")
    yield from c07_events(ctx)


def c07_events(ctx):
    if ctx.instance is None:
        return
    inst = ctx.instance
    travel = inst.logistics.travel_times
    arrive = {}
    early = bool(ctx.cfg.get("allow_early", True))
    for (si, rec, tr, pre, post, upd, vals) in ctx.events:
        if not isinstance(tr.new_state, TS):
            continue
        t0, t1 = _transport(pre, tr.component_id), _transport(post, tr.component_id)
        if t0 is None or t1 is None:
            continue
        now = tt(pre.time)
        if t0.state == TS.IDLE and tr.new_state == TS.WORKING:
            j = _job(pre, tr.job_id)
            src = _src_of(ctx, j)
            cfg = travel.get((t0.location.location, src))
            v = ctx.val(vals, cfg) if cfg is not None else None
            if v is None or tt(t1.occupied_till) != now + v:
                yield F("dispatch-time-wrong", f"{t0.id} at {t0.location.location} to {src}: occ {t1.occupied_till} now {now} travel {v}", si)
                return
            arrive[t0.id] = now + v
        elif tr.new_state == TS.TRANSIT and t0.state in (TS.PICKUP, TS.WAITINGPICKUP):
            j = _job(pre, tr.job_id)
            if any(o.operation_state_state == OS.PROCESSING for o in j.operations):
                yield F("picked-up-while-processing", f"{j.id} picked up by {t0.id} at {now}", si)
                return
            bc = ctx.buf_cfg.get(j.location)
            is_post = any(m.postbuffer.id == j.location for m in inst.machines)
            is_std = any(b.id == j.location for b in inst.buffers)
            if not (is_post or is_std):
                yield F("picked-up-from-wrong-buffer", f"{j.id} in {j.location}", si)
                return
            src = _src_of(ctx, j)
            if all(o.operation_state_state != OS.IDLE for o in j.operations):
                dst = ctx.out_ids[0] if ctx.out_ids else None
            else:
                dst = next(o for o in j.operations if o.operation_state_state != OS.DONE).machine_id
            cfg = travel.get((src, dst))
            if isinstance(cfg, DeterministicTimeConfig):
                v = cfg.time
            else:
                v = next((new for (ob, old, new) in upd if ob is cfg), None)
            if v is None or tt(t1.occupied_till) != now + v:
                yield F("transit-time-wrong", f"{t0.id} {src}->{dst}: occ {t1.occupied_till} now {now} travel {v}", si)
                return
            if t0.id in arrive and now < arrive[t0.id]:
                yield F("pickup-before-arrival", f"{t0.id} picks up at {now}, reaches pickup point at {arrive[t0.id]}", si)
                return
            loc = t0.location.location
            if not (isinstance(loc, tuple) and loc[2] == dst):
                yield F("route-inconsistent", f"{t0.id} route {loc} but job going to {dst}", si)
                return
        elif t0.state == TS.TRANSIT and tr.new_state == TS.OUTAGE:
            if tt(t0.occupied_till) != now:
                yield F("delivery-not-at-arrival-time", f"{t0.id} arrival {t0.occupied_till} delivered at {now}", si)
                return
            dst = t0.location.location[2]
            j1 = _job(post, tr.job_id)
            if dst.startswith("m-"):
                ok = j1.location == ctx.mach_cfg[dst].prebuffer.id
            else:
                ok = j1.location == dst
            if not ok:
                yield F("delivered-to-wrong-place", f"{j1.id} at {j1.location}, destination {dst}", si)
                return
            if dst in ctx.out_ids and any(o.operation_state_state != OS.DONE for o in j1.operations):
                yield F("unfinished-job-in-output", f"{j1.id}", si)
                return
    # inter-operation gaps (deterministic matrices only)
    if all(isinstance(v, DeterministicTimeConfig) for v in travel.values()):
        last = next((r.result for r in reversed(ctx.records) if r.result is not None and hasattr(r.result, "state")), None)
        if last is not None and ctx.init_state is not None:
            loc0 = {j.id: j.location for j in ctx.init_state.jobs}
            for j in last.state.jobs:
                prev = None
                for o in j.operations:
                    if tt(o.start_time) is None or o.operation_state_state == OS.IDLE:
                        break
                    if prev is not None:
                        c = travel.get((prev.machine_id, o.machine_id))
                        if c is not None and tt(o.start_time) < tt(prev.end_time) + c.time:
                            yield F("gap-smaller-than-travel-time",
                                    f"{o.id} starts {tt(o.start_time)} < {tt(prev.end_time)}+{c.time} ({prev.machine_id}->{o.machine_id})", None)
                            return
                    prev = o


# ---------------------------------------------------------------------------------------- C08
def c08(ctx):
    if ctx.instance is None:
        return
    ordered_ids = set(b.id for b in ctx.instance.buffers)
    for m in ctx.instance.machines:
        ordered_ids.add(m.prebuffer.id)
        ordered_ids.add(m.postbuffer.id)
    if ctx.init_state is not None:
        for b in ctx.all_buffers(ctx.init_state):
            if len(b.store) > ctx.buf_cfg[b.id].capacity:
                yield F("initial-over-capacity", f"{b.id} holds {len(b.store)} > {ctx.buf_cfg[b.id].capacity}", 0)
                return
    appended_at = {}  # (buffer id, job id) -> (step index, time) of the insertion
    for (si, rec, tr, pre, post, upd, vals) in ctx.events:
        pb = {b.id: b for b in ctx.all_buffers(pre)}
        for b in ctx.all_buffers(post):
            c = ctx.buf_cfg[b.id]
            if len(b.store) > c.capacity:
                yield F("over-capacity", f"{b.id} holds {len(b.store)} > {c.capacity} after {tr}", si)
                return
            a = pb[b.id].store
            if a == b.store:
                continue
            if len(b.store) == len(a) + 1:
                if b.store[:-1] != a:
                    yield F("insertion-not-at-back", f"{b.id}: {a} -> {b.store}", si)
                    return
                appended_at[(b.id, b.store[-1])] = (si, tt(pre.time))
            elif len(b.store) == len(a) - 1:
                idx = next((i for i in range(len(a)) if a[:i] + a[i + 1:] == b.store), None)
                if idx is None:
                    yield F("store-changed-oddly", f"{b.id}: {a} -> {b.store}", si)
                    return
                if b.id in ordered_ids:
                    if c.type in (BufferTypeConfig.FIFO,) and idx != 0:
                        yield F("fifo-released-not-oldest", f"{b.id}: {a} released index {idx} by {tr}", si)
                        return
                    if c.type == BufferTypeConfig.LIFO and idx != len(a) - 1:
                        # was the burying job appended in this very step at this very instant, i.e. after
                        # the (then correct) pickup transition had already been created?
                        newer = [appended_at.get((b.id, x)) for x in a[idx + 1:]]
                        same = all(n is not None and n == (si, tt(pre.time)) for n in newer)
                        yield F("lifo-released-not-newest" + (":buried-in-the-same-instant" if same else ""),
                                f"{b.id}: {a} released index {idx} by {tr}", si)
                        return
                    if c.type == BufferTypeConfig.DUMMY and idx != 0:
                        yield F("dummy-released-not-front", f"{b.id}: {a} released index {idx} by {tr}", si)
                        return
            else:
                yield F("store-changed-oddly", f"{b.id}: {a} -> {b.store}", si)
                return


# ---------------------------------------------------------------------------------------- C09
def configured_matrices(ctx, which):
    """the travel / setup matrices as written in the document, read independently of the compiler,
    against the compiled tables (C07, C09: 'the right matrix entry' is the configured one)"""
    from . import compmon
    try:
        doc = compmon.doc_of(ctx.scen)
        ic = doc["instance_config"]
    except Exception:  # noqa
        return
    inst = ctx.compiled_instance if getattr(ctx, "compiled_instance", None) is not None else ctx.instance
    if inst is None:
        return
    if which == "setup" and isinstance(ic.get("setup_times"), list):
        for e in ic["setup_times"]:
            m = next((m for m in inst.machines if m.id == e.get("machine")), None)
            if m is None or "specification" not in e:
                continue
            try:
                cols, ent = compmon.read_matrix(e["specification"])
            except Exception:  # noqa
                continue
            tb = e.get("time_behavior", "static")
            for (a, b), v in ent.items():
                t = m.setup_times.get((a, b))
                if t is None or not compmon.time_matches(t, v, tb):
                    yield F("setup-matrix-not-as-configured", f"{m.id}: ({a} -> {b}) = {v} in the document, compiled {t}", 0)
                    return
    if which == "travel":
        lg = ic.get("logistics")
        if isinstance(lg, dict) and "specification" in lg:
            try:
                cols, ent = compmon.read_matrix(lg["specification"])
            except Exception:  # noqa
                return
            from jobshoplab.types.instance_config_types import BufferRoleConfig as _BR
            inb = next((b for b in inst.buffers if b.role == _BR.INPUT), None)
            outb = next((b for b in inst.buffers if b.role == _BR.OUTPUT), None)

            def loc(n):
                if n.lower() in compmon.IN_NAMES and inb is not None:
                    return inb.id
                if n.lower() in compmon.OUT_NAMES and outb is not None:
                    return outb.id
                return n
            tb = lg.get("time_behavior", "static")
            for (r, c), v in ent.items():
                t = inst.logistics.travel_times.get((loc(r), loc(c)))
                if t is not None and not compmon.time_matches(t, v, tb):
                    yield F("travel-matrix-not-as-configured", f"({r} -> {c}) = {v} in the document, compiled {t}", 0)
                    return


def c09(ctx):
    if ctx.instance is None:
        return
    yield from configured_matrices(ctx, "setup")
    if ctx.init_state is not None:
        for m in ctx.init_state.machines:
            if m.mounted_tool != "tl-0":
                yield F("initial-tool-not-default", f"{m.id}: {m.mounted_tool}", 0)
                return
    for (si, rec, tr, pre, post, upd, vals) in ctx.events:
        if not isinstance(tr.new_state, MS):
            continue
        m0, m1 = _machine(pre, tr.component_id), _machine(post, tr.component_id)
        now = tt(pre.time)
        if m0.state == MS.IDLE and tr.new_state == MS.SETUP:
            j = _job(pre, tr.job_id)
            o = next(o for o in j.operations if o.operation_state_state != OS.DONE)
            oc = ctx.op_cfg[o.id]
            cfg = ctx.mach_cfg[m0.id].setup_times.get((m0.mounted_tool, oc.tool))
            if isinstance(cfg, DeterministicTimeConfig):
                s = cfg.time
            elif cfg is not None:
                s = next((old for (ob, old, new) in upd if ob is cfg), None)
            else:
                s = None
            if s is None or tt(m1.occupied_till) != now + s or m1.mounted_tool != oc.tool or m1.state != MS.SETUP \
                    or tuple(m1.buffer.store) != (j.id,):
                yield F("setup-entry-wrong", f"{m0.id} {m0.mounted_tool}->{oc.tool}: occ {m1.occupied_till} now {now} setup {s} mounted {m1.mounted_tool}", si)
                return
        elif m0.state == MS.SETUP and tr.new_state == MS.WORKING:
            if tt(m0.occupied_till) != now:
                yield F("setup-not-exact", f"{m0.id}: setup until {m0.occupied_till}, processing starts {now}", si)
                return
    # gaps in the final schedule (deterministic setup matrices)
    last = next((r.result for r in reversed(ctx.records) if r.result is not None and hasattr(r.result, "state")), None)
    if last is None:
        return
    for m in ctx.instance.machines:
        if not all(isinstance(v, DeterministicTimeConfig) for v in m.setup_times.values()):
            continue
        ops = [o for j in last.state.jobs for o in j.operations
               if o.machine_id == m.id and o.operation_state_state == OS.DONE]
        ops.sort(key=lambda o: (tt(o.start_time), tt(o.end_time)))
        prev_tool = "tl-0"
        prev_end = None
        for o in ops:
            tool = ctx.op_cfg[o.id].tool
            c = m.setup_times.get((prev_tool, tool))
            if c is not None and prev_end is not None and tt(o.start_time) < prev_end + c.time:
                yield F("gap-smaller-than-setup", f"{m.id}: {o.id} starts {tt(o.start_time)} < {prev_end}+{c.time} ({prev_tool}->{tool})", None)
                return
            prev_tool, prev_end = tool, tt(o.end_time)


# ---------------------------------------------------------------------------------------- C10
def c10(ctx):
    if ctx.instance is None:
        return
    for (si, rec, tr, pre, post, upd, vals) in ctx.events:
        now = tt(pre.time)
        if isinstance(tr.new_state, MS):
            c0, c1 = _machine(pre, tr.component_id), _machine(post, tr.component_id)
            into = c0.state == MS.WORKING and tr.new_state == MS.OUTAGE
            outof = c0.state == MS.OUTAGE and tr.new_state == MS.IDLE
        else:
            c0, c1 = _transport(pre, tr.component_id), _transport(post, tr.component_id)
            into = c0.state == TS.TRANSIT and tr.new_state == TS.OUTAGE
            outof = c0.state == TS.OUTAGE and tr.new_state == TS.IDLE
        if c0 is None or c1 is None:
            continue
        # "inactive again with its end time remembered": a record that remembers an end keeps it until it strikes again
        for x0 in c0.outages:
            x1 = next((y for y in c1.outages if y.id == x0.id), None)
            if (x1 is not None and isinstance(x0.active, OutageInactive) and isinstance(x1.active, OutageInactive)
                    and isinstance(x0.active.last_time_active, Time) and x1.active.last_time_active != x0.active.last_time_active):
                yield F("remembered-outage-end-forgotten", f"{c0.id}: {x0} -> {x1} by {tr.new_state}", si)
                return
        if into:
            for x in c0.outages:
                if isinstance(x.active, OutageActive):
                    yield F("outage-active-before-strike", f"{c0.id}: {x}", si)
                    return
            durs = []
            for x in c1.outages:
                if isinstance(x.active, OutageActive):
                    d = tt(x.active.end_time) - tt(x.active.start_time)
                    if d < 0:
                        yield F("negative-outage-duration", f"{c0.id}: {x}", si)
                        return
                    if tt(x.active.start_time) != now:
                        yield F("outage-start-not-now", f"{c0.id}: {x} now {now}", si)
                        return
                    durs.append(d)
            occ = max(durs) if durs else 0
            if tt(c1.occupied_till) != now + occ:
                yield F("outage-block-not-longest", f"{c0.id}: occupied till {c1.occupied_till}, now {now}, longest {occ}", si)
                return
        if outof:
            if tt(c0.occupied_till) != now:
                yield F("outage-release-not-exact", f"{c0.id}: blocked until {c0.occupied_till}, released {now}", si)
                return
            for x0 in c0.outages:
                x1 = next((y for y in c1.outages if y.id == x0.id), None)
                if x1 is None or not isinstance(x1.active, OutageInactive):
                    yield F("outage-record-still-active", f"{c0.id}: {x1}", si)
                    return
                if isinstance(x0.active, OutageActive) and x1.active.last_time_active != x0.active.end_time:
                    yield F("outage-end-not-remembered", f"{c0.id}: {x0} -> {x1}", si)
                    return
            st = c1.state
            if st not in (MS.IDLE, TS.IDLE):
                yield F("not-idle-after-outage", f"{c0.id}: {st}", si)
                return


# ---------------------------------------------------------------------------------------- C11
def c11(ctx):
    if ctx.instance is None or ctx.run.env is None:
        return
    inclass, why = ctx.in_c11_class()
    early = bool(ctx.cfg.get("allow_early", True))
    import jobshoplab.utils.state_machine_utils.buffer_type_utils as B
    if not early:
        for (si, rec, tr, pre, post, upd, vals) in ctx.events:
            if isinstance(tr.new_state, TS) and tr.new_state == TS.WORKING:
                t0 = _transport(pre, tr.component_id)
                if t0 is not None and t0.state == TS.IDLE:
                    j = _job(pre, tr.job_id)
                    if not B.is_job_ready_for_pickup_from_postbuffer(j, pre, ctx.instance):
                        yield F("dispatched-to-unready-job", f"{t0.id} -> {j.id} with early transport disabled", si)
                        return
    if not inclass:
        return
    for si, rec in enumerate(ctx.records):
        if rec.kind not in ("reset", "act"):
            continue
        if rec.error is not None:
            n = type(rec.error).__name__
            if n == "StepTimeout":
                n = "Hang"
            if n in ("UnsuccessfulStateMachineResult", "Hang") or (n == "InvalidValue" and "No possible transitions" in str(rec.error)):
                yield F("deadlock:" + n, f"in class {why}: {n} at step {si}", si)
                return
        r = rec.result
        if r is not None and hasattr(r, "possible_transitions") and r.success and r.message != "Done" \
                and len(r.possible_transitions) == 0:
            yield F("no-offer-not-done", f"in class {why}", si)
            return
    if ctx.scen.get("policy", {}).get("kind") == "accept":
        n = sum(1 for r in ctx.records if r.kind == "act")
        bound = 3 * ctx.nops + 3 * ctx.nj + 10
        last = ctx.records[-1]
        if n > bound or (n >= ctx.scen.get("max_steps", 10 ** 9) and not getattr(last, "terminated", False)):
            yield F("always-accept-does-not-finish", f"{n} steps, bound {bound}", None)


# ---------------------------------------------------------------------------------------- C12
def pending(s):
    c = []
    for j in s.jobs:
        for o in j.operations:
            if o.operation_state_state == OS.PROCESSING and tt(o.end_time) is not None:
                c.append(tt(o.end_time))
    for t in s.transports:
        if t.state != TS.IDLE and isinstance(t.occupied_till, Time):
            c.append(t.occupied_till.time)
    return min(c) if c else None


def _shift_norm(x, off):
    """the object with every Time moved back by `off` (generic walk over the frozen dataclasses)"""
    import dataclasses
    if isinstance(x, Time):
        return ("T", x.time - off)
    if isinstance(x, (str, int, float, bool)) or x is None:
        return x
    if isinstance(x, (tuple, list)):
        return tuple(_shift_norm(y, off) for y in x)
    if isinstance(x, dict):
        return tuple(sorted((str(k), _shift_norm(v, off)) for k, v in x.items()))
    if dataclasses.is_dataclass(x):
        return (type(x).__name__,) + tuple(_shift_norm(getattr(x, f.name), off) for f in dataclasses.fields(x))
    if hasattr(x, "name") and hasattr(x, "value"):
        return x.name
    return repr(x)


def c12_shift(ctx):
    tw = getattr(ctx.run, "twin", None)
    if tw is None or tw.env is None:
        return
    a = ctx.records[:1] + [r for r in ctx.records[1:] if r.kind == "act"]
    b = tw.records[:1] + [r for r in tw.records[1:] if r.kind == "act"]
    start_a = ctx.init_state.time.time if isinstance(ctx.init_state.time, Time) else 0
    start_b = start_a + tw.delta
    for i, (ra, rb) in enumerate(zip(a, b)):
        if (ra.error is None) != (rb.error is None):
            yield F("shifted-run-differs:error", f"step {i}: {ra.error!r} vs {rb.error!r} (start {start_a} vs {start_b})", i)
            return
        if ra.error is not None:
            return
        sa, sb = ra.env_state, rb.env_state
        if _shift_norm(sa.state, start_a) != _shift_norm(sb.state, start_b):
            yield F("shifted-run-differs:state", f"step {i}: start {start_a} vs {start_b}: {sa.state} vs {sb.state}", i)
            return
        if tuple(sa.possible_transitions) != tuple(sb.possible_transitions):
            yield F("shifted-run-differs:offers", f"step {i}: {sa.possible_transitions} vs {sb.possible_transitions}", i)
            return
        if ra.kind == "act" and (ra.terminated, ra.truncated) != (rb.terminated, rb.truncated):
            yield F("shifted-run-differs:flags", f"step {i}", i)
            return


def c12_parked_dependencies(ctx):
    """no component is overdue when control returns: an AGV parked on a time dependency whose
    condition already holds (its job is next in line, or some AGV has been assigned to the blocking
    job) is due - independent reading of `_time_dependency_is_resolved`"""
    from jobshoplab.types.state_types import TimeDependency as _TD
    from jobshoplab.utils.state_machine_utils import buffer_type_utils as B
    for si, rec in enumerate(ctx.records):
        if rec.kind not in ("reset", "act") or rec.error is not None:
            continue
        res = rec.result if rec.kind == "reset" else rec.env_state
        if res is None or not hasattr(res, "state") or not getattr(res, "success", True):
            continue
        st = res.state
        if len(res.possible_transitions) == 0:
            continue
        for t in st.transports:
            d = t.occupied_till
            if not isinstance(d, _TD):
                continue
            buf = next((m.postbuffer for m in st.machines if m.postbuffer.id == d.buffer_id), None)
            if buf is None:
                continue
            cfg = ctx.buf_cfg.get(buf.id)
            try:
                nxt = B.get_next_job_from_buffer(buf, cfg)
            except Exception:  # noqa
                continue
            if nxt == t.transport_job or any(x.transport_job == d.job_id for x in st.transports):
                yield F("resolved-dependency-still-parked",
                        f"{t.id} waits on {d.job_id} in {d.buffer_id} although "
                        f"{'its job is next in line' if nxt == t.transport_job else 'an AGV is assigned to the blocking job'} (t={tt(st.time)})", si)
                return


def c12(ctx):
    if ctx.instance is None:
        return
    yield from c12_shift(ctx)
    yield from c12_parked_dependencies(ctx)
    for si, rec in enumerate(ctx.records):
        if rec.kind not in ("reset", "act", "smstep", "smapply"):
            continue
        r = rec.result
        if r is None or not hasattr(r, "state"):
            continue
        if rec.kind == "reset":
            prev = rec.pre
        else:
            prev = rec.pre.state
        if prev is None:
            continue
        cur_t = tt(prev.time)
        start_t = cur_t
        cur_state = prev
        seq = [(pre, post) for (_tr, pre, post, _u) in rec.micro]
        # the first advance of a step may be the forced jump (last offer declined, or a core-API step
        # with another time machine); every other advance is `jump_to_event`: nothing left to decide
        forced_first = (rec.kind == "act" and rec.action == 0 and len(rec.offers_before or ()) == 1) or \
            (rec.kind in ("smstep", "smapply") and getattr(getattr(rec.action, "time_machine", None), "__name__", "jump_to_event") != "jump_to_event") \
            or rec.kind == "reset"
        advances = 0

        def undecided(state):
            try:
                from jobshoplab.state_machine.core.state_machine.state import get_possible_transitions
                return tuple(get_possible_transitions(state, ctx.instance, ctx.run.cfg))
            except Exception:
                return ()
        for pre, post in seq:
            if tt(pre.time) < cur_t:
                yield F("time-decreased", f"{cur_t} -> {tt(pre.time)}", si)
                return
            if tt(pre.time) > cur_t:
                p = pending(cur_state)
                exp = p if p is not None else cur_t + 1
                if tt(pre.time) != exp:
                    yield F("time-advance-not-to-earliest-pending", f"{cur_t} -> {tt(pre.time)}, earliest pending {p}", si)
                    return
                advances += 1
                if not (forced_first and advances == 1):
                    left = undecided(cur_state)
                    if left:
                        yield F("time-advanced-while-decisions-were-open", f"{cur_t} -> {tt(pre.time)} although {left[:3]} could still be decided", si)
                        return
            if tt(post.time) != tt(pre.time):
                yield F("handler-changed-time", f"{tt(pre.time)} -> {tt(post.time)}", si)
                return
            cur_t, cur_state = tt(post.time), post
        fin = r.state
        if not r.success:
            continue
        if r.message == "Done":
            continue
        if tt(fin.time) < cur_t:
            yield F("time-decreased", f"{cur_t} -> {tt(fin.time)} at return", si)
            return
        if tt(fin.time) > cur_t:
            p = pending(cur_state)
            exp = p if p is not None else cur_t + 1
            if tt(fin.time) != exp:
                yield F("time-advance-not-to-earliest-pending", f"{cur_t} -> {tt(fin.time)} at return, earliest pending {p}", si)
                return
            advances += 1
            if not (forced_first and advances == 1):
                left = undecided(cur_state)
                if left:
                    yield F("time-advanced-while-decisions-were-open", f"{cur_t} -> {tt(fin.time)} at return although {left[:3]} could still be decided", si)
                    return
        for m in fin.machines:
            if m.state != MS.IDLE and tt(m.occupied_till) is not None and tt(m.occupied_till) <= tt(fin.time):
                yield F("overdue-at-return", f"{m.id} {m.state.name} until {m.occupied_till} at {fin.time}", si)
                return
        for t in fin.transports:
            if t.state != TS.IDLE and isinstance(t.occupied_till, Time) and t.occupied_till.time <= tt(fin.time):
                yield F("overdue-at-return", f"{t.id} {t.state.name} until {t.occupied_till} at {fin.time}", si)
                return
