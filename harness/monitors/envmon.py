"""Monitors for the environment-level properties C04, C06, C14, C15, C18, C19, C20."""
import numpy as np

from jobshoplab.types.state_types import (
    MachineStateState as MS,
    OperationStateState as OS,
    Time,
    TransportStateState as TS,
)
from jobshoplab.utils.exceptions import ActionOutOfActionSpace, EnvDone

from .core import F, tt


def _all_done_delivered(ctx, s):
    return all(all(o.operation_state_state == OS.DONE for o in j.operations) and j.location in ctx.out_ids
               for j in s.jobs)


# ---------------------------------------------------------------------------------------- C04
def c04(ctx):
    if ctx.run.env is None:
        return
    for si, rec in enumerate(ctx.records):
        if rec.kind != "act" or rec.error is not None or rec.action not in (0, 1):
            continue
        s = rec.env_state.state
        want = _all_done_delivered(ctx, s)
        if bool(rec.terminated) != want:
            yield F("terminated-iff-delivered-violated", f"terminated={rec.terminated} but all-done-and-delivered={want}", si)
            return
        if rec.terminated and rec.truncated:
            yield F("terminated-and-truncated", "", si)
            return
        if rec.terminated:
            ends = [tt(o.end_time) for j in s.jobs for o in j.operations]
            mk = max(ends)
            if rec.info.get("makespan") != mk or tt(s.time) != mk:
                yield F("makespan-not-latest-completion", f"info {rec.info.get('makespan')} time {tt(s.time)} latest completion {mk}", si)
                return
        elif rec.info.get("makespan") is not None:
            yield F("makespan-reported-before-termination", f"{rec.info}", si)
            return
    post = getattr(ctx.run, "after_done", None)
    if post is not None and post != "EnvDone":
        yield F("step-after-done-not-refused", f"env.step after done gave {post}", None)


# ---------------------------------------------------------------------------------------- C06
def c06(ctx):
    """lower bound never exceeds a makespan actually reached (classic instances)"""
    env = ctx.run.env
    if env is None or not ctx.scen.get("meta", {}).get("classic_instance"):
        return
    for si, rec in enumerate(ctx.records):
        if rec.kind == "act" and rec.error is None and rec.terminated:
            mk = rec.info.get("makespan")
            if mk is not None and env.lower_bound > mk:
                yield F("lower-bound-exceeds-reached-makespan", f"LB {env.lower_bound} > makespan {mk}", si)
                return
            # "... so the normalised terminal reward never exceeds its nominal maximum": the sparse weight
            # (the shaping term is never positive)
            nominal = ctx.scen["cfg"].get("sparse", 1)
            if rec.reward is not None and not rec.truncated and rec.reward > nominal + 1e-9:
                yield F("terminal-reward-exceeds-nominal-maximum", f"reward {rec.reward} > sparse weight {nominal} (makespan {mk}, LB {env.lower_bound}, T_max {env.max_allowed_time})", si)
                return


# ---------------------------------------------------------------------------------------- C13
def c13(ctx):
    """same configuration, seed and actions => same episode, in any process"""
    data = getattr(ctx.run, "c13", None)
    if not data:
        return
    mine = data["mine"]
    for tw in data["twins"]:
        job = tw["job"]
        if "error" in tw:
            # a twin that could not be run is a harness problem, not a statement about the property
            ctx.run.c13_errors = getattr(ctx.run, "c13_errors", 0) + 1
            continue
        lines = tw["lines"]
        what = "other-seed" if job.get("seed_override") is not None else ("other-env-alive" if job.get("other") else "other-process")
        if len(lines) != len(mine):
            yield F(f"twin-differs:{what}", f"{job}: {len(mine)} vs {len(lines)} trace lines", None)
            return
        for i, (a, b) in enumerate(zip(mine, lines)):
            if a != b:
                yield F(f"twin-differs:{what}", f"{job}: line {i}: {a[:160]} | {b[:160]}", None)
                return


# ---------------------------------------------------------------------------------------- C14
def c14(ctx):
    env = ctx.run.env
    if env is None:
        return
    space = env.observation_space
    for si, rec in enumerate(ctx.records):
        if rec.kind not in ("reset", "act") or rec.error is not None or rec.obs is None:
            continue
        obs = rec.obs
        if set(obs.keys()) != set(space.spaces.keys()):
            yield F("observation-keys-differ", f"{sorted(obs)} vs {sorted(space.spaces)}", si)
            return
        for k, sp in space.spaces.items():
            a = np.asarray(obs[k])
            if a.shape != sp.shape:
                yield F(f"observation-shape:{k}", f"{a.shape} vs {sp.shape}", si)
                return
            v = a.astype(np.float64)
            if not np.all(np.isfinite(v)):
                yield F(f"observation-not-finite:{k}", f"{a}", si)
                return
            if np.any(v < sp.low.astype(np.float64) - 1e-9) or np.any(v > sp.high.astype(np.float64) + 1e-9):
                yield F(f"observation-out-of-bounds:{k}", f"{a.tolist()} not within [{sp.low.min()},{sp.high.max()}]", si)
                return
    for x in getattr(ctx.run, "c14_findings", []):
        yield x
    post = getattr(ctx.run, "after_done", None)
    if post is not None and post != "EnvDone":
        yield F("step-after-done-not-refused", f"env.step on a finished episode gave {post} instead of EnvDone", None)


# ---------------------------------------------------------------------------------------- C15
def c15_oparray(ctx):
    """operation-array factory: operation progress and job locations read independently from the state"""
    inst = ctx.instance
    nbuf = len(inst.buffers) + 3 * len(inst.machines) + len(inst.transports)
    for si, rec in enumerate(ctx.records):
        if rec.kind not in ("reset", "act") or rec.error is not None or rec.obs is None:
            continue
        res = rec.result if rec.kind == "reset" else rec.env_state
        if rec.kind == "act" and rec.result is not rec.env_state:
            continue
        s = res.state
        obs = rec.obs
        exp = []
        for j in s.jobs:
            for o in j.operations:
                if o.operation_state_state == OS.IDLE:
                    exp.append(0.0)
                elif o.operation_state_state == OS.DONE:
                    exp.append(1.0)
                else:
                    a, b = tt(o.start_time), tt(o.end_time)
                    exp.append((tt(s.time) - a) / (b - a) if b != a else None)
        got = [float(x) for x in np.asarray(obs["operation_state"]).reshape(-1)]
        if len(got) != len(exp) or any(e is not None and abs(g - e) > 1e-5 * max(1, abs(e)) for g, e in zip(got, exp)):
            yield F("field-differs-from-state:operation_state", f"observation {got} but the state says {exp}", si)
            return
        if nbuf > 1:
            expl = [int(j.location.split("-")[1]) / (nbuf - 1) for j in s.jobs]
            gotl = [float(x) for x in np.asarray(obs["job_locations"]).reshape(-1)]
            if len(gotl) != len(expl) or any(abs(g - e) > 1e-5 * max(1, abs(e)) for g, e in zip(gotl, expl)):
                yield F("field-differs-from-state:job_locations",
                        f"observation {gotl} but buffer number / (number of buffers - 1) gives {expl}", si)
                return


def c15(ctx):
    env = ctx.run.env
    if env is None:
        return
    if ctx.run.obs_kind != 0:
        yield from c15_oparray(ctx)
        return
    inst = ctx.instance
    nj, nm = ctx.nj, len(inst.machines)
    comps = [m.id for m in inst.machines] + [t.id for t in inst.transports]
    for si, rec in enumerate(ctx.records):
        if rec.kind not in ("reset", "act") or rec.error is not None or rec.obs is None:
            continue
        res = rec.result if rec.kind == "reset" else rec.env_state
        # the observation of a failed step is built from the failed result; skip those
        if rec.kind == "act" and rec.result is not rec.env_state:
            continue
        s = res.state
        obs = rec.obs
        byid = {int(j.id.split("-")[1]): j for j in s.jobs}
        mbyid = {int(m.id.split("-")[1]): m for m in s.machines}
        exp = {
            "job_running": [int(any(o.operation_state_state == OS.PROCESSING for o in byid[i].operations)) for i in range(nj)],
            "job_progression": [sum(o.operation_state_state == OS.DONE for o in byid[i].operations) for i in range(nj)],
            "available_jobs": [int(any(o.operation_state_state == OS.IDLE for o in byid[i].operations)
                                   and not any(o.operation_state_state == OS.PROCESSING for o in byid[i].operations))
                               for i in range(nj)],
            "machine_running": [int(mbyid[i].state == MS.WORKING) for i in range(nm)],
            "machine_progression": [sum(1 for j in s.jobs for o in j.operations
                                        if o.machine_id == f"m-{i}" and o.operation_state_state == OS.DONE) for i in range(nm)],
            "job_executed_on_machine": [[int(any(o.machine_id == f"m-{k}" and o.operation_state_state == OS.DONE
                                                 for o in byid[i].operations)) for k in range(nm)] for i in range(nj)],
        }
        for k, e in exp.items():
            got = np.asarray(obs[k]).astype(int).tolist()
            if got != e:
                yield F(f"field-differs-from-state:{k}", f"observation {got} but the state says {e}", si)
                return
        if env.max_allowed_time:
            e = tt(s.time) / env.max_allowed_time
            if abs(float(obs["current_time"][0]) - e) > 1e-5 * max(1, abs(e)):
                yield F("field-differs-from-state:current_time", f"{obs['current_time']} vs {e}", si)
                return
        offers = res.possible_transitions
        done = len(offers) == 0
        if not done:
            t = offers[0]
            e = [comps.index(t.component_id) / len(comps),
                 (int(t.job_id.split("-")[1]) if t.job_id else nj) / nj,
                 {"m": 0.0, "t": 0.33, "b": 0.66}[t.component_id[0]]]
            got = [float(x) for x in obs["current_transition"]]
            if any(abs(a - b) > 1e-5 for a, b in zip(got, e)):
                yield F("offer-encoding-differs", f"{got} vs {e} for {t}", si)
                return
    # injectivity of the offer encoding over all offers of this instance (float32)
    seen = {}
    for ci, c in enumerate(comps):
        for j in range(nj):
            code = (np.float32(ci / len(comps)), np.float32(j / nj), np.float32({"m": 0.0, "t": 0.33}[c[0]]))
            if code in seen:
                yield F("offer-encoding-not-injective", f"{seen[code]} and {(c, j)} both encode to {code}", None)
                return
            seen[code] = (c, j)


# ---------------------------------------------------------------------------------------- C18
def c18(ctx):
    env = ctx.run.env
    if env is None:
        return
    for x in getattr(ctx.run, "c18_findings", []):
        yield F(x["sig"], x["detail"], x.get("step"))
    import canon
    from jobshoplab.state_machine.core.state_machine.state import get_possible_transitions
    joker0 = int(ctx.cfg.get("joker", 5))
    active = bool(ctx.cfg.get("trunc_active", False))
    declined_rounds = 0     # decision rounds closed (by a last-offer decline) without any accept
    accepted_in_round = False
    for si, rec in enumerate(ctx.records):
        if rec.kind != "act" or rec.action not in (0, 1):
            continue
        if rec.error is not None:
            break
        before = rec.pre
        after = rec.env_state
        if rec.action == 1:
            accepted_in_round = True
        if rec.action == 0 and len(rec.offers_before) > 1:
            if canon.state(before.state) != canon.state(after.state) or before.state != after.state:
                yield F("decline-changed-the-shop", "state differs after declining one of several offers", si)
                return
            if tuple(after.possible_transitions) != tuple(rec.offers_before[1:]):
                yield F("decline-did-not-remove-exactly-the-head", f"{rec.offers_before} -> {after.possible_transitions}", si)
                return
            if rec.micro:
                yield F("decline-applied-transitions", f"{[m[0] for m in rec.micro]}", si)
                return
        if rec.action == 0 and len(rec.offers_before) == 1:
            declined = rec.offers_before[0]
            if not after.success:
                continue
            if rec.micro and rec.micro[0][0] == declined and tt(rec.micro[0][1].time) == tt(before.state.time):
                yield F("declined-transition-applied", f"{declined}", si)
                return
            if not rec.terminated and not (tt(after.state.time) > tt(before.state.time)):
                yield F("last-decline-did-not-advance-time", f"{before.state.time} -> {after.state.time}", si)
                return
            if not rec.terminated:
                fresh = get_possible_transitions(after.state, env.instance, ctx.run.cfg)
                if tuple(fresh) != tuple(after.possible_transitions):
                    yield F("offers-not-fresh-after-last-decline", f"{after.possible_transitions} vs {fresh}", si)
                    return
                if not accepted_in_round:
                    declined_rounds += 1
                accepted_in_round = False
        if rec.terminated:
            continue
        exp_trunc = active and declined_rounds > joker0
        if bool(rec.truncated) != exp_trunc and after.success:
            yield F("truncation-count-wrong", f"truncated={rec.truncated}, all-declined rounds={declined_rounds}, allowance={joker0}, active={active}", si)
            return


# ---------------------------------------------------------------------------------------- C19
def c19(ctx):
    env = ctx.run.env
    if env is None:
        return
    c = ctx.cfg
    sparse, dense, trunc = c.get("sparse", 1), c.get("dense", 0.001), c.get("trunc", -1)
    nops = ctx.nops
    # the normalisation constant is computable from the instance alone: the sum of all durations
    from jobshoplab.types.instance_config_types import DeterministicTimeConfig as _Det
    ops = [o for j in ctx.instance.instance.specification for o in j.operations]
    if ops and all(isinstance(o.duration, _Det) for o in ops):
        total = sum(o.duration.time for o in ops)
        if env.max_allowed_time != total:
            yield F("max-allowed-time-not-sum-of-durations", f"T_max {env.max_allowed_time} but the durations sum to {total}", None)
            return
    for si, rec in enumerate(ctx.records):
        if rec.kind == "act" and rec.action in (0, 1) and isinstance(rec.error, ZeroDivisionError):
            yield F("reward-zero-division", f"reward computation raised ZeroDivisionError (T_max={env.max_allowed_time}, LB={env.lower_bound})", si)
            return
        if rec.kind != "act" or rec.action not in (0, 1) or rec.error is not None:
            continue
        r = rec.reward
        if not np.isfinite(r):
            yield F("reward-not-finite", f"{r}", si)
            return
        shaping_lo = -dense / nops
        if not rec.terminated and not rec.truncated:
            if not (shaping_lo - 1e-12 <= r <= 1e-12):
                yield F("nonfinal-reward-out-of-bounds", f"{r} not in [{shaping_lo},0]", si)
                return
        elif rec.truncated and not rec.terminated:
            if not (trunc + shaping_lo - 1e-9 <= r <= trunc + 1e-9):
                yield F("truncation-reward-wrong", f"{r} vs truncation reward {trunc}", si)
                return
        else:
            mk = rec.info["makespan"]
            # the makespan the reward is about is the one of the schedule: the latest completion recorded
            ends = [tt(o.end_time) for j in rec.env_state.state.jobs for o in j.operations
                    if o.operation_state_state == OS.DONE]
            if ends and mk is not None and max(ends) != mk:
                yield F("terminal-reward-not-about-the-schedule", f"reported makespan {mk}, latest completion {max(ends)}", si)
                return
            tmax, lb = env.max_allowed_time, env.lower_bound
            main = (tmax - mk) / (tmax - lb)
            if not (sparse * main + shaping_lo - 1e-9 <= r <= sparse * main + 1e-9):
                yield F("terminal-reward-wrong", f"{r} vs main term {sparse * main}", si)
                return
    for x in getattr(ctx.run, "c19_findings", []):
        yield x


# ---------------------------------------------------------------------------------------- C20
def c20(ctx):
    for x in getattr(ctx.run, "c20_findings", []):
        yield x
    env = ctx.run.env
    if env is None:
        return
    # history snapshots: the states recorded earlier must still render identically
    snaps = getattr(ctx.run, "snapshots", [])
    import canon
    for (si, obj, text) in snaps:
        if canon.state(obj) + "|" + repr(obj) != text:
            yield F("earlier-state-mutated", f"state recorded at step {si} changed afterwards", si)
            return
