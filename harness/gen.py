"""Seeded scenario generators: DSL documents (as dicts dumped to YAML), run configurations and
action policies.  Every random choice derives from one `random.Random(seed)`.

Families mirror the guards of the theorems (DESIGN §2.3): most scenarios lie inside the class
where a theorem claims its property (`inclass=True`), a labelled minority outside.
"""
import random

import yaml

FAMILIES = ["classic", "transport", "buffers", "setup", "outage", "stoch", "bigids", "shifted", "mixed", "ordered"]


def job_matrix(rnd, nj, nm, dmin=1, dmax=9, classic=True):
    rows = []
    for _ in range(nj):
        if classic:
            ms = list(range(nm))
            rnd.shuffle(ms)
        else:
            ms = [rnd.randrange(nm) for _ in range(nm)]
        rows.append([(m, rnd.randint(dmin, dmax)) for m in ms])
    return rows


def spec_text(rows, nm, rnd=None, layout=0):
    # layout 3: groups separated by tabs, as pasted from a spreadsheet (the validator's `\s*`), a trailing
    # tab on odd lines
    sep = " " if layout == 0 else ("  " if layout == 1 else ("\t" if layout == 3 else ""))
    hdr = "|".join(f"(m{i},t)" for i in range(nm))
    lines = [hdr]
    for j, r in enumerate(rows):
        lines.append(f"j{j}|" + sep.join(f"({m},{d})" if layout != 1 else f"({m}, {d})" for m, d in r)
                     + ("\t" if layout == 3 and j % 2 == 1 else ""))
    return "\n".join(lines) + "\n"


def matrix_text(names, M, rnd=None):
    """header = column names; one line per row, labelled with its name – in any order"""
    lines = ["|".join(names)]
    rows = list(zip(names, M))
    if rnd is not None and rnd.random() < 0.35:
        rnd.shuffle(rows)
    for n, row in rows:
        lines.append(f"{n}|" + " ".join(str(x) for x in row))
    return "\n".join(lines) + "\n"


def travel_matrix(rnd, nm, zeros=0.15, tmax=6, sym=False, in_name="in-buf", out_name="out-buf", extra=()):
    names = [f"m-{i}" for i in range(nm)] + [in_name, out_name] + list(extra)
    n = len(names)
    M = [[0] * n for _ in range(n)]
    for i in range(n):
        for k in range(n):
            if i == k:
                continue
            if sym and k < i:
                M[i][k] = M[k][i]
            else:
                M[i][k] = 0 if rnd.random() < zeros else rnd.randint(1, tmax)
    if rnd.random() < 0.3:
        # a non-zero diagonal is accepted by the DSL: moving a job from a machine's post-buffer to
        # the same machine's pre-buffer (re-entrant routes) then takes time
        for i in range(nm):
            M[i][i] = rnd.randint(0, tmax)
    return names, M


def time_behavior(rnd, kinds=("uni", "gaussian", "poisson", "gamma")):
    k = rnd.choice(kinds)
    # wide distributions (offset / std larger than typical bases) now and then: raw draws go below
    # zero, so the clamp at 0 in `update()` matters
    if k == "uni":
        return {"type": rnd.choice(["uni", "uniform"]), "offset": rnd.choice([1, 2, 3, 3, 7, 9])}
    if k == "gaussian":
        return {"type": rnd.choice(["gaussian", "normal"]), "std": rnd.choice([0.5, 1, 2, 2, 6, 8])}
    if k == "poisson":
        return {"type": "poisson"}
    return {"type": "gamma", "scale": rnd.choice([1, 2, 5])}


def time_spec(rnd, base_lo, base_hi, stoch_p):
    base = rnd.randint(base_lo, base_hi)
    if rnd.random() < stoch_p:
        tb = time_behavior(rnd)
        tb["base"] = base
        return tb
    return base


BUF_TYPES = ["fifo", "lifo", "flex", "dummy"]


def gen_instance(rnd, family):
    """returns (doc dict, meta dict)"""
    meta = {"family": family}
    nj = rnd.randint(2, 5)
    nm = rnd.randint(2, 4)
    if family == "bigids":
        if rnd.random() < 0.5:
            nj, nm = rnd.randint(11, 13), rnd.randint(2, 3)
        else:
            nj, nm = rnd.randint(2, 3), rnd.randint(11, 12)
    dmin = 0 if rnd.random() < 0.1 else 1
    rows = job_matrix(rnd, nj, nm, dmin=dmin, dmax=rnd.choice([3, 9, 20]), classic=rnd.random() < 0.85)
    inst = {"description": f"{nj}x{nm}", "specification": spec_text(rows, nm, layout=rnd.choice([0, 0, 1, 2, 3]))}
    ic = {"description": f"gen {family}", "instance": inst}
    doc = {"title": "InstanceConfig", "instance_config": ic}
    meta.update(nj=nj, nm=nm, zero_dur=dmin == 0)
    meta["classic_routing"] = all(sorted(m for m, _ in r) == list(range(nm)) for r in rows)
    feats = set()

    def want(f, p_in, p_out=0.12):
        return rnd.random() < (p_in if family in (f, "mixed") else p_out)

    transport = family in ("transport", "buffers", "outage", "mixed", "stoch", "ordered") and rnd.random() < 0.9 or want("transport", 1.0, 0.25)
    if family == "ordered":
        transport = True
    n_agv = None
    if transport:
        feats.add("transport")
        n_agv = rnd.choice([1, 1, 2, nj, nj + 1]) if family != "ordered" else rnd.choice([2, 2, 3])
        names, M = travel_matrix(rnd, nm, zeros=rnd.choice([0.0, 0.15, 0.4]), sym=rnd.random() < 0.3)
        lg = {"type": "agv", "amount": n_agv, "specification": matrix_text(names, M, rnd)}
        if want("stoch", 0.7, 0.05):
            lg["time_behavior"] = time_behavior(rnd)
            feats.add("stoch_travel")
        ic["logistics"] = lg
    meta["n_agv"] = n_agv if n_agv is not None else nj

    if family == "ordered":
        feats.add("buffers")
        ic["machines"] = {"prebuffer": [{"type": rnd.choice(BUF_TYPES), "capacity": nj + 1}],
                          "postbuffer": [{"type": rnd.choice(["fifo", "lifo", "fifo", "lifo", "dummy"]), "capacity": nj + 1}]}
        meta["bigcap"] = True
    elif want("buffers", 0.9, 0.1):
        feats.add("buffers")
        caps = [1, 2, nj, nj + 2]
        big = rnd.random() < 0.7  # inside the C11 class: every buffer holds all jobs
        def bspec():
            d = {"type": rnd.choice(BUF_TYPES)}
            if rnd.random() < 0.7:
                d["capacity"] = (nj if big else rnd.choice(caps))
            return d
        if rnd.random() < 0.6:
            mc = {}
            if rnd.random() < 0.8:
                mc["prebuffer"] = [bspec()]
            if rnd.random() < 0.8:
                mc["postbuffer"] = [bspec()]
            ic["machines"] = mc
        else:
            lst = []
            for i in range(nm):
                if rnd.random() < 0.7:
                    e = {}
                    if rnd.random() < 0.8:
                        e["prebuffer"] = [bspec()]
                    if rnd.random() < 0.8:
                        e["postbuffer"] = [bspec()]
                    lst.append({f"m-{i}": e})
            if lst:
                ic["machines"] = lst
        meta["bigcap"] = big
        if rnd.random() < 0.35:
            # custom standalone buffers (first = input, second = output by position)
            feats.add("custom_buffers")
            bn = ["b-0", "b-1", "b-2"]
            r_names = rnd.random()
            if r_names < 0.15:
                # numbered from one, or from some other start: consecutive numbers the compiler's counter runs into
                k0 = rnd.choice([1, 1, 2, 3 * nm - 1, 3 * nm + 1])
                bn = [f"b-{k0 + k}" for k in range(3)]
            elif r_names < 0.55:
                # custom names anywhere in the id range the compiler also allocates from
                bn = [f"b-{k}" for k in rnd.sample(range(0, 3 * nm + 6), 3)]
            ib = {"name": bn[0], "type": rnd.choice(BUF_TYPES), "role": "input", "description": "in"}
            ob = {"name": bn[1], "type": "flex", "role": "output", "description": "out"}
            if rnd.random() < 0.3:
                ib["capacity"] = nj + rnd.choice([0, 1])
            bl = [ib, ob]
            if rnd.random() < 0.3:
                # a further buffer: spare storage, or a second output buffer (the first one in the
                # document is the one finished jobs are delivered to)
                bl.append({"name": bn[2], "type": rnd.choice(BUF_TYPES), "role": rnd.choice(["compensation", "compensation", "output"])})
            ic["buffer"] = bl
            meta["ordered_standalone"] = ib["type"] != "flex"

    if want("setup", 0.95, 0.1) or (family == "bigids" and rnd.random() < 0.5):
        feats.add("setup")
        ntools = rnd.randint(2, 3)
        tools = [f"tl-{i}" for i in range(ntools)]
        inst["tool_usage"] = [{"job": f"j{j}", "operation_tools": [rnd.choice(tools) for _ in range(nm)]}
                              for j in range(nj)]
        st = []
        for i in range(nm):
            diag = rnd.random() < 0.4
            M = [[(rnd.randint(0, 4) if diag else 0) if a == b else rnd.randint(0, 5) for b in range(ntools)] for a in range(ntools)]
            e = {"machine": f"m-{i}", "specification": matrix_text(tools, M, rnd)}
            if want("stoch", 0.6, 0.1):
                e["time_behavior"] = time_behavior(rnd, kinds=("uni", "gaussian", "poisson"))
                feats.add("stoch_setup")
            st.append(e)
        ic["setup_times"] = st

    if want("outage", 0.95, 0.1):
        feats.add("outage")
        outs = []
        for _ in range(rnd.randint(1, 3)):
            compn = rnd.choice(["m", "m", "t", "machine", f"m-{rnd.randrange(nm)}", "transport"])
            sp = 0.5 if family in ("stoch", "outage", "mixed") else 0.0
            outs.append({"component": compn, "type": rnd.choice(["maintenance", "fail", "recharge", "repair"]),
                         "duration": time_spec(rnd, 0, 6, sp), "frequency": time_spec(rnd, 0, 25, sp)})
        ic["outages"] = outs

    if "custom_buffers" in feats and "transport" in feats and rnd.random() < 0.3:
        # named custom buffers referred to by their own names in the travel matrix
        # (outside the state model's numeric ids: exercised by the compile-level checks only)
        feats.add("alpha_buffer_names")
        ren = {ic["buffer"][0]["name"]: rnd.choice(["b-IN", "b-In", "b-SRC"]), ic["buffer"][1]["name"]: rnd.choice(["b-OUT", "b-Out", "b-DST"])}
        if len(ic["buffer"]) > 2:
            ren[ic["buffer"][2]["name"]] = "b-WIP"
        for e in ic["buffer"]:
            e["name"] = ren[e["name"]]
        lg = ic["logistics"]
        lg["specification"] = lg["specification"].replace("in-buf", ic["buffer"][0]["name"]).replace("out-buf", ic["buffer"][1]["name"])

    init = {}
    if family == "shifted" or rnd.random() < 0.1:
        init["start_time"] = rnd.choice([5, 17, 100, -7, 1000])
        feats.add("shifted")
    if transport and rnd.random() < 0.5:
        for k in range(meta["n_agv"]):
            if rnd.random() < 0.6:
                init[f"t-{k}"] = {"location": rnd.choice([f"m-{rnd.randrange(nm)}"])}
        feats.add("agv_start")
    if "custom_buffers" in feats and "alpha_buffer_names" not in feats and rnd.random() < 0.5:
        # initial placement written out: some jobs with an explicit location (input or third buffer),
        # buffer contents listed in an order of their own; a job located in a buffer need not be listed
        feats.add("init_placement")
        names = [e["name"] for e in ic["buffer"]]
        targets = [names[0]]   # (a third buffer has no row in the travel matrix: nothing could leave it)
        placed = {}
        for j in range(nj):
            if rnd.random() < 0.5:
                placed[j] = rnd.choice(targets)
                init[f"j-{j}"] = {"location": placed[j]}
        for b in targets:
            here = [f"j-{j}" for j, loc in placed.items() if loc == b]
            if here and rnd.random() < 0.7:
                listed = [x for x in here if rnd.random() < 0.8]
                rnd.shuffle(listed)
                if listed:
                    init[b] = {"store": listed}
    if init:
        doc["init_state"] = init
    meta["features"] = sorted(feats)
    # classic job shop in the sense of C06: every job visits every machine once, no transport
    # times, no setup, no outages, unordered unbounded buffers
    meta["classic_instance"] = bool(meta["classic_routing"] and not feats)
    meta["rows"] = rows
    return doc, meta


def gen_cfg(rnd, meta):
    c = {
        "allow_early": rnd.random() < (0.6 if meta["family"] != "ordered" else 0.85),
        "joker": rnd.choice([0, 1, 3, 5]),
        "trunc_active": rnd.random() < 0.5,
        "obs": "BinaryActionObservationFactory" if rnd.random() < 0.8 else "BinaryOperationArrayObservation",
        "sparse": rnd.choice([1, 1, 2, 0.5]),
        "dense": rnd.choice([0.001, 0.1, 1]),
        "trunc": rnd.choice([-1, -2, 0]),
    }
    return c


POLICIES = ["accept", "bernoulli", "decline_heavy", "prefer_agv", "decline_machine", "alternate", "multi", "pileup", "decline_agv"]


def gen_policy(rnd, family=None):
    k = rnd.choice(POLICIES + ["bernoulli", "accept"])
    if family == "ordered" and rnd.random() < 0.6:
        k = "pileup"
    return {"kind": k, "p": rnd.choice([0.5, 0.7, 0.9]), "seed": rnd.randrange(1 << 30), "idle": rnd.choice([0, 0, 2, 5, 10])}


def spread_placement(sc, rnd):
    """compile-level checks only: some jobs start in a further stand-alone buffer, so that the jobs
    of one buffer are not consecutive in job order (nothing can leave such a buffer: the episodes of
    these scenarios are cut after a few steps anyway)"""
    doc = sc["doc"]
    ic = doc.get("instance_config", {})
    bl = ic.get("buffer")
    feats = sc["meta"].get("features", [])
    if not isinstance(bl, list) or len(bl) < 2 or "alpha_buffer_names" in feats:
        return False
    nj = sc["meta"]["nj"] if "nj" in sc["meta"] else len(sc["meta"].get("rows", []))
    if nj < 3:
        return False
    if len(bl) == 2:
        used = {e["name"] for e in bl}
        bl.append({"name": next(f"b-{k}" for k in range(90, 130) if f"b-{k}" not in used),
                   "type": rnd.choice(BUF_TYPES), "role": "compensation", "capacity": nj + 1})
    third = bl[2]
    if third.get("role") == "output":
        return False
    init = doc.setdefault("init_state", {})
    for k in [k for k in init if k.startswith("j-")]:
        del init[k]
    for e in bl:
        if isinstance(init.get(e["name"]), dict):
            init[e["name"]].pop("store", None)
            if not init[e["name"]]:
                del init[e["name"]]
    there = []
    for j in range(nj):
        r = rnd.random()
        if r < 0.35:
            init[f"j-{j}"] = {"location": third["name"]}
            there.append(f"j-{j}")
        elif r < 0.55:
            init[f"j-{j}"] = {"location": bl[0]["name"]}
    if "capacity" in third and isinstance(third["capacity"], int):
        third["capacity"] = max(third["capacity"], len(there) + 1)
    if there and rnd.random() < 0.6:
        # a listing names some of the jobs located here, in an order of its own; the others follow in job order
        listed = [x for x in there if rnd.random() < 0.5]
        rnd.shuffle(listed)
        init[third["name"]] = {"store": listed}
    here = [f"j-{j}" for j in range(nj) if f"j-{j}" not in there]
    if len(here) >= 2 and rnd.random() < 0.5:
        listed = [x for x in here if rnd.random() < 0.4]
        rnd.shuffle(listed)
        init[bl[0]["name"]] = {"store": listed}
    if not init:
        doc.pop("init_state", None)
    sc["meta"]["features"] = sorted(set(feats) | {"spread_placement"})
    sc["dsl"] = yaml.safe_dump(doc, sort_keys=False)
    return True


def one_based_buffers(sc, rnd):
    """the stand-alone buffers named by the user with consecutive numbers that do not start at 0
    (b-1 input, b-2 output): the compiler's own counter must step around them"""
    doc = sc["doc"]
    ic = doc.get("instance_config", {})
    if "buffer" in ic or "alpha_buffer_names" in sc["meta"].get("features", []):
        return False
    k0 = rnd.choice([1, 1, 1, 2])
    ic["buffer"] = [{"name": f"b-{k0}", "type": "flex", "role": "input", "description": "in"},
                    {"name": f"b-{k0 + 1}", "type": "flex", "role": "output", "description": "out"}]
    sc["meta"]["ordered_standalone"] = False
    sc["meta"]["features"] = sorted(set(sc["meta"].get("features", [])) | {"custom_buffers", "one_based_buffers"})
    sc["meta"]["classic_instance"] = False
    sc["dsl"] = yaml.safe_dump(doc, sort_keys=False)
    return True


def staging_placement(sc, rnd):
    """a further stand-alone buffer with its own row and column in the travel matrix, in which some
    jobs start (so that an initial location differs from the default input buffer and jobs of one
    buffer need not be consecutive in job order); only for AGV instances with numeric custom buffers"""
    doc = sc["doc"]
    ic = doc.get("instance_config", {})
    bl = ic.get("buffer")
    lg = ic.get("logistics")
    feats = sc["meta"].get("features", [])
    nj = sc["meta"].get("nj", 0)
    if not isinstance(lg, dict) or "alpha_buffer_names" in feats or nj < 2:
        return False
    if bl is None:
        bl = ic["buffer"] = [{"name": "b-0", "type": rnd.choice(BUF_TYPES), "role": "input", "description": "in"},
                             {"name": "b-1", "type": "flex", "role": "output", "description": "out"}]
        sc["meta"]["ordered_standalone"] = bl[0]["type"] != "flex"
        feats = list(feats) + ["custom_buffers"]
    if not isinstance(bl, list) or len(bl) < 2:
        return False
    if len(bl) == 2:
        used = {e["name"] for e in bl}
        bl.append({"name": next(f"b-{k}" for k in range(90, 130) if f"b-{k}" not in used),
                   "type": "flex", "role": rnd.choice(["compensation", "input", "output"]), "capacity": nj + 1})
    third = bl[2]
    second_output = third.get("role") == "output"   # a second output buffer at another distance: nothing starts there
    third["type"] = "flex"
    lines = [l.strip() for l in lg["specification"].strip().split("\n")]
    names = lines[0].split("|")
    if third["name"] in names:
        return False
    rows = {l.split("|")[0]: [int(x) for x in l.split("|")[1].split()] for l in lines[1:]}
    M = [rows[n] + [rnd.randint(0, 6)] for n in names]
    names2 = names + [third["name"]]
    M.append([rnd.randint(0, 6) for _ in names] + [0])
    lg["specification"] = matrix_text(names2, M, rnd)
    init = doc.setdefault("init_state", {})
    for k in [k for k in init if k.startswith("j-")]:
        del init[k]
    for e in bl:
        if isinstance(init.get(e["name"]), dict):
            init[e["name"]].pop("store", None)
            if not init[e["name"]]:
                del init[e["name"]]
    there = [j for j in range(nj) if rnd.random() < 0.45] or [nj - 1]
    if len(there) == nj:
        there = there[1:]
    if second_output:
        there = []
    for j in there:
        init[f"j-{j}"] = {"location": third["name"]}
    if isinstance(third.get("capacity"), int):
        third["capacity"] = max(third["capacity"], len(there) + 1)
    sc["meta"]["features"] = sorted(set(feats) | {"staging"})
    sc["dsl"] = yaml.safe_dump(doc, sort_keys=False)
    return True


def gen_scenario(seed, family=None):
    rnd = random.Random(seed)
    family = family or rnd.choice(FAMILIES)
    doc, meta = gen_instance(rnd, family)
    cfg = gen_cfg(rnd, meta)
    sc = {
        "id": f"{family}-{seed}",
        "family": family,
        "seed": rnd.randrange(1000),
        "dsl": yaml.safe_dump(doc, sort_keys=False),
        "doc": doc,
        "meta": meta,
        "cfg": cfg,
        "policy": gen_policy(rnd, family),
        "max_steps": 600 if family != "bigids" else 250,
        "probes": {"invalid": rnd.random() < 0.3, "c20": rnd.random() < 0.3, "reset": rnd.random() < 0.3,
                   "envfail": rnd.random() < 0.2,
                   "shift": (rnd.choice([3, 11, 250, -4]) if (family == "shifted" or rnd.random() < 0.15) else 0)},
    }
    sc["probes"]["c13"] = rnd.randrange(1, 10**6) if rnd.random() < 0.04 else 0
    if sc["probes"]["c13"]:
        # twins replay only the agent's actions; no other probe may touch the random streams
        sc["probes"].update(invalid=False, c20=False, reset=False, envfail=False, shift=0)
        if rnd.random() < 0.4:
            sc["seed"] = 0
    if sc["probes"]["shift"]:
        # the shifted twin replays only the agent's actions; probes that step the core API would
        # consume samples of stochastic durations in this run but not in the twin
        sc["probes"]["c20"] = False
    return sc


MALFORMED = ["job-typo", "job-ragged", "job-machine-out-of-range", "job-negative-duration", "job-float-duration",
             "job-duplicate-label", "job-swapped-labels", "travel-missing-row", "travel-duplicate-row", "travel-short-row",
             "travel-long-row", "travel-negative", "travel-non-numeric", "travel-unknown-location", "travel-header-missing-machine",
             "tool-unknown", "tool-missing-job", "setup-non-square", "logistics-no-amount", "logistics-unknown-type",
             "logistics-negative-amount", "buffer-unknown-type", "buffer-negative-capacity", "buffer-unknown-role",
             "buffer-no-output-role", "outage-unknown-type", "outage-missing-duration", "init-agv-unknown-location",
             "init-job-unknown-location", "no-specification", "no-instance-config",
             "init-store-foreign-job", "init-store-unknown-job"]


def hesitant_stream(seed):
    """directed scenarios for the truncation accounting at the very end of an episode (C04, C18): a tiny
    classic instance, early transport off, truncation on, an agent that idles `idle` steps, then starts
    every operation but declines every AGV offer - for every allowance / idle combination, so that some
    runs spend their last joker exactly on the no-op that finishes the episode"""
    out = []
    rnd = random.Random(seed * 131 + 7)
    for inst_k in range(2):
        nj, nm = (2, 2) if inst_k == 0 else (3, 2)
        jobs = []
        for j in range(nj):
            route = list(range(nm))
            rnd.shuffle(route)
            jobs.append([(m, rnd.choice((1, 2, 3))) for m in route])
        base = c06_tree_scenario(jobs, f"hes{seed}-{inst_k}")
        for joker in (0, 1, 3, 5):
            for idle in range(0, 13):
                sc = dict(base)
                sc.pop("c06tree", None)
                sc.pop("tree_cap", None)
                sc["id"] = f"hesitant-{seed}-{inst_k}-{joker}-{idle}"
                sc["family"] = "classic"
                sc["cfg"] = dict(base["cfg"], allow_early=False, joker=joker, trunc_active=True, trunc=-1)
                sc["policy"] = {"kind": "decline_agv", "p": 1, "seed": 1, "idle": idle}
                sc["meta"] = {"family": "classic", "classic_instance": True, "features": [], "nj": nj, "nm": nm}
                sc["max_steps"] = 300
                sc["probes"] = {}
                out.append(sc)
    return out


def c06_tree_scenario(jobs, tag, cfgseed=0):
    """a tiny classic instance (every job visits every machine once) for the exhaustive decision tree"""
    nm = len(jobs[0])
    head = "|".join(f"(m{i},t)" for i in range(nm))
    rows = "".join(f"j{j}|" + " ".join(f"({m},{d})" for m, d in ops) + "\n" for j, ops in enumerate(jobs))
    doc = {"title": "InstanceConfig", "instance_config": {"description": "c06 tree", "instance": {
        "description": f"{len(jobs)}x{nm}", "specification": head + "\n" + rows}}}
    rnd = random.Random(cfgseed)
    cfg = {"allow_early": True, "joker": 5, "trunc_active": False, "obs": "BinaryActionObservationFactory", "sparse": 1,
           "dense": 0.001, "trunc": 0}
    if cfgseed % 3 == 1:
        cfg["allow_early"] = False
    return {"id": f"c06tree-{tag}", "family": "c06tree", "c06tree": [[list(o) for o in j] for j in jobs], "seed": 0,
            "dsl": yaml.safe_dump(doc, sort_keys=False), "cfg": cfg, "policy": {"kind": "accept", "p": 1, "seed": rnd.randrange(1 << 20)},
            "probes": {}, "meta": {"family": "c06tree"}, "tree_cap": 12000}


def c06_tree_stream(seed, tier):
    """quick: every 2x2 instance with durations in {1,2} (64) plus random 2x3/3x2/3x3; thorough: every 2x2 with
    durations in {1,2,3} (324), every 2x3 and 3x2 with durations in {1,2}, and many random 3x3"""
    import itertools
    out = []
    durs = (1, 2) if tier == "quick" else (1, 2, 3)
    for r0, r1 in itertools.product(((0, 1), (1, 0)), repeat=2):
        for d in itertools.product(durs, repeat=4):
            jobs = [[(r0[0], d[0]), (r0[1], d[1])], [(r1[0], d[2]), (r1[1], d[3])]]
            out.append(c06_tree_scenario(jobs, f"2x2-{r0}{r1}{d}".replace(" ", ""), len(out)))
    rnd = random.Random(seed * 31 + 5)
    shapes = [(2, 3), (3, 2)] if tier == "quick" else [(2, 3), (3, 2), (3, 3), (3, 3), (4, 2), (2, 4)]
    n = 16 if tier == "quick" else 120
    for i in range(n):
        nj, nm = shapes[i % len(shapes)]
        jobs = []
        for j in range(nj):
            route = list(range(nm))
            rnd.shuffle(route)
            jobs.append([(m, rnd.choice((1, 2, 3) if rnd.random() < 0.8 else (1, 1, 2, 5))) for m in route])
        out.append(c06_tree_scenario(jobs, f"r{seed}-{i}", i))
    if tier == "thorough":
        for x in out:
            x["tree_cap"] = 20000
        for nj, nm in ((2, 3), (3, 2)):
            routes = list(itertools.permutations(range(nm)))
            for rs in itertools.product(routes, repeat=nj):
                if rnd.random() < 0.5:
                    continue
                for k in range(4):
                    jobs = [[(m, rnd.choice((1, 2))) for m in r] for r in rs]
                    out.append(c06_tree_scenario(jobs, f"e{nj}x{nm}-{len(out)}", k))
    return out


def gen_malformed(seed, kind=None):
    """a valid generated document with exactly one defect of a named class (C16: must be rejected
    with one of the library's own error types)"""
    import copy
    rnd = random.Random(seed)
    kind = kind or rnd.choice(MALFORMED)
    need = {"travel": "transport", "logistics": "transport", "tool": "setup", "setup": "setup", "buffer": "buffers",
            "outage": "outage", "init-agv": "transport", "init-store": "buffers"}
    fam = next((v for k, v in need.items() if kind.startswith(k)), rnd.choice(["classic", "transport", "mixed"]))
    for attempt in range(200):
        doc, meta = gen_instance(random.Random(seed * 977 + attempt), fam)
        ic = doc["instance_config"]
        if kind.startswith(("travel", "logistics", "init-agv")) and "logistics" not in ic:
            continue
        if kind.startswith(("tool", "setup")) and "setup_times" not in ic:
            continue
        if kind.startswith(("buffer", "init-store")) and not isinstance(ic.get("buffer"), list):
            continue
        if kind.startswith("init-store") and "alpha_buffer_names" in meta.get("features", []):
            continue
        if kind.startswith("outage") and "outages" not in ic:
            continue
        break
    else:
        return None
    original = yaml.safe_dump(doc, sort_keys=False)
    doc = copy.deepcopy(doc)
    ic = doc["instance_config"]
    inst = ic["instance"]
    lines = inst["specification"].rstrip("\n").split("\n")
    nm = meta["nm"]

    def setspec():
        inst["specification"] = "\n".join(lines) + "\n"

    def tlines():
        return ic["logistics"]["specification"].rstrip("\n").split("\n")

    def settl(tl):
        ic["logistics"]["specification"] = "\n".join(tl) + "\n"
    if kind == "job-typo":
        k = rnd.randrange(1, len(lines)); lines[k] = lines[k].replace(",", ";", 1); setspec()
    elif kind == "job-ragged":
        k = rnd.randrange(1, len(lines)); lines[k] = lines[k][: lines[k].rindex("(")].rstrip(); setspec()
    elif kind == "job-machine-out-of-range":
        k = rnd.randrange(1, len(lines)); lines[k] = lines[k].replace("(", f"({nm + 3}", 1).replace(f"({nm + 3}", f"({nm + 3}", 1)
        head, rest = lines[k].split("|", 1)
        first = rest[rest.index("(") + 1: rest.index(",")]
        lines[k] = head + "|" + rest.replace(f"({first},", f"({nm + 3},", 1); setspec()
    elif kind == "job-negative-duration":
        k = rnd.randrange(1, len(lines)); i = lines[k].index(","); lines[k] = lines[k][: i + 1] + "-" + lines[k][i + 1:].lstrip(); setspec()
    elif kind == "job-float-duration":
        k = rnd.randrange(1, len(lines)); i = lines[k].index(")"); lines[k] = lines[k][:i] + ".5" + lines[k][i:]; setspec()
    elif kind == "job-duplicate-label":
        lines[2] = "j0|" + lines[2].split("|", 1)[1]; setspec()
    elif kind == "job-swapped-labels":
        a, b = lines[1].split("|", 1), lines[2].split("|", 1)
        lines[1], lines[2] = b[0] + "|" + a[1], a[0] + "|" + b[1]; setspec()
    elif kind == "travel-missing-row":
        tl = tlines(); del tl[rnd.randrange(1, len(tl))]; settl(tl)
    elif kind == "travel-duplicate-row":
        tl = tlines(); k = rnd.randrange(1, len(tl) - 1); tl[k + 1] = tl[k].split("|")[0] + "|" + tl[k + 1].split("|")[1]; settl(tl)
    elif kind == "travel-short-row":
        tl = tlines(); k = rnd.randrange(1, len(tl)); tl[k] = tl[k].rsplit(" ", 1)[0]; settl(tl)
    elif kind == "travel-long-row":
        tl = tlines(); k = rnd.randrange(1, len(tl)); tl[k] = tl[k] + " 7"; settl(tl)
    elif kind == "travel-negative":
        tl = tlines(); k = rnd.randrange(1, len(tl)); n, v = tl[k].split("|"); vs = v.split(); vs[rnd.randrange(len(vs))] = "-3"; tl[k] = n + "|" + " ".join(vs); settl(tl)
    elif kind == "travel-non-numeric":
        tl = tlines(); k = rnd.randrange(1, len(tl)); n, v = tl[k].split("|"); vs = v.split(); vs[rnd.randrange(len(vs))] = "x"; tl[k] = n + "|" + " ".join(vs); settl(tl)
    elif kind == "travel-unknown-location":
        tl = tlines(); tl = [l.replace("out-buf", "warehouse") for l in tl]; settl(tl)
    elif kind == "travel-header-missing-machine":
        tl = tlines(); tl[0] = tl[0].replace("m-0|", "", 1); settl(tl)
    elif kind == "tool-unknown":
        inst["tool_usage"][0]["operation_tools"][0] = "tl-99"
    elif kind == "tool-missing-job":
        del inst["tool_usage"][-1]
    elif kind == "setup-non-square":
        e = ic["setup_times"][0]; sl = e["specification"].rstrip("\n").split("\n"); del sl[-1]; e["specification"] = "\n".join(sl) + "\n"
    elif kind == "logistics-no-amount":
        del ic["logistics"]["amount"]
    elif kind == "logistics-unknown-type":
        ic["logistics"]["type"] = "drone"
    elif kind == "logistics-negative-amount":
        ic["logistics"]["amount"] = -1
    elif kind == "buffer-unknown-type":
        ic["buffer"][0]["type"] = "stack"
    elif kind == "buffer-negative-capacity":
        ic["buffer"][0]["capacity"] = -2
    elif kind == "buffer-unknown-role":
        ic["buffer"][0]["role"] = "scrap"
    elif kind == "buffer-no-output-role":
        ic["buffer"][1]["role"] = "compensation"
    elif kind == "outage-unknown-type":
        ic["outages"][0]["type"] = "holiday"
    elif kind == "outage-missing-duration":
        del ic["outages"][0]["duration"]
    elif kind == "init-agv-unknown-location":
        doc.setdefault("init_state", {})["t-0"] = {"location": "m-99"}
    elif kind == "init-job-unknown-location":
        doc.setdefault("init_state", {})["j-0"] = {"location": "b-999"}
    elif kind in ("init-store-foreign-job", "init-store-unknown-job"):
        # a buffer's listed contents name a job that is located elsewhere (or does not exist): the job
        # would start in two places (or a phantom would be stored)
        bl = ic["buffer"]
        init = doc.setdefault("init_state", {})
        for k in [k for k in init if k.startswith("j-") or k in {e["name"] for e in bl}]:
            del init[k]
        if kind == "init-store-unknown-job":
            init[bl[0]["name"]] = {"store": ["j-0", "j-97"]}
        else:
            where = bl[2]["name"] if len(bl) > 2 and rnd.random() < 0.6 else bl[1]["name"]
            init[where] = {"store": [f"j-{rnd.randrange(meta['nj'])}"]}
            if rnd.random() < 0.4:
                # ... even though the job's own entry says where it is
                init[init[where]["store"][0]] = {"location": bl[0]["name"]}
    elif kind == "no-specification":
        del inst["specification"]
    elif kind == "no-instance-config":
        doc = {"title": "InstanceConfig"}
    if yaml.safe_dump(doc, sort_keys=False) == original:
        return None     # the defect did not apply to this document (e.g. no `out-buf` to rename): nothing malformed to probe
    return {"id": f"malformed-{kind}-{seed}", "family": "malformed", "malformed": kind, "seed": 0,
            "dsl": yaml.safe_dump(doc, sort_keys=False), "cfg": gen_cfg(rnd, meta), "policy": {"kind": "accept", "seed": 0},
            "probes": {}, "meta": {"family": "malformed"}}


class Policy:
    def __init__(self, spec):
        self.spec = spec
        self.rnd = random.Random(spec.get("seed", 0))
        self.n = 0

    def choose(self, env):
        k = self.spec["kind"]
        self.n += 1
        offers = env.state.possible_transitions
        if k == "script":
            s = self.spec["script"]
            return s[self.n - 1] if self.n - 1 < len(s) else 1
        if k == "accept":
            return 1
        if k in ("bernoulli", "multi"):
            return 1 if self.rnd.random() < self.spec.get("p", 0.7) else 0
        if k == "decline_heavy":
            return 1 if self.rnd.random() < 0.25 else 0
        if k == "alternate":
            return self.n % 2
        if not offers:
            return 1
        o = offers[0]
        if k == "pileup":
            # let finished jobs pile up in post-buffers, then call AGVs for buried jobs first
            import jobshoplab.utils.state_machine_utils.buffer_type_utils as B
            st = env.state.state
            if o.component_id.startswith("m"):
                return 1
            job = next(j for j in st.jobs if j.id == o.job_id)
            try:
                ready = B.is_job_ready_for_pickup_from_postbuffer(job, st, env.instance)
            except Exception:
                ready = True
            piled = any(len(m.postbuffer.store) >= 2 for m in st.machines)
            if not piled:
                # early calls for jobs that are still being processed help piling up
                return 1 if (not ready and self.rnd.random() < 0.3) else (1 if self.rnd.random() < 0.1 else 0)
            return 1 if (not ready or self.rnd.random() < 0.5) else 0
        if k == "prefer_agv":
            return 1 if o.component_id.startswith("t") or self.rnd.random() < 0.3 else 0
        if k == "decline_machine":
            return 0 if o.component_id.startswith("m") and self.rnd.random() < 0.8 else 1
        if k == "decline_agv":
            # a hesitant agent: idles first, then starts every operation but never calls an AGV itself
            # (transports then only happen through the teleport pass / forced jumps)
            if self.n <= self.spec.get("idle", 0):
                return 0
            return 0 if o.component_id.startswith("t") else 1
        return 1
