#!/bin/bash
# seed_corpus.sh [names...] : for every stored seed (or the named ones), apply it in a scratch worktree, run the quick
# check of its property with a few VERIF_SEED values until it is detected, and keep the detecting scenario in
# /verif/corpus/<seed>.json (corpus scenarios run first in every check of that property, so detection no longer
# depends on the random stream).  Log: /verif/seeded/CORPUS.log
set -u
V2=/tmp/seedrun/verif; R2=/tmp/seedrun/repo
rm -rf /tmp/seedrun; mkdir -p /tmp/seedrun /verif/corpus
git -C /repo worktree prune
git -C /repo worktree add --detach $R2 HEAD >/dev/null 2>&1 || exit 3
rsync -a --exclude replays --exclude .git --exclude corpus /verif/ $V2/
mkdir -p $V2/corpus
log=/verif/seeded/CORPUS.log; : > $log
names="$@"; [ -z "$names" ] && names=$(cd /verif/seeded && ls -d C*/ | tr -d /)
for name in $names; do
  d=/verif/seeded/$name; p=${name%%-*}
  git -C $R2 apply $d/patch.diff || { echo "$name APPLY-FAILED" >> $log; continue; }
  found=""
  for sd in 0 1 2 3 4; do
    rm -rf $V2/replays
    out=$(cd $V2 && VERIF_SEED=$sd JSL_REPO=$R2 ./check $p quick 2>&1 | grep "^VIOLATION" | head -1)
    rp=$(echo "$out" | sed -n 's/.*replay=\([^ ]*\).*/\1/p')
    if [ -n "$rp" ] && [ -f "$rp" ]; then
      /venv/bin/python - "$rp" "$name" "$p" <<'PY'
import json,sys
rp,name,p=sys.argv[1:4]
d=json.load(open(rp))
sc=d.get("scenario") or (d.get("correspondence") or {}).get("scenario")
if sc:
    sc["for_props"]=[p]; sc["from_seed"]=name
    json.dump(sc,open(f"/verif/corpus/{name}.json","w"))
    print("stored")
PY
      found="seed=$sd $(echo "$out" | cut -c1-160)"
      break
    fi
  done
  echo "$name :: ${found:-NOT-DETECTED}" >> $log
  git -C $R2 checkout -- . ; git -C $R2 clean -fdq
done
git -C /repo worktree remove --force $R2
rm -rf /tmp/seedrun
echo DONE >> $log
