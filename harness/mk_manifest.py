#!/usr/bin/env python3
"""(re)write /verif/MANIFEST.json from the property texts, registry and the theorems present"""
import json, os, re, sys
HERE = os.path.dirname(os.path.abspath(__file__)); ROOT = os.path.dirname(HERE)
sys.path.insert(0, HERE)
import registry
from check import theorems_of

NOTES = json.load(open(os.path.join(ROOT, "level_notes.json"))) if os.path.exists(os.path.join(ROOT, "level_notes.json")) else {}
props = [json.loads(l) for l in open(os.path.join(ROOT, "properties.jsonl"))]
checks, na = [], []
for p in props:
    pid = p["id"]
    names = theorems_of(pid)
    note = NOTES.get(pid, {})
    if not names:
        na.append({"property_id": pid, "reason": note.get("na_reason", "no theorem proved yet for this property (machinery under construction); correspondence and monitors exist but are not claimed without a theorem")})
        continue
    checks.append({
        "property_id": pid,
        "quick_cmd": f"./check {pid} quick",
        "thorough_cmd": f"./check {pid} thorough",
        "evidence_file": f"/verif/evidence/{pid}.json",
        "replay_cmd_template": "./check --replay {path}",
        "engine": "lean4-model+correspondence",
        "level_claimed": {"category": "proof",
                          "text": note.get("text", "Lean 4 theorems about the executable model of the code, tied to /repo by regenerated tables and a differential correspondence check on every run"),
                          "design_ref": note.get("design_ref", "DESIGN.md §4 " + pid)},
        "level_note": note.get("note", "trusted: Lean kernel, axioms propext/Classical.choice/Quot.sound, gen_tables.py translator, correspondence harness; the Python code is modelled, not verified"),
        "technique": note.get("technique", "machine-checked proof in Lean 4 (invariants/induction over the model) + model-vs-implementation correspondence"),
    })
m = {
    "version": 1,
    "setup_cmd": "cd /verif && ./setup.sh",
    "hooks": {"guard": "JOBSHOPLAB_VERIF", "enable": "no source hooks: the harness wraps state.apply_transition and StochasticTimeConfig.update at run time (JOBSHOPLAB_VERIF=1 is exported by ./check but read by nothing in /repo)",
              "baseline_off_cmd": "cd /repo && /venv/bin/python -m pytest -ra -q -p no:cacheprovider --timeout=900 --continue-on-collection-errors",
              "source_commits": [], "add_only": True},
    "engines": [{"name": "lean4-model+correspondence", "path": "/verif/lean, /verif/harness", "serves_properties": [c["property_id"] for c in checks],
                 "kind_free_text": "hand-written executable Lean 4 model + regenerated finite tables + theorems; Python differential harness drives the real code and the compiled Lean driver on the same command lines"}],
    "checks": checks,
    "not_applicable": na,
    "notes": "See DESIGN.md. Every check regenerates Gen/Tables.lean from /repo, rebuilds the Lean project incrementally, audits axioms, runs the correspondence stream and the property monitors.",
}
json.dump(m, open(os.path.join(ROOT, "MANIFEST.json"), "w"), indent=1)
print(len(checks), "checks;", len(na), "not applicable")
