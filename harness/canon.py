"""Canonical rendering of jobshoplab objects – the Python half of JSL/Driver/Canon.lean.

Only reads attributes of the real objects; never recomputes anything.
"""
import re
from fractions import Fraction

from jobshoplab.types.state_types import (
    NoTime,
    OutageActive,
    OutageInactive,
    Time,
    TimeDependency,
)
from jobshoplab.types.state_types import MachineStateState, TransportStateState

_ID = re.compile(r"^[a-z]+-(\d+)$")


class Unrepresentable(Exception):
    """the object lies outside what the model's types can express"""


def idn(s):
    m = _ID.match(s)
    if not m:
        raise Unrepresentable(f"id {s!r}")
    return int(m.group(1))


def opt_time(t):
    if isinstance(t, Time):
        if not isinstance(t.time, int):
            raise Unrepresentable(f"time {t.time!r}")
        return str(t.time)
    if isinstance(t, NoTime):
        return "-"
    raise Unrepresentable(f"time object {t!r}")


def loc(s):
    if s.startswith("m-"):
        return f"m{idn(s)}"
    if s.startswith("b-"):
        return f"b{idn(s)}"
    raise Unrepresentable(f"location {s!r}")


def comp(s):
    return f"{s[0]}{idn(s)}"


def new_state(ns):
    if isinstance(ns, MachineStateState):
        return "M." + ns.name
    if isinstance(ns, TransportStateState):
        return "T." + ns.name
    raise Unrepresentable(f"new_state {ns!r}")


def transition(t):
    return f"{comp(t.component_id)}>{new_state(t.new_state)}:{'-' if t.job_id is None else idn(t.job_id)}"


def buf(b):
    return f"{idn(b.id)}/{b.state.name}/[{','.join(str(idn(j)) for j in b.store)}]"


def outs(os_):
    parts = []
    for o in os_:
        if isinstance(o.active, OutageActive):
            parts.append(f"{idn(o.id)}:A:{opt_time(o.active.start_time)}:{opt_time(o.active.end_time)}")
        elif isinstance(o.active, OutageInactive):
            parts.append(f"{idn(o.id)}:I:{opt_time(o.active.last_time_active)}")
        else:
            raise Unrepresentable("outage state")
    return "{" + ",".join(parts) + "}"


def op(o):
    idx = int(o.id.split("-")[2])
    return f"({idx},{o.operation_state_state.name},{opt_time(o.start_time)},{opt_time(o.end_time)},{idn(o.machine_id)})"


def job(j):
    if not j.location.startswith("b-"):
        raise Unrepresentable(f"job location {j.location!r}")
    return f"J{idn(j.id)}@{idn(j.location)}:{''.join(op(o) for o in j.operations)}"


def tool(t):
    m = re.match(r"^tl-(\d+)$", t)
    if not m:
        raise Unrepresentable(f"tool {t!r}")
    return int(m.group(1))


def machine(m):
    return (f"M{idn(m.id)},{m.state.name},{opt_time(m.occupied_till)},{tool(m.mounted_tool)},"
            f"pre={buf(m.prebuffer)},buf={buf(m.buffer)},post={buf(m.postbuffer)},out={outs(m.outages)}")


def occ(o):
    if isinstance(o, TimeDependency):
        return f"dep({idn(o.buffer_id)},{idn(o.job_id)},{transition(o.transition)})"
    return opt_time(o)


def tloc(l):
    if isinstance(l, str):
        return loc(l)
    if isinstance(l, tuple) and len(l) == 3:
        return f"({loc(l[0])},b{idn(l[1])},{loc(l[2])})"
    raise Unrepresentable(f"transport location {l!r}")


def transport(t):
    return (f"T{idn(t.id)},{t.state.name},{occ(t.occupied_till)},{tloc(t.location.location)},"
            f"{'-' if t.transport_job is None else idn(t.transport_job)},buf={buf(t.buffer)},out={outs(t.outages)}")


def state(s):
    return (f"t={opt_time(s.time)}|{';'.join(job(j) for j in s.jobs)}|{';'.join(machine(m) for m in s.machines)}"
            f"|{';'.join(transport(t) for t in s.transports)}|{';'.join('B' + buf(b) for b in s.buffers)}")


def offers(ts):
    return " ".join(transition(t) for t in ts)


def b01(b):
    return "1" if b else "0"


# ------------------------------------------------------------------ numeric line comparison
def _num(tok):
    if "/" in tok:
        return float(Fraction(tok))
    return float(tok)


def numeric_fields_equal(a, b, tol):
    """compare two 'K k=v,v;v k2=..' lines field by field, numbers up to tol"""
    fa, fb = a.split(), b.split()
    if len(fa) != len(fb) or fa[0] != fb[0]:
        return False
    for x, y in zip(fa[1:], fb[1:]):
        if "=" in x or "=" in y:
            if "=" not in x or "=" not in y:
                return False
            kx, vx = x.split("=", 1)
            ky, vy = y.split("=", 1)
            if kx != ky:
                return False
        else:
            vx, vy = x, y
        tx, ty = re.split(r"[,;]", vx), re.split(r"[,;]", vy)
        if len(tx) != len(ty):
            return False
        # structure (separators) must agree too
        if re.sub(r"[^,;]", "", vx) != re.sub(r"[^,;]", "", vy):
            return False
        for p, q in zip(tx, ty):
            if p == q:
                continue
            try:
                fp, fq = _num(p), _num(q)
            except Exception:
                return False
            if abs(fp - fq) > tol * max(1.0, abs(fp), abs(fq)):
                return False
    return True


def lines_equal(a, b):
    if a == b:
        return True
    if not a or not b or a[0] != b[0]:
        return False
    if a.startswith("R "):
        return numeric_fields_equal(a, b, 1e-9)
    if a.startswith("V "):
        return numeric_fields_equal(a, b, 2e-6)
    return False
