#!/bin/bash
# build the framework from files on disk only (offline)
set -e
cd "$(dirname "$0")"
export PYTHONPATH=/repo:${PYTHONPATH}
/venv/bin/python harness/gen_tables.py lean/JSL/Gen/Tables.lean >/dev/null 2>&1 || echo "gen_tables failed (will be reported by the checks)"
cd lean
lake build 2>&1 | tail -5
